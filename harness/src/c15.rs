//! C15 — histories of {edit, check, build, link, corrupt} executed on the real
//! separate-compilation entry points; the Lean model predicts every outcome.
use crate::rng::Rng;
use crate::sexp::{S, a, l, n, tagged};
use crate::util;
use compiler::artifact::InterfaceUnit;
use compiler::pipeline::separate::{self, PackageInputs};
use std::collections::HashMap;
use std::fmt::Write as _;
use std::path::{Path, PathBuf};

pub const IFACE_VARIANTS: usize = 15;
/// pairs of variants that differ only in the ORDER of fields / enum variants / trait methods / parameters
pub const ORDER_PAIRS: &[(usize, usize)] = &[(2, 10), (3, 11), (4, 12), (13, 14)];

/// source text of package `pkg`; `iv` selects the dependent-visible part, `bv` the bodies
pub fn source(pkg: &str, imports: &[&str], iv: usize, bv: usize) -> String {
    let mut s = String::new();
    writeln!(s, "package {}", pkg).unwrap();
    for d in imports {
        writeln!(s, "import {}", d).unwrap();
    }
    let mut sum = format!("{}", 1 + bv);
    for d in imports {
        write!(sum, " + {}::value()", d).unwrap();
    }
    writeln!(s, "fn value() -> int32 {{ {} }}", sum).unwrap();
    // spare items nobody else uses: every variant changes something a dependent could see
    match iv {
        1 => writeln!(s, "fn spare(x: int32, y: int32) -> int32 {{ x + y + {} }}", bv).unwrap(),
        7 => {}
        // 13 / 14: the same parameter types in the other order
        13 => writeln!(s, "fn spare(x: int32, y: bool) -> int32 {{ if y {{ x + {} }} else {{ x }} }}", bv).unwrap(),
        14 => writeln!(s, "fn spare(x: bool, y: int32) -> int32 {{ if x {{ y + {} }} else {{ y }} }}", bv).unwrap(),
        8 => writeln!(s, "fn spare(x: int32) -> bool {{ x > {} }}", bv).unwrap(),
        _ => writeln!(s, "fn spare(x: int32) -> int32 {{ x + {} }}", bv).unwrap(),
    }
    if iv == 2 {
        writeln!(s, "struct SpareS {{ a: int32, b: bool }}").unwrap();
    } else if iv == 10 {
        // the fields of variant 2 in the other order (Core addresses fields by position)
        writeln!(s, "struct SpareS {{ b: bool, a: int32 }}").unwrap();
    } else {
        writeln!(s, "struct SpareS {{ a: int32 }}").unwrap();
    }
    if iv == 3 {
        writeln!(s, "enum SpareE {{ V0, V1(int32) }}").unwrap();
    } else if iv == 11 {
        // the variants of variant 3 in the other order (the constructor index is the position)
        writeln!(s, "enum SpareE {{ V1(int32), V0 }}").unwrap();
    } else {
        writeln!(s, "enum SpareE {{ V0 }}").unwrap();
    }
    if iv == 12 {
        // the methods of variant 4 in the other order (vtable slots are positional)
        writeln!(s, "trait SpareT {{ fn k(Self) -> bool; fn m(Self) -> int32; }}").unwrap();
        writeln!(s, "impl SpareT for SpareS {{ fn m(self: SpareS) -> int32 {{ {} }} fn k(self: SpareS) -> bool {{ true }} }}", bv).unwrap();
    } else if iv == 4 {
        writeln!(s, "trait SpareT {{ fn m(Self) -> int32; fn k(Self) -> bool; }}").unwrap();
        writeln!(s, "impl SpareT for SpareS {{ fn m(self: SpareS) -> int32 {{ {} }} fn k(self: SpareS) -> bool {{ true }} }}", bv).unwrap();
    } else {
        writeln!(s, "trait SpareT {{ fn m(Self) -> int32; }}").unwrap();
        writeln!(s, "impl SpareT for SpareS {{ fn m(self: SpareS) -> int32 {{ {} }} }}", bv).unwrap();
    }
    if iv == 5 {
        writeln!(s, "impl SpareT for SpareE {{ fn m(self: SpareE) -> int32 {{ 5 }} }}").unwrap();
    }
    if iv == 6 {
        writeln!(s, "fn extra() -> unit {{ () }}").unwrap();
    }
    if iv == 9 {
        writeln!(s, "impl SpareS {{ fn get(self: SpareS) -> int32 {{ self.a }} }}").unwrap();
    }
    if pkg == "Main" {
        writeln!(s, "fn main() {{ string_println(int32_to_string(value())) }}").unwrap();
    }
    s
}

pub const GRAPHS: &[&[(&str, &[&str])]] = &[
    &[("Main", &["Aa"]), ("Aa", &[])],
    &[("Main", &["Aa", "Bb"]), ("Aa", &[]), ("Bb", &[])],
    &[("Main", &["Bb"]), ("Bb", &["Aa"]), ("Aa", &[])],
    &[("Main", &["Aa", "Bb"]), ("Bb", &["Aa"]), ("Aa", &[])],
    &[("Main", &["Aa", "Bb"]), ("Aa", &["Cc"]), ("Bb", &["Cc"]), ("Cc", &[])],
    // a package among the link inputs that Main does not reach: it is linked all the same, so its
    // pinned dependency hashes matter as much as anybody's
    &[("Main", &["Aa"]), ("Aa", &[]), ("Xx", &["Aa"])],
    &[("Main", &["Bb"]), ("Bb", &["Aa"]), ("Aa", &[]), ("Xx", &["Bb"]), ("Yy", &["Xx", "Aa"])],
];

pub struct World {
    pub root: PathBuf,
    pub art: PathBuf,
    pub graph: &'static [(&'static str, &'static [&'static str])],
    pub iv: HashMap<String, usize>,
    pub bv: HashMap<String, usize>,
    hash_ids: Vec<String>,
    iface_tainted: HashMap<String, bool>,
    core_tainted: HashMap<String, bool>,
}

pub fn classify(msg: &str) -> &'static str {
    if msg.contains("missing interface for package") {
        "missing-interface"
    } else if msg.contains("invalid interface_hash")
        || msg.contains("declares package")
        || msg.contains("failed to parse interface")
        || msg.contains("format_version")
        || msg.contains("compiler_abi")
    {
        "bad-interface"
    } else if msg.contains("failed to read") && msg.contains(".core") {
        "missing-core"
    } else if msg.contains("failed validation") || msg.contains("failed to parse") {
        "invalid-core"
    } else if msg.contains("depends on missing package") {
        "missing-dep"
    } else if msg.contains("expects interface_hash") {
        "stale"
    } else if msg.contains("duplicate core") {
        "duplicate"
    } else if msg.contains("missing Main") {
        "no-main"
    } else if msg.contains("no core inputs") {
        "no-inputs"
    } else {
        "other"
    }
}

fn err_text(e: &compiler::pipeline::pipeline::CompilationError) -> String {
    e.diagnostics().iter().map(|d| d.message().to_string()).collect::<Vec<_>>().join(" | ")
}

impl World {
    pub fn new(root: PathBuf, graph: &'static [(&'static str, &'static [&'static str])]) -> World {
        let art = root.join("artifacts");
        let _ = std::fs::remove_dir_all(&root);
        std::fs::create_dir_all(&art).unwrap();
        let mut w = World {
            root,
            art,
            graph,
            iv: HashMap::new(),
            bv: HashMap::new(),
            hash_ids: Vec::new(),
            iface_tainted: HashMap::new(),
            core_tainted: HashMap::new(),
        };
        for (p, _) in graph {
            w.iv.insert(p.to_string(), 0);
            w.bv.insert(p.to_string(), 0);
            w.write_source(p);
        }
        w
    }
    fn imports(&self, p: &str) -> &'static [&'static str] {
        self.graph.iter().find(|(q, _)| *q == p).map(|(_, d)| *d).unwrap_or(&[])
    }
    fn src_path(&self, p: &str) -> PathBuf {
        self.root.join(p).join("lib.gom")
    }
    fn write_source(&self, p: &str) {
        let dir = self.root.join(p);
        std::fs::create_dir_all(&dir).unwrap();
        std::fs::write(self.src_path(p), source(p, self.imports(p), self.iv[p], self.bv[p])).unwrap();
    }
    fn hash_id(&mut self, h: &str) -> String {
        if let Some(i) = self.hash_ids.iter().position(|x| x == h) {
            format!("h{}", i)
        } else {
            self.hash_ids.push(h.to_string());
            format!("h{}", self.hash_ids.len() - 1)
        }
    }
    fn inputs(&self, p: &str) -> PackageInputs {
        PackageInputs {
            package: p.to_string(),
            input_files: vec![self.src_path(p)],
            interface_paths: vec![self.art.clone()],
        }
    }
    fn guarded<T>(f: impl FnOnce() -> Result<T, compiler::pipeline::pipeline::CompilationError>) -> Result<T, String> {
        match std::panic::catch_unwind(std::panic::AssertUnwindSafe(f)) {
            Ok(Ok(v)) => Ok(v),
            Ok(Err(e)) => Err(err_text(&e)),
            Err(p) => Err(format!("PANIC {}", util::panic_message(p))),
        }
    }
    fn write_iface(&mut self, p: &str, unit: &InterfaceUnit) {
        std::fs::write(self.art.join(format!("{}.interface", p)), serde_json::to_string_pretty(unit).unwrap()).unwrap();
        self.iface_tainted.insert(p.to_string(), false);
    }
    pub fn check(&mut self, p: &str) -> String {
        match Self::guarded(|| separate::check_package(self.inputs(p))) {
            Ok(unit) => {
                self.write_iface(p, &unit);
                format!("ok {}", self.hash_id(&unit.interface_hash))
            }
            Err(m) => format!("err {} «{}»", classify(&m), m),
        }
    }
    pub fn build(&mut self, p: &str) -> String {
        match Self::guarded(|| separate::build_package(self.inputs(p))) {
            Ok(unit) => {
                self.write_iface(p, &unit.interface);
                std::fs::write(self.art.join(format!("{}.core", p)), serde_json::to_string_pretty(&unit).unwrap()).unwrap();
                self.core_tainted.insert(p.to_string(), false);
                format!("ok {}", self.hash_id(&unit.interface.interface_hash))
            }
            Err(m) => format!("err {} «{}»", classify(&m), m),
        }
    }
    pub fn link(&mut self, ps: &[&str]) -> String {
        let mut units = Vec::new();
        for p in ps {
            let path = self.art.join(format!("{}.core", p));
            match Self::guarded(|| separate::read_core(&path)) {
                Ok(u) => units.push(u),
                Err(m) => return format!("err {} «{}»", classify(&m), m),
            }
        }
        match Self::guarded(|| separate::link_cores(units)) {
            Ok(_) => "ok".to_string(),
            Err(m) => format!("err {} «{}»", classify(&m), m),
        }
    }
    /// textual single-field edits of the pretty-printed JSON (a round trip through
    /// `serde_json::Value` would reorder map keys and change more than one thing);
    /// `ind` is the indentation of the interface's own fields (2 in `.interface`, 4 inside `.core`)
    fn mutate_iface_text(text: &str, field: &str, ind: usize) -> Option<String> {
        let pad = " ".repeat(ind);
        let bump = |key: &str, add: u64| -> Option<String> {
            let pat = format!("\n{}\"{}\": ", pad, key);
            let i = text.find(&pat)? + pat.len();
            let j = i + text[i..].find(|c: char| !c.is_ascii_digit())?;
            let v: u64 = text[i..j].parse().ok()?;
            Some(format!("{}{}{}", &text[..i], v + add, &text[j..]))
        };
        // `<field>.older`: the next SMALLER number, as an earlier format version / ABI would have written
        // it (a comparison relaxed to `<=` accepts exactly these); skipped when the value is already 0
        let lower = |key: &str| -> Option<String> {
            let pat = format!("\n{}\"{}\": ", pad, key);
            let i = text.find(&pat)? + pat.len();
            let j = i + text[i..].find(|c: char| !c.is_ascii_digit())?;
            let v: u64 = text[i..j].parse().ok()?;
            if v == 0 {
                return None;
            }
            Some(format!("{}{}{}", &text[..i], v - 1, &text[j..]))
        };
        match field {
            "format_version" => bump("format_version", 1),
            "compiler_abi" => bump("compiler_abi", 6),
            "format_version.older" => lower("format_version"),
            "compiler_abi.older" => lower("compiler_abi"),
            "package" => {
                let pat = format!("\n{}\"package\": \"", pad);
                let i = text.find(&pat)? + pat.len();
                let j = i + text[i..].find('"')?;
                Some(format!("{}Zz{}", &text[..j], &text[j..]))
            }
            "interface_hash" => {
                let pat = format!("\n{}\"interface_hash\": \"", pad);
                let i = text.find(&pat)? + pat.len();
                let c = if &text[i..i + 1] == "0" { "1" } else { "0" };
                Some(format!("{}{}{}", &text[..i], c, &text[i + 1..]))
            }
            "deps" => {
                let empty = format!("\n{}\"deps\": {{}}", pad);
                if let Some(i) = text.find(&empty) {
                    let rep = format!("\n{}\"deps\": {{\n{}  \"Zz\": \"00\"\n{}}}", pad, pad, pad);
                    return Some(format!("{}{}{}", &text[..i], rep, &text[i + empty.len()..]));
                }
                let open = format!("\n{}\"deps\": {{\n", pad);
                let i = text.find(&open)? + open.len();
                Some(format!("{}{}  \"Aa0\": \"00\",\n{}", &text[..i], pad, &text[i..]))
            }
            "exports" => {
                // rename the struct recorded in exports.type_env.structs
                let pat = "SpareS\"";
                let i = text.find(pat)?;
                Some(format!("{}SpareZ\"{}", &text[..i], &text[i + pat.len()..]))
            }
            _ => None,
        }
    }
    pub fn corrupt_iface(&mut self, p: &str, field: &str) -> String {
        let path = self.art.join(format!("{}.interface", p));
        let Ok(text) = std::fs::read_to_string(&path) else { return "skip".to_string() };
        if self.iface_tainted.get(p).copied().unwrap_or(false) {
            return "ok".to_string();
        }
        let Some(t2) = Self::mutate_iface_text(&text, field, 2) else { return "skip".to_string() };
        std::fs::write(&path, t2).unwrap();
        self.iface_tainted.insert(p.to_string(), true);
        "ok".to_string()
    }
    pub fn corrupt_core(&mut self, p: &str, field: &str) -> String {
        let path = self.art.join(format!("{}.core", p));
        let Ok(text) = std::fs::read_to_string(&path) else { return "skip".to_string() };
        if self.core_tainted.get(p).copied().unwrap_or(false) {
            return "ok".to_string();
        }
        let done: Option<String> = match field {
            "core.format_version" | "core.compiler_abi" | "core.package" | "core.format_version.older" | "core.compiler_abi.older" => {
                Self::mutate_iface_text(&text, &field[5..], 2)
            }
            "core.deps" => {
                // the core's own `deps` is the LAST top-level deps entry (after `core_ir`)
                let i = text.rfind("\n  \"deps\": ").unwrap_or(0);
                Self::mutate_iface_text(&text[i..], "deps", 2).map(|t| format!("{}{}", &text[..i], t))
            }
            "core.deps.current" | "core.deps.drop" => {
                // targeted edits of the core's own copy of the pinned hashes: make it agree with what
                // the dependencies export NOW (or forget the dependency) — the edit a stale core needs
                let i = text.rfind("\n  \"deps\": ").unwrap_or(0);
                let tail = &text[i..];
                let open = "\n  \"deps\": {";
                if !tail.starts_with(open) || tail.starts_with("\n  \"deps\": {}") {
                    None
                } else {
                    let end = tail.find("\n  }").map(|k| k + "\n  }".len());
                    match end {
                        None => None,
                        Some(end) => {
                            let body = &tail[open.len()..end - "\n  }".len()];
                            let mut entries: Vec<(String, String)> = Vec::new();
                            for line in body.lines() {
                                let parts: Vec<&str> = line.trim().trim_end_matches(',').split("\": \"").collect();
                                if parts.len() == 2 {
                                    entries.push((parts[0].trim_start_matches('"').to_string(), parts[1].trim_end_matches('"').to_string()));
                                }
                            }
                            let new_entries: Vec<(String, String)> = if field == "core.deps.drop" {
                                Vec::new()
                            } else {
                                entries
                                    .iter()
                                    .map(|(d, h)| {
                                        let cur = std::fs::read_to_string(self.art.join(format!("{}.interface", d)))
                                            .ok()
                                            .and_then(|t| serde_json::from_str::<serde_json::Value>(&t).ok())
                                            .and_then(|v| v["interface_hash"].as_str().map(|s| s.to_string()));
                                        (d.clone(), cur.unwrap_or_else(|| h.clone()))
                                    })
                                    .collect()
                            };
                            if new_entries == entries {
                                None
                            } else {
                                let rendered = if new_entries.is_empty() {
                                    "\n  \"deps\": {}".to_string()
                                } else {
                                    format!(
                                        "\n  \"deps\": {{\n{}\n  }}",
                                        new_entries.iter().map(|(d, h)| format!("    \"{}\": \"{}\"", d, h)).collect::<Vec<_>>().join(",\n")
                                    )
                                };
                                Some(format!("{}{}{}", &text[..i], rendered, &tail[end..]))
                            }
                        }
                    }
                }
            }
            "core.core_ir" => {
                // change the literal returned by `value()`: a pure Core-IR edit
                let i = text.find("\n  \"core_ir\": ").unwrap_or(0);
                let tail = &text[i..];
                let pat = "\"Int32\": {";
                tail.find(pat).and_then(|k| {
                    let k2 = k + tail[k..].find("\"value\": ")? + "\"value\": ".len();
                    Some(format!("{}{}7{}", &text[..i], &tail[..k2], &tail[k2..]))
                })
            }
            f => Self::mutate_iface_text(&text, f, 4),
        };
        let Some(t2) = done else { return "skip".to_string() };
        std::fs::write(&path, t2).unwrap();
        self.core_tainted.insert(p.to_string(), true);
        "ok".to_string()
    }
    /// an interface as another format version / ABI would write it: consistent with its own hash
    pub fn foreign_iface(&mut self, p: &str, ver: u32, abi: u32) -> String {
        match Self::guarded(|| separate::check_package(self.inputs(p))) {
            Ok(mut unit) => {
                unit.format_version = ver;
                unit.compiler_abi = abi;
                unit.interface_hash = unit.compute_hash();
                std::fs::write(self.art.join(format!("{}.interface", p)), serde_json::to_string_pretty(&unit).unwrap()).unwrap();
                self.iface_tainted.insert(p.to_string(), true);
                "ok".to_string()
            }
            Err(_) => "skip".to_string(),
        }
    }
    pub fn edit_iface(&mut self, p: &str, v: usize) -> String {
        self.iv.insert(p.to_string(), v);
        self.write_source(p);
        "ok".to_string()
    }
    pub fn edit_body(&mut self, p: &str, v: usize) -> String {
        self.bv.insert(p.to_string(), v);
        self.write_source(p);
        "ok".to_string()
    }
}

const IFACE_FIELDS: [&str; 8] =
    ["format_version", "compiler_abi", "package", "exports", "deps", "interface_hash", "format_version.older", "compiler_abi.older"];
const CORE_FIELDS: [&str; 9] = [
    "core.format_version",
    "core.compiler_abi",
    "core.package",
    "core.deps",
    "core.core_ir",
    "core.deps.current",
    "core.deps.drop",
    "core.format_version.older",
    "core.compiler_abi.older",
];

fn topo(graph: &'static [(&'static str, &'static [&'static str])]) -> Vec<&'static str> {
    let mut out: Vec<&'static str> = Vec::new();
    while out.len() < graph.len() {
        for (p, ds) in graph {
            if !out.contains(p) && ds.iter().all(|d| out.contains(d)) {
                out.push(p);
            }
        }
    }
    out
}

type Graph = &'static [(&'static str, &'static [&'static str])];

/// generated graphs live as long as the process (a few hundred small tables)
fn leak_graph(v: Vec<(&'static str, Vec<&'static str>)>) -> Graph {
    let rows: Vec<(&'static str, &'static [&'static str])> =
        v.into_iter().map(|(p, ds)| (p, &*Box::leak(ds.into_boxed_slice()))).collect();
    Box::leak(rows.into_boxed_slice())
}

/// every import graph over `Main` + the three names of `pool`: every acyclic set of imports among the
/// three (25) × every set of imports of Main (8); Main is imported by nobody. Import lists are written
/// in pool order, not in name order.
fn all_labelled_graphs(pool: &[&'static str; 3]) -> Vec<Graph> {
    let pairs: [(usize, usize); 6] = [(0, 1), (0, 2), (1, 0), (1, 2), (2, 0), (2, 1)];
    let mut out = Vec::new();
    for em in 0..(1u32 << pairs.len()) {
        let edges: Vec<(usize, usize)> = pairs.iter().enumerate().filter(|(k, _)| em & (1 << k) != 0).map(|(_, e)| *e).collect();
        // acyclic iff the nodes can be peeled off dependency-first
        let mut done: Vec<usize> = Vec::new();
        loop {
            let before = done.len();
            for i in 0..3 {
                if !done.contains(&i) && edges.iter().all(|(x, y)| *x != i || done.contains(y)) {
                    done.push(i);
                }
            }
            if done.len() == before {
                break;
            }
        }
        if done.len() != 3 {
            continue;
        }
        for mm in 0..8u32 {
            let mut rows: Vec<(&'static str, Vec<&'static str>)> = Vec::new();
            rows.push(("Main", (0..3).filter(|i| mm & (1 << i) != 0).map(|i| pool[i]).collect()));
            for i in 0..3 {
                rows.push((pool[i], edges.iter().filter(|(x, _)| *x == i).map(|(_, y)| pool[*y]).collect()));
            }
            out.push(leak_graph(rows));
        }
    }
    out
}

/// a random import graph over `Main` + the names of `pool`: a random dependency order of the names, every
/// forward pair an import with probability 1/2, Main imports each with probability 1/2 (at least one)
fn random_labelled_graph(rng: &mut Rng, pool: &[&'static str]) -> Graph {
    let k = pool.len();
    let mut perm: Vec<usize> = (0..k).collect();
    for i in (1..k).rev() {
        let j = rng.below(i + 1);
        perm.swap(i, j);
    }
    // rank[i] = position of pool[i] in the dependency order; imports go from higher to lower rank
    let mut rank = vec![0usize; k];
    for (pos, i) in perm.iter().enumerate() {
        rank[*i] = pos;
    }
    let mut rows: Vec<(&'static str, Vec<&'static str>)> = Vec::new();
    let mut main_imps: Vec<&'static str> = (0..k).filter(|_| rng.chance(1, 2)).map(|i| pool[i]).collect();
    if main_imps.is_empty() {
        main_imps.push(pool[perm[k - 1]]);
    }
    rows.push(("Main", main_imps));
    for i in 0..k {
        let ds: Vec<&'static str> = (0..k).filter(|j| rank[*j] < rank[i] && rng.chance(1, 2)).map(|j| pool[j]).collect();
        rows.push((pool[i], ds));
    }
    leak_graph(rows)
}

/// one history that visits every import edge q → p of the graph: q becomes the only stale package
/// (p's interface edited; p and every transitive dependent of p except q rebuilt, dependencies first),
/// everything is linked, then q and its dependents are rebuilt and everything is linked again. The link
/// inputs are given in dependency order, its reverse, and name order in turn.
fn edge_sweep(g: Graph, salt: usize) -> Vec<S> {
    let order = topo(g);
    let imports = |p: &str| -> &'static [&'static str] { g.iter().find(|(q, _)| *q == p).map(|(_, d)| *d).unwrap_or(&[]) };
    let dependents = |p: &str| -> Vec<&'static str> {
        let mut set: Vec<&'static str> = Vec::new();
        for q in &order {
            if imports(q).iter().any(|d| *d == p || set.contains(d)) {
                set.push(*q);
            }
        }
        set
    };
    let mut links = 0usize;
    let mut link = |ops: &mut Vec<S>| {
        let mut ps: Vec<&'static str> = order.clone();
        match links % 3 {
            1 => ps.reverse(),
            2 => ps.sort(),
            _ => {}
        }
        links += 1;
        ops.push(tagged("link", ps.iter().map(|p| a(*p)).collect()));
    };
    let mut ops: Vec<S> = order.iter().map(|p| tagged("build", vec![a(*p)])).collect();
    link(&mut ops);
    let mut cur: HashMap<&'static str, usize> = HashMap::new();
    let mut e = salt;
    for q in &order {
        for p in imports(q) {
            let was = cur.get(p).copied().unwrap_or(0);
            let mut v = 1 + e % (IFACE_VARIANTS - 1);
            if v == was {
                v = 1 + v % (IFACE_VARIANTS - 1);
            }
            e += 1;
            cur.insert(*p, v);
            ops.push(tagged("edit-iface", vec![a(*p), n(v)]));
            ops.push(tagged("build", vec![a(*p)]));
            for r in dependents(p) {
                if r != *q {
                    ops.push(tagged("build", vec![a(r)]));
                }
            }
            link(&mut ops);
            ops.push(tagged("build", vec![a(*q)]));
            for r in dependents(q) {
                ops.push(tagged("build", vec![a(r)]));
            }
            link(&mut ops);
        }
    }
    ops
}

fn gen_history(rng: &mut Rng,graph: &'static [(&'static str, &'static [&'static str])], len: usize) -> Vec<S> {
    let pkgs: Vec<&'static str> = graph.iter().map(|(p, _)| *p).collect();
    let order = topo(graph);
    let mut ops = Vec::new();
    if rng.chance(3, 5) {
        for p in &order {
            ops.push(tagged("build", vec![a(*p)]));
        }
        if rng.chance(1, 2) {
            ops.push(tagged("link", pkgs.iter().map(|p| a(*p)).collect()));
        }
    }
    for _ in 0..len {
        let p = *rng.pick(&pkgs);
        let op = match rng.below(100) {
            0..=29 => tagged("build", vec![a(p)]),
            30..=37 => tagged("check", vec![a(p)]),
            38..=49 => tagged("edit-iface", vec![a(p), n(rng.below(IFACE_VARIANTS))]),
            50..=59 => tagged("edit-body", vec![a(p), n(rng.below(4))]),
            60..=81 => {
                if rng.chance(4, 5) {
                    tagged("link", pkgs.iter().map(|p| a(*p)).collect())
                } else {
                    // a subset, possibly without Main or without a dependency
                    let sub: Vec<S> = pkgs.iter().filter(|_| rng.chance(2, 3)).map(|p| a(*p)).collect();
                    tagged("link", sub)
                }
            }
            82..=88 => tagged("corrupt-iface", vec![a(p), a(*rng.pick(&IFACE_FIELDS))]),
            89..=96 => {
                let f = if rng.chance(1, 2) { *rng.pick(&CORE_FIELDS) } else { *rng.pick(&IFACE_FIELDS) };
                tagged("corrupt-core", vec![a(p), a(f)])
            }
            _ => {
                // only packages without imports: their `check` cannot fail for other reasons
                let leaves: Vec<&'static str> = graph.iter().filter(|(_, d)| d.is_empty()).map(|(p, _)| *p).collect();
                let p = *rng.pick(&leaves);
                if rng.chance(1, 2) {
                    tagged("foreign-iface", vec![a(p), n(2), n(1)])
                } else {
                    tagged("foreign-iface", vec![a(p), n(1), n(3)])
                }
            }
        };
        ops.push(op);
    }
    ops
}

fn atom(s: &S) -> &str {
    match s {
        S::A(x) => x.as_str(),
        _ => "",
    }
}

pub fn exec(w: &mut World, op: &S) -> String {
    let S::L(items) = op else { return "bad-op".into() };
    let head = atom(&items[0]);
    let p = items.get(1).map(atom).unwrap_or("");
    match head {
        "build" => w.build(p),
        "check" => w.check(p),
        "edit-iface" => w.edit_iface(p, atom(&items[2]).parse().unwrap_or(0)),
        "edit-body" => w.edit_body(p, atom(&items[2]).parse().unwrap_or(0)),
        "link" => {
            let ps: Vec<&str> = items[1..].iter().map(atom).collect();
            w.link(&ps)
        }
        "corrupt-iface" => w.corrupt_iface(p, atom(&items[2])),
        "corrupt-core" => w.corrupt_core(p, atom(&items[2])),
        "foreign-iface" => w.foreign_iface(p, atom(&items[2]).parse().unwrap_or(0), atom(&items[3]).parse().unwrap_or(0)),
        _ => "bad-op".into(),
    }
}

pub fn history_sexp(graph: &'static [(&'static str, &'static [&'static str])], ops: &[S]) -> S {
    let imps = graph
        .iter()
        .map(|(p, ds)| {
            let mut v = vec![a(*p)];
            v.extend(ds.iter().map(|d| a(*d)));
            l(v)
        })
        .collect();
    tagged("history", vec![tagged("imports", imps), tagged("ops", ops.to_vec())])
}

pub fn run_history(id: &str, graph: &'static [(&'static str, &'static [&'static str])], ops: &[S], root: &Path, out: &mut String) {
    let mut w = World::new(root.to_path_buf(), graph);
    let results: Vec<String> = ops.iter().map(|op| exec(&mut w, op)).collect();
    writeln!(out, "{}\tCASE\t{}\t{}", id, history_sexp(graph, ops).to_text(), crate::sexp::esc_line(&results.join(" | "))).unwrap();
}

pub fn main(args: &util::Args) {
    util::quiet_panics();
    let dir = util::scratch_dir("c15");
    let mut out = String::new();
    let total = args.n.unwrap_or(if args.tier == "thorough" { 4000 } else { 400 });
    for i in 0..total {
        let mut root = Rng::new(args.seed);
        let mut rng = root.fork(i as u64);
        let graph = GRAPHS[i % GRAPHS.len()];
        let len = 3 + rng.below(if args.tier == "thorough" { 10 } else { 7 });
        let ops = gen_history(&mut rng, graph, len);
        run_history(&format!("gen:{}:{}", args.seed, i), graph, &ops, &dir.join("w"), &mut out);
    }
    // deterministic catalogue: every single-field corruption of every artefact after a full build
    let g = GRAPHS[2];
    let order = topo(g);
    let mut k = 0;
    for target in &order {
        for f in IFACE_FIELDS.iter() {
            let mut ops: Vec<S> = order.iter().map(|p| tagged("build", vec![a(*p)])).collect();
            ops.push(tagged("corrupt-iface", vec![a(*target), a(*f)]));
            for p in &order {
                ops.push(tagged("check", vec![a(*p)]));
            }
            ops.push(tagged("link", order.iter().map(|p| a(*p)).collect()));
            run_history(&format!("cat:iface:{}", k), g, &ops, &dir.join("w"), &mut out);
            k += 1;
        }
        for f in IFACE_FIELDS.iter().chain(CORE_FIELDS.iter()) {
            let mut ops: Vec<S> = order.iter().map(|p| tagged("build", vec![a(*p)])).collect();
            ops.push(tagged("corrupt-core", vec![a(*target), a(*f)]));
            ops.push(tagged("link", order.iter().map(|p| a(*p)).collect()));
            run_history(&format!("cat:core:{}", k), g, &ops, &dir.join("w"), &mut out);
            k += 1;
        }
    }
    // reader catalogue: in `cat:iface` above the owner of the altered file is re-checked (and the file
    // rewritten) before any dependent looks at it, so nothing there ever READS an altered interface.
    // Here every direct dependent checks and builds against the altered file FIRST — for every
    // single-field alteration, and for an interface written consistently (own hash recomputed) by an
    // earlier / later format version or ABI — over a chain and over a package with two imports.
    for gi in [2usize, 3] {
        let g = GRAPHS[gi];
        let order = topo(g);
        let readers = |t: &str| -> Vec<&'static str> {
            let mut v: Vec<&'static str> = Vec::new();
            for q in &order {
                for (p, ds) in g.iter() {
                    if *p == *q && ds.iter().any(|d| *d == t) {
                        v.push(*q);
                    }
                }
            }
            v
        };
        let tail = |t: &str| -> Vec<S> {
            let mut ops: Vec<S> = Vec::new();
            for d in readers(t) {
                ops.push(tagged("check", vec![a(d)]));
                ops.push(tagged("build", vec![a(d)]));
            }
            ops.push(tagged("link", order.iter().map(|p| a(*p)).collect()));
            ops
        };
        for target in order.iter().filter(|t| !readers(t).is_empty()) {
            for f in IFACE_FIELDS.iter() {
                let mut ops: Vec<S> = order.iter().map(|p| tagged("build", vec![a(*p)])).collect();
                ops.push(tagged("corrupt-iface", vec![a(*target), a(*f)]));
                ops.extend(tail(target));
                run_history(&format!("cat:iface-read:{}:{}:{}", gi, target, f), g, &ops, &dir.join("w"), &mut out);
            }
        }
        let (fv, abi) = (compiler::artifact::FORMAT_VERSION as usize, compiler::artifact::COMPILER_ABI as usize);
        let mut others: Vec<(usize, usize)> = vec![(fv + 1, abi), (fv, abi + 1), (fv + 1, abi + 1), (fv + 41, abi), (fv, abi + 41)];
        if fv > 0 {
            others.push((fv - 1, abi));
        }
        if abi > 0 {
            others.push((fv, abi - 1));
        }
        // the model's foreign interface has no dependencies: leaves only
        let leaves: Vec<&'static str> = g.iter().filter(|(_, ds)| ds.is_empty()).map(|(t, _)| *t).collect();
        for target in leaves.into_iter().filter(|t| !readers(t).is_empty()) {
            for (v, b) in &others {
                let mut ops: Vec<S> = order.iter().map(|p| tagged("build", vec![a(*p)])).collect();
                ops.push(tagged("foreign-iface", vec![a(target), n(*v), n(*b)]));
                ops.extend(tail(target));
                run_history(&format!("cat:foreign:{}:{}:{}:{}", gi, target, v, b), g, &ops, &dir.join("w"), &mut out);
            }
        }
    }
    // staleness catalogue: after an interface edit of P and a rebuild of P, rebuild EVERY subset of the
    // other packages (in dependency order) and link everything: only the full set of dependents helps
    for (gi, g) in GRAPHS.iter().enumerate() {
        let order = topo(g);
        for (pi, p) in order.iter().enumerate() {
            let others: Vec<&'static str> = order.iter().filter(|q| *q != p).cloned().collect();
            for mask in 0..(1u32 << others.len()) {
                let mut ops: Vec<S> = order.iter().map(|q| tagged("build", vec![a(*q)])).collect();
                ops.push(tagged("edit-iface", vec![a(*p), n(1 + (mask as usize + pi) % (IFACE_VARIANTS - 1))]));
                ops.push(tagged("build", vec![a(*p)]));
                for (k, q) in others.iter().enumerate() {
                    if mask & (1 << k) != 0 {
                        ops.push(tagged("build", vec![a(*q)]));
                    }
                }
                // link inputs in both orders: the verdict must not depend on it
                ops.push(tagged("link", order.iter().map(|q| a(*q)).collect()));
                ops.push(tagged("link", order.iter().rev().map(|q| a(*q)).collect()));
                run_history(&format!("cat:stale:{}:{}:{}", gi, p, mask), g, &ops, &dir.join("w"), &mut out);
                // the same situation with the stale cores' own dependency tables edited to look current
                for forge in ["core.deps.current", "core.deps.drop"] {
                    let mut ops2: Vec<S> = ops[..ops.len() - 2].to_vec();
                    for (k, q) in others.iter().enumerate() {
                        if mask & (1 << k) == 0 {
                            ops2.push(tagged("corrupt-core", vec![a(*q), a(forge)]));
                        }
                    }
                    ops2.push(tagged("link", order.iter().map(|q| a(*q)).collect()));
                    run_history(&format!("cat:forge:{}:{}:{}:{}", gi, p, mask, forge), g, &ops2, &dir.join("w"), &mut out);
                }
            }
        }
    }
    // every interface variant changes the hash; returning to a variant restores it
    for v in 1..IFACE_VARIANTS {
        let ops = vec![
            tagged("build", vec![a("Aa")]),
            tagged("build", vec![a("Bb")]),
            tagged("build", vec![a("Main")]),
            tagged("edit-iface", vec![a("Aa"), n(v)]),
            tagged("build", vec![a("Aa")]),
            tagged("link", vec![a("Main"), a("Bb"), a("Aa")]),
            tagged("build", vec![a("Bb")]),
            tagged("link", vec![a("Main"), a("Bb"), a("Aa")]),
            tagged("build", vec![a("Main")]),
            tagged("link", vec![a("Main"), a("Bb"), a("Aa")]),
            tagged("edit-iface", vec![a("Aa"), n(0)]),
            tagged("edit-body", vec![a("Aa"), n(3)]),
            tagged("build", vec![a("Aa")]),
            tagged("link", vec![a("Main"), a("Bb"), a("Aa")]),
        ];
        run_history(&format!("cat:variant:{}", v), g, &ops, &dir.join("w"), &mut out);
    }
    // a stale package that Main does not reach, with everything Main reaches up to date
    {
        let gx = GRAPHS[5];
        for v in [1usize, 2, 7] {
            let ops = vec![
                tagged("build", vec![a("Aa")]),
                tagged("build", vec![a("Xx")]),
                tagged("build", vec![a("Main")]),
                tagged("link", vec![a("Main"), a("Aa"), a("Xx")]),
                tagged("edit-iface", vec![a("Aa"), n(v)]),
                tagged("build", vec![a("Aa")]),
                tagged("build", vec![a("Main")]),
                tagged("link", vec![a("Main"), a("Aa"), a("Xx")]),
                tagged("link", vec![a("Xx"), a("Main"), a("Aa")]),
                tagged("link", vec![a("Main"), a("Aa")]),
                tagged("build", vec![a("Xx")]),
                tagged("link", vec![a("Main"), a("Aa"), a("Xx")]),
            ];
            run_history(&format!("cat:unreachable:{}", v), gx, &ops, &dir.join("w"), &mut out);
        }
    }
    // order-only edits: a dependent built against one order must not link with the other
    for (x, y) in ORDER_PAIRS.iter().flat_map(|(x, y)| [(*x, *y), (*y, *x)]) {
        let ops = vec![
            tagged("edit-iface", vec![a("Aa"), n(x)]),
            tagged("build", vec![a("Aa")]),
            tagged("build", vec![a("Bb")]),
            tagged("build", vec![a("Main")]),
            tagged("link", vec![a("Main"), a("Bb"), a("Aa")]),
            tagged("edit-iface", vec![a("Aa"), n(y)]),
            tagged("build", vec![a("Aa")]),
            tagged("link", vec![a("Main"), a("Bb"), a("Aa")]),
            tagged("build", vec![a("Bb")]),
            tagged("link", vec![a("Main"), a("Bb"), a("Aa")]),
            tagged("build", vec![a("Main")]),
            tagged("link", vec![a("Main"), a("Bb"), a("Aa")]),
        ];
        run_history(&format!("cat:order:{}:{}", x, y), g, &ops, &dir.join("w"), &mut out);
    }
    // name/shape catalogue: the verdict of `link` must not depend on how the packages are NAMED (every
    // traversal inside `link_cores` — sorted package list, `BTreeMap` of dependencies, whatever walk
    // replaces them — is ordered by name) nor on where in the graph the stale import edge sits.
    // `cat:names`: EVERY labelled import graph over Main + three packages (25 DAGs × 8 import sets of
    // Main = 200 graphs; "labelled" = every assignment of the three names to every shape, names on both
    // sides of "Main" in sort order); `cat:names5` / `cat:names6`: seeded samples of labelled graphs over
    // Main + four / five packages. Per graph ONE history (`edge_sweep`): for every import edge q → p in
    // turn, make q the ONLY stale package (edit p's interface, rebuild p and every transitive dependent
    // of p except q), link (must be refused), then rebuild q and its dependents and link (must succeed).
    {
        let thorough = args.tier == "thorough";
        let pools3: &[[&'static str; 3]] = if thorough { &[["Aa", "Kk", "Zz"], ["Aa", "Xx", "Zz"], ["Bb", "Ma", "Mainx"]] } else { &[["Aa", "Kk", "Zz"]] };
        for (pi, pool) in pools3.iter().enumerate() {
            for (gi, g) in all_labelled_graphs(pool).into_iter().enumerate() {
                let ops = edge_sweep(g, gi);
                run_history(&format!("cat:names:{}:{}", pi, gi), g, &ops, &dir.join("w"), &mut out);
            }
        }
        let pools4: [[&'static str; 4]; 3] = [["Aa", "Kk", "Pp", "Zz"], ["Bb", "Ma", "Mainx", "Nn"], ["Aa", "Bb", "Cc", "Dd"]];
        let pools5: [[&'static str; 5]; 2] = [["Aa", "Kk", "Pp", "Ww", "Zz"], ["Bb", "Cc", "Ma", "Mainx", "Nn"]];
        let (n5, n6) = if thorough { (600, 120) } else { (36, 6) };
        let mut root = Rng::new(args.seed ^ 0x15c0_ffee);
        for i in 0..n5 {
            let mut rng = root.fork(i as u64);
            let g = random_labelled_graph(&mut rng, &pools4[i % pools4.len()]);
            let ops = edge_sweep(g, i);
            run_history(&format!("cat:names5:{}:{}", args.seed, i), g, &ops, &dir.join("w"), &mut out);
        }
        for i in 0..n6 {
            let mut rng = root.fork(1_000_000 + i as u64);
            let g = random_labelled_graph(&mut rng, &pools5[i % pools5.len()]);
            let ops = edge_sweep(g, i);
            run_history(&format!("cat:names6:{}:{}", args.seed, i), g, &ops, &dir.join("w"), &mut out);
        }
    }
    let _ = std::fs::create_dir_all(&args.out);
    std::fs::write(args.out.join("c15.cases.tsv"), out).unwrap();
    let _ = std::fs::remove_dir_all(&dir);
}
