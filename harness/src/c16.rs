//! C16 — package isolation and coherence.  Generated "worlds": a package layout on disk (DAGs,
//! diamonds, cycles, missing / misnamed / inconsistent directories) × placements of qualified
//! references (value, type, struct literal, constructor, trait bound, dyn, unqualified foreign name,
//! missing item) and of trait impls (owner of the trait × owner of the type) in chosen packages and
//! files.  The real whole-program `pipeline::compile` is run on every world, on three copies whose
//! directories were created in different orders; its acceptance and the classes of its diagnostics
//! are printed for the Lean model (`gomlmodel c16`) and for the declarative oracle in
//! `tools/props/c16.py`.
use crate::c13::{classify_graph_err, materialize, Project};
use crate::rng::Rng;
use crate::sexp::{S, a, esc_line, l, tagged};
use crate::util;
use compiler::pipeline::pipeline::{self};
use std::collections::BTreeSet;
use std::fmt::Write as _;
use std::path::Path;

pub const POOL: &[&str] = &["Aa", "Bb", "Cc", "Dd"];
/// confusable package names: in every pool the first name is a proper prefix of the second (or differs from it only
/// in case / is spelled like an item or a builtin of the language); "who owns this item" must be decided by the
/// package segment of the path, never by a textual prefix of it
pub const CONFUSABLE_POOLS: &[&[&str]] = &[
    &["Net", "NetTypes", "Ne", "Fmt"],
    &["Mai", "MainLib", "Ma", "MainLibX"],
    &["A", "Aa", "Aaa", "Ab"],
    &["Lib", "lib", "LIB", "Li"],
    &["SAa", "SAaa", "Aa", "TAa"],
    &["P1", "P10", "P_1", "P1_0"],
    &["Ve", "Vec", "Ref", "Int32"],
];

/// the name pool of world `idx`: every other block of ten worlds uses a confusable pool
pub fn pool_of(idx: usize) -> &'static [&'static str] {
    if (idx / 10) % 2 == 0 { POOL } else { CONFUSABLE_POOLS[(idx / 20) % CONFUSABLE_POOLS.len()] }
}
pub const FORMS: &[&str] = &["fn", "ty", "lit", "ctor", "bound", "dyn", "unq", "nofn", "smeth", "sself", "tmeth", "flow"];
/// forms whose path has three segments (`P::SP::mk`, `P::SP::get`, `P::TP::m`) or that only *use* a value of a type of
/// the target without naming it (`flow`)
pub const PATH_FORMS: &[&str] = &["smeth", "sself", "tmeth", "flow"];

#[derive(Clone, Debug)]
pub enum State {
    Ok,
    /// directory exists, declares another package name
    Declares(String),
    /// no directory
    Missing,
    /// two files with different package declarations
    FileMismatch,
}

#[derive(Clone, Debug)]
pub struct Use {
    pub file: usize,
    pub form: String,
    pub target: String,
    /// own items spelled with the package prefix
    pub qual: bool,
    /// `sself`, `flow`: the package whose function `make<target>()` hands out the value (the target itself, or an
    /// import of the current package that imports the target); "-" otherwise
    pub via: String,
}

#[derive(Clone, Debug, PartialEq)]
pub struct Impl {
    pub file: usize,
    /// `impl TYPE { … }` instead of `impl TRAIT for TYPE { … }`
    pub inherent: bool,
    /// owner of the trait (unused for inherent impls)
    pub tr: String,
    /// outermost constructor of the target type: nom prim vec ref tup arr fun dyn gen
    pub shape: String,
    /// owner of the nominal head (nom, gen) or of the trait of a `dyn`; "-" otherwise
    pub head: String,
    /// owner of the argument struct, "int32", or "-" where the shape has no argument
    pub arg: String,
    /// "S" or "R": which of the head's two structs (nom only)
    pub which: String,
}

pub const SHAPES: &[&str] = &["nom", "prim", "vec", "ref", "tup", "arr", "fun", "dyn", "gen"];

#[derive(Clone, Debug)]
pub struct Pkg {
    pub name: String,
    pub state: State,
    pub imports: Vec<String>,
    pub uses: Vec<Use>,
    pub impls: Vec<Impl>,
}

pub struct World {
    pub pkgs: Vec<Pkg>,
    pub shape: &'static str,
}

fn std_items(p: &str, imports: &[String]) -> String {
    let mut s = format!(
        "struct S{p} {{\n    v: int32,\n}}\n\nstruct R{p} {{\n    v: int32,\n}}\n\nstruct G{p}[T] {{\n    x: T,\n}}\n\nenum E{p} {{\n    K0,\n    K1(int32),\n}}\n\ntrait T{p} {{\n    fn m(Self) -> int32;\n}}\n\nimpl T{p} for S{p} {{\n    fn m(self: S{p}) -> int32 {{\n        self.v\n    }}\n}}\n\nimpl T{p} for bool {{\n    fn m(self: bool) -> int32 {{\n        2\n    }}\n}}\n\nimpl S{p} {{\n    fn mk(x: int32) -> S{p} {{\n        S{p} {{ v: x }}\n    }}\n    fn get(self: S{p}) -> int32 {{\n        self.v\n    }}\n}}\n\nfn f{p}(x: int32) -> int32 {{\n    x\n}}\n\nfn make{p}() -> S{p} {{\n    S{p} {{ v: 1 }}\n}}\n"
    );
    // a function handing out a value of every imported package's struct: the legitimate way for a package that
    // imports only this one to hold such a value
    let mut seen: Vec<&String> = Vec::new();
    for d in imports {
        if d == p || seen.contains(&d) {
            continue;
        }
        seen.push(d);
        write!(s, "\nfn make{d}() -> {d}::S{d} {{\n    {d}::S{d} {{ v: 3 }}\n}}\n").unwrap();
    }
    s
}

/// `V::make<target>()`
fn via_call(q: &str, u: &Use) -> String {
    if u.via == q { format!("make{}()", u.target) } else { format!("{}::make{}()", u.via, u.target) }
}

fn use_text(q: &str, i: usize, u: &Use) -> String {
    let p = &u.target;
    let pre = if p == q && !u.qual { String::new() } else { format!("{}::", p) };
    match u.form.as_str() {
        "fn" => format!("fn u{i}{q}(x: int32) -> int32 {{\n    {pre}f{p}(x)\n}}\n"),
        "ty" => format!("fn u{i}{q}(x: {pre}S{p}) -> int32 {{\n    1\n}}\n"),
        "lit" => format!("fn u{i}{q}() -> int32 {{\n    let s = {pre}S{p} {{ v: 1 }};\n    s.v\n}}\n"),
        "ctor" => format!("fn u{i}{q}() -> int32 {{\n    match {pre}E{p}::K1(2) {{\n        {pre}E{p}::K0 => 0,\n        {pre}E{p}::K1(y) => y,\n    }}\n}}\n"),
        "bound" => format!("fn u{i}{q}[T: {pre}T{p}](x: T) -> int32 {{\n    1\n}}\n"),
        "dyn" => format!("fn u{i}{q}(x: dyn {pre}T{p}) -> int32 {{\n    1\n}}\n"),
        "unq" => format!("fn u{i}{q}(x: int32) -> int32 {{\n    f{p}(x)\n}}\n"),
        "smeth" => format!("fn u{i}{q}() -> int32 {{\n    let s = {pre}S{p}::mk(1);\n    1\n}}\n"),
        "sself" => format!("fn u{i}{q}() -> int32 {{\n    let s = {};\n    {pre}S{p}::get(s)\n}}\n", via_call(q, u)),
        "tmeth" => format!("fn u{i}{q}() -> int32 {{\n    {pre}T{p}::m(true)\n}}\n"),
        "flow" => format!("fn u{i}{q}() -> int32 {{\n    let t = {};\n    t.v\n}}\n", via_call(q, u)),
        _ => format!("fn u{i}{q}(x: int32) -> int32 {{\n    {pre}nope{p}(x)\n}}\n"),
    }
}

/// spelling of `owner::item` from inside package `q`
fn path(q: &str, owner: &str, item: &str) -> String {
    if owner == q { format!("{}{}", item, owner) } else { format!("{}::{}{}", owner, item, owner) }
}

pub fn type_text(q: &str, im: &Impl) -> String {
    let arg = if im.arg == "int32" || im.arg == "-" { "int32".to_string() } else { path(q, &im.arg, "S") };
    match im.shape.as_str() {
        "nom" => path(q, &im.head, &im.which),
        "prim" => "int32".to_string(),
        "vec" => format!("Vec[{arg}]"),
        "ref" => format!("Ref[{arg}]"),
        "tup" => format!("({arg}, int32)"),
        "arr" => format!("[{arg}; 2]"),
        "fun" => format!("({arg}) -> int32"),
        "dyn" => format!("dyn {}", path(q, &im.head, "T")),
        _ => format!("{}[{arg}]", path(q, &im.head, "G")),
    }
}

fn impl_text(q: &str, i: usize, im: &Impl) -> String {
    let ty = type_text(q, im);
    if im.inherent {
        format!("impl {ty} {{\n    fn k{i}(self: {ty}) -> int32 {{\n        7\n    }}\n}}\n")
    } else {
        let tr = path(q, &im.tr, "T");
        format!("impl {tr} for {ty} {{\n    fn m(self: {ty}) -> int32 {{\n        7\n    }}\n}}\n")
    }
}

pub fn sources(w: &World) -> Vec<(String, String)> {
    let mut files = Vec::new();
    for p in &w.pkgs {
        let q = &p.name;
        let decl = match &p.state {
            State::Ok | State::FileMismatch => q.clone(),
            State::Declares(d) => d.clone(),
            State::Missing => continue,
        };
        let rel = |f: &str| if q == "Main" { f.to_string() } else { format!("{}/{}", q, f) };
        let (f0, f1) = if q == "Main" { ("main.gom", "n.gom") } else { ("a.gom", "b.gom") };
        let mut s0 = format!("package {}\n", decl);
        for d in &p.imports {
            writeln!(s0, "import {}", d).unwrap();
        }
        s0.push('\n');
        s0.push_str(&std_items(&decl, &p.imports));
        let mut s1 = format!("package {}\n\n", decl);
        let mut has1 = false;
        for (i, u) in p.uses.iter().enumerate() {
            let t = use_text(&decl, i, u);
            if u.file == 0 {
                s0.push('\n');
                s0.push_str(&t);
            } else {
                has1 = true;
                s1.push_str(&t);
                s1.push('\n');
            }
        }
        for (i, im) in p.impls.iter().enumerate() {
            let t = impl_text(&decl, i, im);
            if im.file == 0 {
                s0.push('\n');
                s0.push_str(&t);
            } else {
                has1 = true;
                s1.push_str(&t);
                s1.push('\n');
            }
        }
        if q == "Main" {
            s0.push_str("\nfn main() {\n    string_println(int32_to_string(fMain(1)))\n}\n");
        }
        files.push((rel(f0), s0));
        if has1 {
            files.push((rel(f1), s1));
        }
        if let State::FileMismatch = p.state {
            files.push((rel("zz.gom"), format!("package {}x\n\nfn zz() -> int32 {{\n    1\n}}\n", q)));
        }
    }
    files
}

pub fn world_sexp(w: &World) -> S {
    tagged(
        "world",
        w.pkgs
            .iter()
            .map(|p| {
                let st = match &p.state {
                    State::Ok => l(vec![a("ok")]),
                    State::Declares(d) => l(vec![a("declares"), a(d.clone())]),
                    State::Missing => l(vec![a("missing")]),
                    State::FileMismatch => l(vec![a("file-mismatch")]),
                };
                let uses: Vec<S> = p
                    .uses
                    .iter()
                    .map(|u| l(vec![a("use"), a(u.file.to_string()), a(u.form.clone()), a(u.target.clone()), a(if u.qual { "q" } else { "u" }), a(u.via.clone())]))
                    .collect();
                let impls: Vec<S> = p
                    .impls
                    .iter()
                    .map(|i| {
                        l(vec![
                            a("impl"),
                            a(i.file.to_string()),
                            a(if i.inherent { "inherent" } else { "trait" }),
                            a(i.tr.clone()),
                            a(i.shape.clone()),
                            a(i.head.clone()),
                            a(i.arg.clone()),
                            a(i.which.clone()),
                        ])
                    })
                    .collect();
                l(vec![
                    a(p.name.clone()),
                    st,
                    tagged("imports", p.imports.iter().map(|d| a(d.clone())).collect()),
                    tagged("items", [uses, impls].concat()),
                ])
            })
            .collect(),
    )
}

/// a world built around one impl whose three roles — implementing package, owner of the trait, owner of the type —
/// are an arrangement of the pool's related pair and a third package (all six arrangements), or of `Main`, a package
/// whose name starts with `Main`, and a third one; the implementing package imports the other two
fn gen_pair_world(pool: &'static [&'static str], rng: &mut Rng) -> World {
    let main_pair = pool.iter().any(|n| n.starts_with("Main")) && rng.chance(1, 2);
    let mut roles: Vec<String> = if main_pair {
        // only the root can be the implementing package here (nobody may import Main)
        let mut rest = vec![pool[1].to_string(), pool[0].to_string()];
        if rng.chance(1, 2) {
            rest.swap(0, 1);
        }
        vec!["Main".to_string(), rest[0].clone(), rest[1].clone()]
    } else {
        let mut r = vec![pool[0].to_string(), pool[1].to_string(), pool[2 + rng.below(pool.len() - 2)].to_string()];
        for i in (1..r.len()).rev() {
            let j = rng.below(i + 1);
            r.swap(i, j);
        }
        r
    };
    // now and then the trait or the type is the implementing package's own (a legitimate impl)
    match rng.below(6) {
        0 => roles[1] = roles[0].clone(),
        1 => roles[2] = roles[0].clone(),
        _ => {}
    }
    let (q, t, h) = (roles[0].clone(), roles[1].clone(), roles[2].clone());
    let mut pkgs: Vec<Pkg> = Vec::new();
    let mut deps: Vec<String> = Vec::new();
    for d in [&t, &h] {
        if *d != q && !deps.contains(d) {
            deps.push(d.clone());
        }
    }
    if q == "Main" {
        pkgs.push(Pkg { name: "Main".into(), state: State::Ok, imports: deps.clone(), uses: vec![], impls: vec![] });
    } else {
        let mut mi = vec![q.clone()];
        for d in &deps {
            if rng.chance(1, 2) {
                mi.push(d.clone());
            }
        }
        pkgs.push(Pkg { name: "Main".into(), state: State::Ok, imports: mi, uses: vec![], impls: vec![] });
        pkgs.push(Pkg { name: q.clone(), state: State::Ok, imports: deps.clone(), uses: vec![], impls: vec![] });
    }
    for d in &deps {
        pkgs.push(Pkg { name: d.clone(), state: State::Ok, imports: vec![], uses: vec![], impls: vec![] });
    }
    let qi = pkgs.iter().position(|p| p.name == q).unwrap();
    let inherent = rng.chance(1, 4);
    let (shape, head, arg) = match rng.below(8) {
        0 | 1 | 2 => ("nom", h.clone(), "-".to_string()),
        3 => ("gen", h.clone(), if rng.chance(1, 2) { "int32".to_string() } else { t.clone() }),
        4 => ("vec", "-".to_string(), h.clone()),
        5 => ("ref", "-".to_string(), h.clone()),
        6 => ("dyn", h.clone(), "-".to_string()),
        _ => ("prim", "-".to_string(), "-".to_string()),
    };
    let shape = if inherent && shape == "prim" { "nom" } else { shape };
    let head = if shape == "nom" && head == "-" { h.clone() } else { head };
    let which = if shape == "nom" && rng.chance(1, 2) { "R" } else { "S" }.to_string();
    pkgs[qi].impls.push(Impl { file: 0, inherent, tr: if inherent { "-".to_string() } else { t.clone() }, shape: shape.to_string(), head, arg, which });
    // a reference across the pair as well
    if rng.chance(1, 2) {
        let form = FORMS[rng.below(FORMS.len())].to_string();
        let target = if rng.chance(1, 2) { t.clone() } else { h.clone() };
        let via = if form == "sself" || form == "flow" { target.clone() } else { "-".to_string() };
        pkgs[qi].uses.push(Use { file: 0, form, target, qual: false, via });
    }
    World { pkgs, shape: "pair" }
}

pub fn gen_world(idx: usize, rng: &mut Rng) -> World {
    let kind = idx % 10;
    // chains need depth >= 2: at least two packages below Main
    let np = if kind == 1 || kind == 2 { 2 + rng.below(3) } else { 1 + rng.below(4) };
    let pool = pool_of(idx);
    if kind == 3 {
        return gen_pair_world(pool, rng);
    }
    let mut names: Vec<&str> = pool.to_vec();
    // keep the related pair (the first two names) together in small worlds of a confusable pool
    if pool == POOL || np < 2 || rng.chance(1, 3) {
        for i in (1..names.len()).rev() {
            let j = rng.below(i + 1);
            names.swap(i, j);
        }
    } else if rng.chance(1, 2) {
        names.swap(0, 1);
    }
    let names: Vec<String> = names[..np].iter().map(|s| s.to_string()).collect();
    let mut pkgs: Vec<Pkg> = Vec::new();
    let shape: &'static str = match kind {
        0 => "diamond",
        1 | 2 => "chain",
        6 => "cycle",
        7 => "missing-package",
        8 => "misdeclared",
        9 => "file-mismatch",
        _ => "dag",
    };
    // Main imports most packages, a package imports later ones
    let mut main_imps: Vec<String> = names.iter().filter(|_| rng.chance(2, 3)).cloned().collect();
    if main_imps.is_empty() {
        main_imps.push(names[0].clone());
    }
    pkgs.push(Pkg { name: "Main".into(), state: State::Ok, imports: main_imps, uses: vec![], impls: vec![] });
    for (i, p) in names.iter().enumerate() {
        let imps: Vec<String> = names[i + 1..].iter().filter(|_| rng.chance(1, 2)).cloned().collect();
        pkgs.push(Pkg { name: p.clone(), state: State::Ok, imports: imps, uses: vec![], impls: vec![] });
    }
    if shape == "chain" {
        // depth >= 2: Main -> n0 -> n1 -> …, now and then with a shortcut
        pkgs[0].imports = vec![names[0].clone()];
        for i in 0..np {
            pkgs[i + 1].imports = if i + 1 < np { vec![names[i + 1].clone()] } else { vec![] };
        }
        if np >= 3 && rng.chance(1, 3) {
            let n2 = names[2].clone();
            pkgs[1].imports.push(n2);
        }
    }
    if shape == "diamond" && np >= 3 {
        pkgs[0].imports = vec![names[0].clone(), names[1].clone()];
        pkgs[1].imports = vec![names[2].clone()];
        pkgs[2].imports = vec![names[2].clone()];
        pkgs[3].imports = vec![];
    }
    match shape {
        "cycle" => {
            // a back edge somewhere among reachable packages (or a self import)
            let k = 1 + rng.below(np);
            let back = if rng.chance(1, 4) { pkgs[k].name.clone() } else { pkgs[1 + rng.below(k)].name.clone() };
            if !pkgs[k].imports.contains(&back) {
                pkgs[k].imports.push(back);
            }
            let first = pkgs[1].name.clone();
            if !pkgs[0].imports.contains(&first) {
                pkgs[0].imports.push(first);
            }
        }
        "missing-package" => {
            let k = rng.below(np + 1);
            pkgs[k].imports.push("Zz".to_string());
        }
        "misdeclared" => {
            let k = 1 + rng.below(np);
            pkgs[k].state = State::Declares(format!("{}x", pkgs[k].name));
        }
        "file-mismatch" => {
            let k = rng.below(np + 1);
            pkgs[k].state = State::FileMismatch;
        }
        _ => {}
    }
    if rng.chance(1, 8) && np >= 2 {
        // a directory that exists but that nobody needs to import is still a package someone may name
        let k = 1 + rng.below(np);
        pkgs[k].state = if rng.chance(1, 2) { State::Missing } else { pkgs[k].state.clone() };
    }
    // placements
    let all: Vec<String> = pkgs.iter().map(|p| p.name.clone()).collect();
    let nplace = if shape == "chain" { 1 + rng.below(3) } else { rng.below(4) };
    for _ in 0..nplace {
        // in a chain the root is where packages are reachable only transitively
        let qi = if shape == "chain" && rng.chance(1, 2) { 0 } else { rng.below(pkgs.len()) };
        let q = pkgs[qi].name.clone();
        if rng.chance(3, 5) {
            let mut form = if rng.chance(2, 5) { PATH_FORMS[rng.below(PATH_FORMS.len())] } else { FORMS[rng.below(FORMS.len())] }.to_string();
            // packages reachable from q only through an import of an import
            let mut trans: Vec<String> = Vec::new();
            {
                let mut todo: Vec<String> = pkgs[qi].imports.clone();
                let mut seen: Vec<String> = Vec::new();
                while let Some(x) = todo.pop() {
                    if seen.contains(&x) {
                        continue;
                    }
                    seen.push(x.clone());
                    if let Some(px) = pkgs.iter().find(|p| p.name == x) {
                        todo.extend(px.imports.iter().cloned());
                    }
                }
                for x in seen {
                    if x != q && !pkgs[qi].imports.contains(&x) && pkgs.iter().any(|p| p.name == x) {
                        trans.push(x);
                    }
                }
                trans.sort();
            }
            // target: the package itself, an import, a transitive-only package, or any package of the world
            let target = match rng.below(8) {
                0 => q.clone(),
                1 | 2 if !pkgs[qi].imports.is_empty() => pkgs[qi].imports[rng.below(pkgs[qi].imports.len())].clone(),
                3 | 4 | 5 | 6 if !trans.is_empty() => trans[rng.below(trans.len())].clone(),
                _ => all[rng.below(all.len())].clone(),
            };
            if target == "Main" && q != "Main" {
                continue;
            }
            // who hands out a value of the target's struct
            let mut via = "-".to_string();
            if form == "sself" || form == "flow" {
                if target == q || pkgs[qi].imports.contains(&target) {
                    via = target.clone();
                } else {
                    let cands: Vec<String> = pkgs[qi]
                        .imports
                        .iter()
                        .filter(|v| **v != q && pkgs.iter().any(|p| &p.name == *v && p.imports.contains(&target)))
                        .cloned()
                        .collect();
                    if cands.is_empty() {
                        form = "smeth".to_string();
                    } else {
                        via = cands[rng.below(cands.len())].clone();
                    }
                }
            }
            let newform = PATH_FORMS.contains(&form.as_str());
            let file = if (form == "fn" || form == "ty") && rng.chance(1, 6) { 1 } else { 0 };
            let qual = q != "Main" && target == q && !newform && rng.chance(1, 2);
            pkgs[qi].uses.push(Use { file, form, target, qual, via });
        } else {
            let pick = |rng: &mut Rng, pkgs: &Vec<Pkg>| -> String {
                match rng.below(5) {
                    0 | 1 => q.clone(),
                    2 if !pkgs[qi].imports.is_empty() => pkgs[qi].imports[rng.below(pkgs[qi].imports.len())].clone(),
                    _ => all[rng.below(all.len())].clone(),
                }
            };
            let inherent = rng.chance(1, 4);
            let tr = if inherent { "-".to_string() } else { pick(rng, &pkgs) };
            // the target type: a named type (as before), a primitive, or a builtin / generic constructor applied to an
            // own, foreign or primitive argument
            let mut shape = if rng.chance(2, 5) { "nom" } else { SHAPES[1 + rng.below(SHAPES.len() - 1)] }.to_string();
            if inherent && shape == "arr" {
                shape = "vec".to_string(); // `impl [T; n] { … }` does not parse
            }
            let has_head = matches!(shape.as_str(), "nom" | "gen" | "dyn");
            let has_arg = matches!(shape.as_str(), "vec" | "ref" | "tup" | "arr" | "fun" | "gen");
            let head = if has_head { pick(rng, &pkgs) } else { "-".to_string() };
            let arg = if !has_arg { "-".to_string() } else if rng.chance(1, 3) { "int32".to_string() } else { pick(rng, &pkgs) };
            if (tr == "Main" || head == "Main" || arg == "Main") && q != "Main" {
                continue;
            }
            let which = if shape == "nom" && rng.chance(1, 2) { "R" } else { "S" }.to_string();
            let im = Impl { file: 0, inherent, tr, shape, head, arg, which };
            // now and then the same impl a second time, in this package or in another one
            if rng.chance(1, 4) {
                let other = rng.below(pkgs.len());
                if !((im.tr == "Main" || im.head == "Main" || im.arg == "Main") && pkgs[other].name != "Main") {
                    pkgs[other].impls.push(im.clone());
                }
            }
            pkgs[qi].impls.push(im);
        }
    }
    World { pkgs, shape }
}

/// classes of the diagnostics of a compile
pub fn classify(msg: &str) -> &'static str {
    if msg.contains("not imported in package") {
        "not-imported"
    } else if msg.contains("violates orphan rule") {
        "orphan"
    } else if msg.contains("Inherent impl for non-local type") {
        "inherent-nonlocal"
    } else if msg.contains("is already defined") {
        "dup-local"
    } else if msg.contains("is defined in multiple packages") {
        "dup-cross"
    } else if msg.contains("Internal error") || msg.contains("ICE") {
        "internal"
    } else {
        "unresolved"
    }
}

/// (outcome sexp, raw diagnostics)
pub fn real_outcome(root: &Path) -> (S, String) {
    let entry = root.join("main.gom");
    let src = std::fs::read_to_string(&entry).unwrap_or_default();
    let r = std::panic::catch_unwind(std::panic::AssertUnwindSafe(|| pipeline::compile(&entry, &src)));
    match r {
        Ok(Ok(_)) => (l(vec![a("accept")]), String::new()),
        Ok(Err(e)) => {
            let stage = util::stage_of(&e);
            let rs = root.to_string_lossy().to_string();
            let raw = e.diagnostics().iter().map(|d| d.message().replace(&rs, "$ROOT")).collect::<Vec<_>>().join(" | ");
            if stage == "compile" || stage == "parser" || stage == "lower" {
                // discovery / dependency-order errors (one diagnostic, stage `compile`)
                let c = classify_graph_err(&e, root);
                return (tagged("reject", vec![tagged("graph", vec![c])]), raw);
            }
            let classes: BTreeSet<&'static str> = e.diagnostics().iter().map(|d| classify(d.message())).collect();
            (tagged("reject", classes.into_iter().map(a).collect()), raw)
        }
        Err(p) => (l(vec![a("panic"), a(util::panic_message(p))]), String::new()),
    }
}

pub fn main(args: &util::Args) {
    util::quiet_panics();
    std::fs::create_dir_all(&args.out).unwrap();
    let quick = args.tier != "thorough";
    let n = args.n.unwrap_or(if quick { 2000 } else { 20000 });
    let base = util::scratch_dir("c16");
    let mut rng = Rng::new(args.seed ^ 0xC16);
    // worlds are generated sequentially (one PRNG), compiled by a pool of workers (each compile still runs on a
    // fresh thread of its own: fresh hash keys); lines are written in world order
    let worlds: Vec<World> = (0..n)
        .map(|i| {
            let mut r = rng.fork(i as u64);
            gen_world(i, &mut r)
        })
        .collect();
    let dump = args.rest.iter().any(|x| x == "--dump");
    let next = std::sync::atomic::AtomicUsize::new(0);
    let lines: std::sync::Mutex<Vec<Option<String>>> = std::sync::Mutex::new(vec![None; n]);
    // the C14 catalogues that vary who imports what go through every entry point as well
    let cat = crate::c16e::catalogue_projects();
    let eps: std::sync::Mutex<Vec<String>> = std::sync::Mutex::new(vec![String::new(); n + cat.len()]);
    let next_cat = std::sync::atomic::AtomicUsize::new(0);
    let workers = std::thread::available_parallelism().map(|x| x.get()).unwrap_or(4).clamp(2, 8);
    std::thread::scope(|sc| {
        for _ in 0..workers {
            sc.spawn(|| loop {
                let i = next.fetch_add(1, std::sync::atomic::Ordering::SeqCst);
                if i >= n {
                    loop {
                        let k = next_cat.fetch_add(1, std::sync::atomic::Ordering::SeqCst);
                        if k >= cat.len() {
                            break;
                        }
                        let root = base.join(format!("cat{}", k));
                        materialize(&root, &cat[k], 0);
                        let row = crate::c16e::ep_row(&cat[k].id, cat[k].kind, "-", &root, &cat[k].files, None);
                        eps.lock().unwrap()[n + k] = row;
                        let _ = std::fs::remove_dir_all(&root);
                    }
                    break;
                }
                let w = &worlds[i];
                let files = sources(w);
                let proj = Project { id: format!("w{}", i), kind: "world", files, tags: vec![] };
                let mut outcomes: Vec<(String, String)> = Vec::new();
                let mut ep = String::new();
                for c in 0..3u64 {
                    let root = base.join(format!("w{}-{}", i, c));
                    materialize(&root, &proj, c * 7919);
                    let r2 = root.clone();
                    let (o, raw) = std::thread::Builder::new()
                        .stack_size(128 << 20)
                        .spawn(move || real_outcome(&r2))
                        .unwrap()
                        .join()
                        .unwrap_or_else(|_| (l(vec![a("thread-panic")]), String::new()));
                    outcomes.push((o.to_text(), raw));
                    if c == 0 {
                        // the other entry points on the very same directory (harness/src/c16e.rs)
                        ep = crate::c16e::ep_row(&proj.id, "world", &world_sexp(w).to_text(), &root, &proj.files, Some(outcomes[0].clone()));
                    }
                    let _ = std::fs::remove_dir_all(&root);
                }
                let same = outcomes.iter().all(|o| o == &outcomes[0]);
                let line = format!(
                    "w{}\tCASE\t{}\t{}\t{}\t{}\t{}\n",
                    i,
                    world_sexp(w).to_text(),
                    outcomes[0].0,
                    w.shape,
                    if same { "same".to_string() } else { esc_line(&outcomes.iter().map(|o| format!("{} «{}»", o.0, o.1)).collect::<Vec<_>>().join(" ;; ")) },
                    esc_line(&outcomes[0].1),
                );
                lines.lock().unwrap()[i] = Some(line);
                eps.lock().unwrap()[i] = ep;
                if dump && i < 40 {
                    let mut s = String::new();
                    for (rel, c) in &proj.files {
                        write!(s, "=== {}\n{}\n", rel, c).unwrap();
                    }
                    std::fs::write(args.out.join(format!("c16.src.w{}.txt", i)), s).unwrap();
                }
            });
        }
    });
    let out: String = lines.into_inner().unwrap().into_iter().map(|l| l.unwrap_or_default()).collect();
    std::fs::write(args.out.join("c16.cases.tsv"), out).unwrap();
    std::fs::write(args.out.join("c16.ep.tsv"), eps.into_inner().unwrap().concat()).unwrap();
    let _ = std::fs::remove_dir_all(&base);
}
