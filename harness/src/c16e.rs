//! C16 / C20 — *the entry points agree*.  `pipeline.rs` builds the dependency environments of a package (the
//! `deps_envs` / `deps_interfaces` loops) in three places: `typecheck_packages` (behind `compile` and
//! `typecheck_with_packages`), its editor twin `typecheck_with_packages_and_results` (behind `query::hover_type`,
//! `dot_completions`, `colon_colon_completions` for every file that has an import), and `separate.rs`
//! (`check_package` / `build_package`, judged by C14).  Import isolation was only ever judged through `compile`.
//!
//! * `entry_points(root, alt)`: the verdict class (accept / graph error / set of diagnostic classes, the
//!   classification of `c16::real_outcome`) of `typecheck_with_packages` and of `typecheck_with_packages_and_results`
//!   (entry `main.gom`, and a second file of package Main when there is one) on a project directory — `gv c16`
//!   prints them beside the verdict of `compile` for every world and for the C14 visibility catalogues
//!   (`c16.ep.tsv`).
//! * `gv c16e`: the editor queries on the same worlds and projects (`c16e.cases.tsv`): hover on the identifiers of
//!   package Main against the type the COMPILE path (`typecheck_with_packages`) assigned; `Pkg::` completions for
//!   every package of the project (imported, reachable only through an import of an import, unrelated, missing) in
//!   expression, type and trait-bound position, and `x.` completions on the let-bound variables, every offered item
//!   inserted and judged by the compile path.
use crate::c13::{classify_graph_err, materialize, Project};
use crate::c16::{self, classify};
use crate::rng::Rng;
use crate::sexp::{a, esc_line, l, tagged, S};
use crate::util;
use compiler::pipeline::pipeline::{self, CompilationError};
use compiler::query;
use diagnostics::{Diagnostics, Severity, Stage};
use std::collections::{BTreeMap, BTreeSet};
use std::fmt::Write as _;
use std::path::{Path, PathBuf};

fn big_stack<T: Send + 'static>(f: impl FnOnce() -> T + Send + 'static) -> Option<T> {
    std::thread::Builder::new().stack_size(128 << 20).spawn(f).ok()?.join().ok()
}

fn raw_of<'a>(it: impl Iterator<Item = &'a diagnostics::Diagnostic>, root: &Path) -> String {
    let rs = root.to_string_lossy().to_string();
    it.map(|d| d.message().replace(&rs, "$ROOT")).collect::<Vec<_>>().join(" | ")
}

fn of_err(e: &CompilationError, root: &Path) -> (S, String) {
    let stage = util::stage_of(e);
    let raw = raw_of(e.diagnostics().iter(), root);
    if stage == "compile" || stage == "parser" || stage == "lower" {
        return (tagged("reject", vec![tagged("graph", vec![classify_graph_err(e, root)])]), raw);
    }
    let classes: BTreeSet<&'static str> = e.diagnostics().iter().map(|d| classify(d.message())).collect();
    (tagged("reject", classes.into_iter().map(a).collect()), raw)
}

/// the verdict of an entry point that hands back its diagnostics instead of failing
fn of_diags(d: &Diagnostics, root: &Path) -> (S, String) {
    if !d.has_errors() {
        return (l(vec![a("accept")]), String::new());
    }
    let raw = raw_of(d.iter(), root);
    // an error of a stage before the typer (the editor twin parses leniently): `compile` stops there
    if d.iter().any(|x| x.severity() == Severity::Error && *x.stage() != Stage::Typer) {
        return (tagged("reject", vec![tagged("graph", vec![l(vec![a("err"), a("parse")])])]), raw);
    }
    let classes: BTreeSet<&'static str> = d.iter().map(|x| classify(x.message())).collect();
    (tagged("reject", classes.into_iter().map(a).collect()), raw)
}

/// `typecheck_with_packages_and_results` — what every editor query of a file with imports runs
pub fn editor_outcome(root: &Path, entry_rel: &str) -> (S, String) {
    let entry = root.join(entry_rel);
    let src = std::fs::read_to_string(&entry).unwrap_or_default();
    match std::panic::catch_unwind(std::panic::AssertUnwindSafe(|| pipeline::typecheck_with_packages_and_results(&entry, &src))) {
        Ok(Ok((_, _, _, d))) => of_diags(&d, root),
        Ok(Err(e)) => of_err(&e, root),
        Err(p) => (l(vec![a("panic"), a(util::panic_message(p))]), String::new()),
    }
}

/// `typecheck_with_packages` — the type-check half of `compile`, public on its own
pub fn twp_outcome(root: &Path, entry_rel: &str) -> (S, String) {
    let entry = root.join(entry_rel);
    let src = std::fs::read_to_string(&entry).unwrap_or_default();
    match std::panic::catch_unwind(std::panic::AssertUnwindSafe(|| pipeline::typecheck_with_packages(&entry, &src))) {
        Ok(Ok((_, _, d))) => of_diags(&d, root),
        Ok(Err(e)) => of_err(&e, root),
        Err(p) => (l(vec![a("panic"), a(util::panic_message(p))]), String::new()),
    }
}

/// the other files of package Main (the root directory), sorted
pub fn main_files(files: &[(String, String)]) -> Vec<String> {
    let mut v: Vec<String> = files.iter().map(|(r, _)| r.clone()).filter(|r| !r.contains('/') && r.ends_with(".gom")).collect();
    v.sort();
    v
}

/// one `EP` row: the verdicts of the entry points on the project materialized at `root`
/// `id EP kind payload compile twp editor editor-alt alt-file raw-compile raw-twp raw-editor raw-editor-alt files`
pub fn ep_row(id: &str, kind: &str, payload: &str, root: &Path, files: &[(String, String)], compile: Option<(String, String)>) -> String {
    let (r0, r1, r2) = (root.to_path_buf(), root.to_path_buf(), root.to_path_buf());
    let dead = || (l(vec![a("thread-panic")]), String::new());
    let comp = compile.unwrap_or_else(|| {
        let r = root.to_path_buf();
        let (o, raw) = big_stack(move || c16::real_outcome(&r)).unwrap_or_else(dead);
        (o.to_text(), raw)
    });
    let twp = big_stack(move || twp_outcome(&r0, "main.gom")).unwrap_or_else(dead);
    let ed = big_stack(move || editor_outcome(&r1, "main.gom")).unwrap_or_else(dead);
    let alt = main_files(files).into_iter().find(|f| f != "main.gom");
    let (eda, altname) = match alt {
        Some(f) => {
            let f2 = f.clone();
            (big_stack(move || editor_outcome(&r2, &f2)).unwrap_or_else(dead), f)
        }
        None => ((a("-"), String::new()), "-".to_string()),
    };
    let all_same = comp.0 == twp.0.to_text() && comp.0 == ed.0.to_text() && (altname == "-" || comp.0 == eda.0.to_text());
    let mut fs = String::new();
    if !all_same {
        for (rel, c) in files {
            write!(fs, "=== {}\n{}\n", rel, c).unwrap();
        }
    }
    format!(
        "{}\tEP\t{}\t{}\t{}\t{}\t{}\t{}\t{}\t{}\t{}\t{}\t{}\t{}\n",
        id,
        kind,
        payload,
        comp.0,
        twp.0.to_text(),
        ed.0.to_text(),
        eda.0.to_text(),
        altname,
        esc_line(&comp.1),
        esc_line(&twp.1),
        esc_line(&ed.1),
        esc_line(&eda.1),
        esc_line(&fs)
    )
}

/// the C14 catalogues that vary who imports what (lookup forms × owner of the type × user × impl placement; use forms ×
/// user × {imported, a sibling file imports, nobody imports})
pub fn catalogue_projects() -> Vec<Project> {
    let mut v = crate::c14::lookup_visibility_projects();
    v.extend(crate::c14::import_rule_projects());
    v
}

/// `gv ep <project-dir> [file]`: the verdict of every entry point on a project on disk (development aid)
pub fn probe(args: &util::Args) {
    util::quiet_panics();
    let root = PathBuf::from(&args.rest[0]);
    let root = std::fs::canonicalize(&root).unwrap_or(root);
    let rel = args.rest.get(1).cloned().unwrap_or_else(|| "main.gom".to_string());
    let (o, raw) = c16::real_outcome(&root);
    println!("compile                               {}  «{}»", o.to_text(), raw);
    let (o, raw) = twp_outcome(&root, &rel);
    println!("typecheck_with_packages               {}  «{}»", o.to_text(), raw);
    let (o, raw) = editor_outcome(&root, &rel);
    println!("typecheck_with_packages_and_results   {}  «{}»", o.to_text(), raw);
}

// ------------------------------------------------------------------------------------------------ editor queries

fn norm_digits(m: &str) -> String {
    let mut o = String::new();
    let mut prev = false;
    for c in m.chars() {
        if c.is_ascii_digit() {
            if !prev {
                o.push('#');
            }
            prev = true;
        } else {
            prev = false;
            o.push(c);
        }
    }
    o
}

/// error messages of the COMPILE path's type check (`typecheck_with_packages`) for the project at `root` with the text of
/// `rel` replaced by `src`; `Err` = the check did not get as far as the typer
fn compile_path_errors(root: &Path, rel: &str, src: &str) -> Result<Vec<String>, String> {
    let entry = root.join(rel);
    match std::panic::catch_unwind(std::panic::AssertUnwindSafe(|| pipeline::typecheck_with_packages(&entry, src))) {
        Ok(Ok((_, _, d))) => Ok(d.iter().filter(|x| x.severity() == Severity::Error).map(|x| norm_digits(x.message())).collect()),
        Ok(Err(e)) => Err(format!("{}: {}", util::stage_of(&e), raw_of(e.diagnostics().iter(), root))),
        Err(p) => Err(format!("panic: {}", util::panic_message(p))),
    }
}

/// messages of `new` that `old` does not have at all.  Sets, not multisets: a constraint one function leaves unsolved
/// is reported again after every later function, so adding a function repeats old messages; and a generic function
/// named as a value (`let v = P::f;`) leaves its own type variables open, which says nothing about `P::f`
fn new_messages(old: &[String], new: &[String]) -> Vec<String> {
    let mut out: Vec<String> = Vec::new();
    for m in new {
        if !old.contains(m) && !out.contains(m) && !m.starts_with("Type variable TypeVar(") {
            out.push(m.clone());
        }
    }
    out
}

fn line_col_of(src: &str, off: usize) -> (u32, u32) {
    let before = &src.as_bytes()[..off];
    let line = before.iter().filter(|b| **b == b'\n').count() as u32;
    let start = before.iter().rposition(|b| *b == b'\n').map(|i| i + 1).unwrap_or(0);
    (line, (off - start) as u32)
}

fn is_word(w: &str) -> bool {
    !w.is_empty() && w.bytes().all(|b| b.is_ascii_alphanumeric() || b == b'_') && !w.as_bytes()[0].is_ascii_digit()
}

fn guarded<T>(f: impl FnOnce() -> T) -> Result<T, String> {
    std::panic::catch_unwind(std::panic::AssertUnwindSafe(f)).map_err(util::panic_message)
}

const PLAIN: &[&str] = &["int32", "bool", "string", "unit", "int64", "()"];

/// every probe of one project; rows `QS` (summary), `QH` (hover), `QC` (one completion request), `QV` (one offered
/// item inserted and judged by the compile path)
fn query_rows(id: &str, kind: &str, payload: &str, root: &Path, files: &[(String, String)], out: &mut String) {
    let pkgs: BTreeSet<String> = files.iter().filter_map(|(r, _)| r.find('/').map(|i| r[..i].to_string())).collect();
    let mains = main_files(files);
    let text_of = |rel: &str| files.iter().find(|(r, _)| r == rel).map(|(_, c)| c.clone()).unwrap_or_default();
    let main_src = text_of("main.gom");
    let comp = twp_outcome(root, "main.gom").0.to_text();
    let edit = editor_outcome(root, "main.gom").0.to_text();
    // a project whose graph is broken: the queries must still return
    let typed = match guarded(|| pipeline::typecheck_with_packages(&root.join("main.gom"), &main_src)) {
        Ok(Ok((t, _, _))) => Some(t),
        _ => None,
    };
    let mut n_h = 0;
    let mut n_c = 0;
    let mut n_v = 0;
    let dump_files = |out: &mut String| {
        let mut fs = String::new();
        for (rel, c) in files {
            write!(fs, "=== {}\n{}\n", rel, c).unwrap();
        }
        esc_line(&fs).clone_into(out);
    };
    let mut files_txt = String::new();
    dump_files(&mut files_txt);
    if typed.is_none() {
        let r = guarded(|| query::hover_type(&root.join("main.gom"), &main_src, 0, 0));
        let got = match r {
            Ok(Ok(s)) => format!("ok:{}", s),
            Ok(Err(_)) => "err".to_string(),
            Err(p) => format!("panic:{}", p),
        };
        writeln!(out, "{}\tQS\t{}\t{}\t{}\t{}\tuntyped\t{}\t0\t0\t0", id, kind, payload, comp, edit, esc_line(&got)).unwrap();
        return;
    }
    let typed = typed.unwrap();
    // ---- identifiers of package Main the compile path typed, attributed to the one file whose text has that word there
    let mut nodes: BTreeMap<(String, usize, usize), (&'static str, String, String)> = BTreeMap::new();
    for (s, e, nk, ty, name) in crate::c20::collect_tast(&typed) {
        let (s, e) = (s as usize, e as usize);
        let mut homes: Vec<&String> = Vec::new();
        let mut word = String::new();
        for f in &mains {
            let t = text_of(f);
            if e <= t.len() && t.is_char_boundary(s) && t.is_char_boundary(e) {
                let w = t[s..e].trim_end();
                if is_word(w) && (name == w || name.starts_with(&format!("{}/", w)) || name.ends_with(&format!("::{}", w))) {
                    homes.push(f);
                    word = w.to_string();
                }
            }
        }
        if homes.len() == 1 {
            nodes.entry((homes[0].clone(), s, s + word.len())).or_insert((nk, ty, word));
        }
    }
    for f in &mains {
        let src = text_of(f);
        let path = root.join(f);
        let base_errs = match compile_path_errors(root, f, &src) {
            Ok(m) => m,
            Err(_) => continue,
        };
        // ---- hover: compound / nominal types first, then a few of the plain ones
        let mut mine: Vec<(usize, usize, &'static str, String, String)> =
            nodes.iter().filter(|(k, _)| &k.0 == f).map(|(k, v)| (k.1, k.2, v.0, v.1.clone(), v.2.clone())).collect();
        mine.sort_by_key(|n| (PLAIN.contains(&n.3.as_str()), n.0));
        let mut plain_left = 4;
        let mut binders: Vec<(usize, String, String)> = Vec::new();
        for (s, _e, nk, ty, word) in mine.iter().take(40) {
            let plain = PLAIN.contains(&ty.as_str());
            if plain {
                if plain_left == 0 {
                    continue;
                }
                plain_left -= 1;
            }
            if n_h >= 14 {
                break;
            }
            let (ln, col) = line_col_of(&src, *s);
            let got = match guarded(|| query::hover_type(&path, &src, ln, col)) {
                Ok(Ok(t)) => format!("ok:{}", t),
                Ok(Err(e)) => format!("err:{}", e),
                Err(p) => format!("panic:{}", p),
            };
            n_h += 1;
            let agrees = got == format!("ok:{}", ty);
            writeln!(
                out,
                "{}\tQH\t{}\t{}\t{}\t{}\t{}\t{}\t{}\t{}\t{}\t{}\t{}\t{}",
                id,
                kind,
                f,
                s,
                ln,
                col,
                nk,
                word,
                esc_line(ty),
                esc_line(&got),
                comp,
                edit,
                if agrees { "" } else { files_txt.as_str() }
            )
            .unwrap();
            if *nk == "binder" && !plain && binders.len() < 3 && !binders.iter().any(|b| b.1 == *word) {
                binders.push((*s, word.clone(), ty.clone()));
            }
        }
        // ---- `Pkg::` completions: every package directory of the project, the package itself and a name nobody has
        let imports: BTreeSet<String> = src.lines().filter_map(|x| x.strip_prefix("import ")).map(|x| x.trim().to_string()).collect();
        let pkg_imports: BTreeSet<String> =
            mains.iter().flat_map(|m| text_of(m).lines().filter_map(|x| x.strip_prefix("import ").map(|x| x.trim().to_string())).collect::<Vec<_>>()).collect();
        let mut cands: Vec<String> = pkgs.iter().cloned().collect();
        cands.push("Zq9".to_string());
        for p in &cands {
            let rel = if imports.contains(p) {
                "imported-by-file"
            } else if pkg_imports.contains(p) {
                "imported-by-sibling-file"
            } else {
                "not-imported"
            };
            // (position, text before the cursor, text after it, how an item of a kind is completed)
            let positions: [(&str, String, &str); 3] = [
                ("expression", format!("\nfn zzq0() -> int32 {{\n    let zzv = {}::", p), ";\n    1\n}\n"),
                ("type", format!("\nfn zzq1(zzx: {}::", p), ") -> int32 {\n    1\n}\n"),
                ("bound", format!("\nfn zzq2[ZT: {}::", p), "](zzx: ZT) -> int32 {\n    1\n}\n"),
            ];
            for (pos, before, after) in positions.iter() {
                let head = format!("{}{}", src, before);
                let text = format!("{}{}", head, after);
                let (ln, col) = line_col_of(&head, head.len());
                let items = match guarded(|| query::colon_colon_completions(&path, &text, ln, col)) {
                    Ok(Some(v)) => v,
                    Ok(None) => Vec::new(),
                    Err(pm) => {
                        writeln!(out, "{}\tQC\t{}\t{}\tcolon\t{}\t{}\t{}\tpanic:{}\t{}\t{}\t{}", id, kind, f, pos, p, rel, esc_line(&pm), comp, edit, esc_line(&text)).unwrap();
                        continue;
                    }
                };
                n_c += 1;
                let listing: Vec<String> = items.iter().map(|i| format!("{}:{:?}", i.name, i.kind)).collect();
                writeln!(out, "{}\tQC\t{}\t{}\tcolon\t{}\t{}\t{}\t{}\t{}\t{}\t", id, kind, f, pos, p, rel, listing.join(" "), comp, edit).unwrap();
                let mut per_kind: BTreeMap<String, usize> = BTreeMap::new();
                for it in &items {
                    let k = format!("{:?}", it.kind);
                    // in an expression only a value stands on its own (`let v = P::f;`); types and traits are judged in
                    // their own positions
                    if *pos == "expression" && k != "Value" {
                        continue;
                    }
                    let c = per_kind.entry(k.clone()).or_default();
                    *c += 1;
                    if *c > 3 {
                        continue;
                    }
                    let mut verdict = String::new();
                    let mut shown = String::new();
                    // a generic type is completed by its name; the user then writes the arguments
                    for suffix in ["", "[int32]"] {
                        let t2 = format!("{}{}{}{}", head, it.name, suffix, after);
                        shown = t2.clone();
                        verdict = match compile_path_errors(root, f, &t2) {
                            Ok(m) => {
                                let newm = new_messages(&base_errs, &m);
                                if newm.is_empty() { "ok".to_string() } else { format!("bad:{}", newm.join(" | ")) }
                            }
                            Err(e) => format!("bad:{}", e),
                        };
                        if verdict == "ok" || k != "Type" {
                            break;
                        }
                    }
                    n_v += 1;
                    writeln!(
                        out,
                        "{}\tQV\t{}\t{}\tcolon\t{}\t{}\t{}\t{}\t{}\t{}\t{}\t{}\t{}",
                        id,
                        kind,
                        f,
                        pos,
                        p,
                        rel,
                        it.name,
                        k,
                        esc_line(&verdict),
                        comp,
                        edit,
                        if verdict == "ok" { String::new() } else { format!("{}{}", esc_line(&format!("=== {} (as typed in the editor)\n{}\n", f, shown)), files_txt) }
                    )
                    .unwrap();
                }
            }
        }
        // ---- `x.` completions on let-bound variables of a nominal type
        for (s, word, ty) in &binders {
            // who declares the type of the variable, seen from this file
            let owner_rel = match ty.find("::") {
                None => "own-package",
                Some(i) if imports.contains(&ty[..i]) => "imported-by-file",
                Some(i) if pkg_imports.contains(&ty[..i]) => "imported-by-sibling-file",
                Some(_) => "not-imported",
            };
            // the end of the `let` statement the binder belongs to
            let Some(semi) = src[*s..].find(";\n").map(|i| *s + i + 1) else { continue };
            let indent = "\n    ";
            let with = |tail: &str| format!("{}{}let zzd = {}{};{}", &src[..semi], indent, word, tail, &src[semi..]);
            // calibration: the statement itself is fine where it was put
            match compile_path_errors(root, f, &with("")) {
                Ok(m) if new_messages(&base_errs, &m).is_empty() => {}
                _ => continue,
            }
            let head = format!("{}{}let zzd = {}.", &src[..semi], indent, word);
            let text = format!("{};{}", head, &src[semi..]);
            let (ln, col) = line_col_of(&head, head.len());
            let items = match guarded(|| query::dot_completions(&path, &text, ln, col)) {
                Ok(Some(v)) => v,
                Ok(None) => Vec::new(),
                Err(pm) => {
                    writeln!(out, "{}\tQC\t{}\t{}\tdot\t{}\t{}\t{}\tpanic:{}\t{}\t{}\t{}", id, kind, f, word, esc_line(ty), owner_rel, esc_line(&pm), comp, edit, esc_line(&text)).unwrap();
                    continue;
                }
            };
            n_c += 1;
            let listing: Vec<String> = items.iter().map(|i| format!("{}:{:?}", i.name, i.kind)).collect();
            writeln!(out, "{}\tQC\t{}\t{}\tdot\t{}\t{}\t{}\t{}\t{}\t{}\t", id, kind, f, word, esc_line(ty), owner_rel, listing.join(" "), comp, edit).unwrap();
            // what "there is no such member" looks like here, per item kind (the name blanked): a member that exists
            // but is used with the wrong arguments (`s.mk()` for a method without `self`) is a different complaint
            let blank = |ms: Vec<String>, name: &str| -> Vec<String> { ms.into_iter().map(|m| m.replace(name, "<N>")).collect() };
            let bogus_field = compile_path_errors(root, f, &with(".zzqbogus")).map(|m| blank(new_messages(&base_errs, &m), "zzqbogus")).unwrap_or_default();
            let bogus_method = compile_path_errors(root, f, &with(".zzqbogus()")).map(|m| blank(new_messages(&base_errs, &m), "zzqbogus")).unwrap_or_default();
            for it in items.iter().take(4) {
                let k = format!("{:?}", it.kind);
                let t2 = with(&format!(".{}{}", it.name, if k == "Method" { "()" } else { "" }));
                let verdict = match compile_path_errors(root, f, &t2) {
                    Ok(m) => {
                        let newm = new_messages(&base_errs, &m);
                        if newm.is_empty() {
                            "ok".to_string()
                        } else if newm.iter().all(|x| x.contains("not found for type ExprId {")) {
                            // a method call on a variable whose type is inferred from a call is looked up before the
                            // type is known (with an annotation on the `let` it resolves): the inference-order limitation
                            // C20 already records, whatever the imports are
                            format!("skip:receiver-not-yet-inferred:{}", newm.join(" | "))
                        } else if !blank(newm.clone(), &it.name).iter().any(|x| if k == "Method" { bogus_method.contains(x) } else { bogus_field.contains(x) }) {
                            format!("skip:exists-but-misused:{}", newm.join(" | "))
                        } else {
                            format!("bad:{}", newm.join(" | "))
                        }
                    }
                    Err(e) => format!("bad:{}", e),
                };
                n_v += 1;
                writeln!(
                    out,
                    "{}\tQV\t{}\t{}\tdot\t{}\t{}\t{}\t{}\t{}\t{}\t{}\t{}\t{}",
                    id,
                    kind,
                    f,
                    word,
                    esc_line(ty),
                    owner_rel,
                    it.name,
                    k,
                    esc_line(&verdict),
                    comp,
                    edit,
                    if !verdict.starts_with("bad") { String::new() } else { format!("{}{}", esc_line(&format!("=== {} (as typed in the editor)\n{}\n", f, t2)), files_txt) }
                )
                .unwrap();
            }
        }
    }
    writeln!(out, "{}\tQS\t{}\t{}\t{}\t{}\ttyped\t-\t{}\t{}\t{}", id, kind, payload, comp, edit, n_h, n_c, n_v).unwrap();
}

/// `gv c16e`: the editor queries on the C16 worlds and the C14 visibility catalogues
pub fn main(args: &util::Args) {
    util::quiet_panics();
    std::fs::create_dir_all(&args.out).unwrap();
    let quick = args.tier != "thorough";
    let n = args.n.unwrap_or(if quick { 300 } else { 3000 });
    let base = util::scratch_dir("c16e");
    let mut rng = Rng::new(args.seed ^ 0xC16);
    // the SAME worlds as `gv c16` (same seed, same fork per index)
    let mut jobs: Vec<(String, &'static str, String, Vec<(String, String)>)> = Vec::new();
    for i in 0..n {
        let mut r = rng.fork(i as u64);
        let w = c16::gen_world(i, &mut r);
        jobs.push((format!("w{}", i), "world", c16::world_sexp(&w).to_text(), c16::sources(&w)));
    }
    let cat = catalogue_projects();
    let step = if quick { 3 } else { 1 };
    for (k, p) in cat.into_iter().enumerate() {
        // the user package must be Main for its files to be open in the editor; of the others every `step`-th
        let user_main = p.tags.iter().any(|t| t == "user=Main") || p.id.contains("-Main-");
        if user_main || k % step == 0 {
            jobs.push((p.id.clone(), "catalogue", "-".to_string(), p.files.clone()));
        }
    }
    let only = args.rest.iter().position(|x| x == "--only").and_then(|i| args.rest.get(i + 1)).cloned();
    if let Some(o) = &only {
        jobs.retain(|j| &j.0 == o);
    }
    let next = std::sync::atomic::AtomicUsize::new(0);
    let lines: std::sync::Mutex<Vec<String>> = std::sync::Mutex::new(vec![String::new(); jobs.len()]);
    let workers = std::thread::available_parallelism().map(|x| x.get()).unwrap_or(4).clamp(2, 8);
    std::thread::scope(|sc| {
        for _ in 0..workers {
            sc.spawn(|| loop {
                let i = next.fetch_add(1, std::sync::atomic::Ordering::SeqCst);
                if i >= jobs.len() {
                    break;
                }
                let (id, kind, payload, files) = jobs[i].clone();
                let root: PathBuf = base.join(format!("q{}", i));
                let proj = Project { id: id.clone(), kind: "world", files: files.clone(), tags: vec![] };
                materialize(&root, &proj, 0);
                let r2 = root.clone();
                let piece = big_stack(move || {
                    let mut o = String::new();
                    query_rows(&id, kind, &payload, &r2, &files, &mut o);
                    o
                })
                .unwrap_or_else(|| format!("{}\tQS\t{}\t{}\t-\t-\tthread-panic\t-\t0\t0\t0\n", jobs[i].0, jobs[i].1, jobs[i].2));
                lines.lock().unwrap()[i] = piece;
                let _ = std::fs::remove_dir_all(&root);
            });
        }
    });
    let out: String = lines.into_inner().unwrap().concat();
    std::fs::write(args.out.join("c16e.cases.tsv"), out).unwrap();
    let _ = std::fs::remove_dir_all(&base);
}
