//! C17 — all call forms of a method agree.  One generated program per (receiver type, trait name,
//! method name): the method is called statically, through a `T: Tr` bound, through `dyn Tr`, and
//! (for local nominal types) an inherent method is called as `x.im(..)` and `T::im(x, ..)`.
//! The program is compiled by the real pipeline; the callee names are read off the REAL Core, Mono,
//! Lift dumps and the REAL goast (via `goscope`), one list per enclosing function.
//! Negative programs (dyn without impl, ambiguous / duplicate methods) must be rejected.
use crate::c19::{relied, ty_sexp};
use crate::goscope;
use crate::sexp::{S, a, esc_line, l, tagged};
use crate::util::{self, Outcome};
use compiler::tast;
use std::fmt::Write as _;

struct Recv {
    label: &'static str,
    ty_text: &'static str,
    value: &'static str,
    ty: tast::Ty,
    /// name usable in `Name::im(x, ..)` when an inherent impl is allowed
    nominal: Option<&'static str>,
    stream: &'static str,
}

impl Recv {
    /// a receiver that already is a trait object cannot be coerced to another `dyn`
    fn dyn_ok(&self) -> bool {
        !matches!(self.ty, tast::Ty::TDyn { .. })
    }
}

fn receivers() -> Vec<Recv> {
    use tast::Ty::*;
    let st = |n: &str| TStruct { name: n.to_string() };
    let en = |n: &str| TEnum { name: n.to_string() };
    vec![
        Recv { label: "int32", ty_text: "int32", value: "7", ty: TInt32, nominal: None, stream: "main" },
        Recv { label: "string", ty_text: "string", value: "\"s\"", ty: TString, nominal: None, stream: "main" },
        Recv { label: "bool", ty_text: "bool", value: "true", ty: TBool, nominal: None, stream: "main" },
        Recv { label: "unit", ty_text: "unit", value: "()", ty: TUnit, nominal: None, stream: "main" },
        Recv { label: "float64", ty_text: "float64", value: "1.5", ty: TFloat64, nominal: None, stream: "main" },
        Recv { label: "int8", ty_text: "int8", value: "7i8", ty: TInt8, nominal: None, stream: "main" },
        Recv { label: "int64", ty_text: "int64", value: "7i64", ty: TInt64, nominal: None, stream: "main" },
        Recv { label: "uint8", ty_text: "uint8", value: "7u8", ty: TUint8, nominal: None, stream: "main" },
        Recv { label: "uint64", ty_text: "uint64", value: "7u64", ty: TUint64, nominal: None, stream: "main" },
        Recv { label: "float32", ty_text: "float32", value: "1.5f32", ty: TFloat32, nominal: None, stream: "main" },
        Recv { label: "struct_lowercase", ty_text: "pq", value: "pq { a: 1 }", ty: st("pq"), nominal: Some("pq"), stream: "main" },
        Recv { label: "enum_underscore", ty_text: "E_e", value: "E_e::Cc", ty: en("E_e"), nominal: Some("E_e"), stream: "main" },
        Recv {
            label: "array_of_struct",
            ty_text: "[Pq; 1]",
            value: "[Pq { a: 1 }]",
            ty: TArray { len: 1, elem: Box::new(st("Pq")) },
            nominal: None,
            stream: "main",
        },
        Recv {
            label: "tuple_of_ref_vec",
            ty_text: "(Ref[int32], Vec[string])",
            value: "(ref(1), vec_push(vec_new(), \"s\"))",
            ty: TTuple { typs: vec![TRef { elem: Box::new(TInt32) }, TVec { elem: Box::new(TString) }] },
            nominal: None,
            stream: "main",
        },
        Recv {
            label: "vec_of_tuple",
            ty_text: "Vec[(int32, bool)]",
            value: "vec_push(vec_new(), (1, true))",
            ty: TVec { elem: Box::new(TTuple { typs: vec![TInt32, TBool] }) },
            nominal: None,
            stream: "main",
        },
        Recv { label: "struct", ty_text: "Pq", value: "Pq { a: 1 }", ty: st("Pq"), nominal: Some("Pq"), stream: "main" },
        Recv { label: "struct_underscore", ty_text: "A_b", value: "A_b { a: 1 }", ty: st("A_b"), nominal: Some("A_b"), stream: "main" },
        Recv { label: "enum", ty_text: "Ee", value: "Ee::Bb(3)", ty: en("Ee"), nominal: Some("Ee"), stream: "main" },
        Recv {
            label: "tuple",
            ty_text: "(int32, string)",
            value: "(1, \"s\")",
            ty: TTuple { typs: vec![TInt32, TString] },
            nominal: None,
            stream: "main",
        },
        Recv {
            label: "nested_tuple",
            ty_text: "((int32, Pq), bool)",
            value: "((1, Pq { a: 2 }), true)",
            ty: TTuple { typs: vec![TTuple { typs: vec![TInt32, st("Pq")] }, TBool] },
            nominal: None,
            stream: "main",
        },
        Recv { label: "ref", ty_text: "Ref[int32]", value: "ref(1)", ty: TRef { elem: Box::new(TInt32) }, nominal: None, stream: "main" },
        Recv {
            label: "ref_struct",
            ty_text: "Ref[Pq]",
            value: "ref(Pq { a: 1 })",
            ty: TRef { elem: Box::new(st("Pq")) },
            nominal: None,
            stream: "main",
        },
        Recv {
            label: "array",
            ty_text: "[int32; 2]",
            value: "[1, 2]",
            ty: TArray { len: 2, elem: Box::new(TInt32) },
            nominal: None,
            stream: "main",
        },
        Recv {
            label: "vec",
            ty_text: "Vec[int32]",
            value: "vec_push(vec_new(), 1)",
            ty: TVec { elem: Box::new(TInt32) },
            nominal: None,
            stream: "main",
        },
        // a trait implemented FOR a trait-object type: `impl Tr for dyn Base`, receiver `x: dyn Base`
        // (Base has its own methods `m`/`other`/… of the same names: a by-name vtable lookup would find them)
        Recv {
            label: "dyn_of_other_trait",
            ty_text: "dyn Base",
            value: "Pq { a: 1 }",
            ty: TDyn { trait_name: "Base".to_string() },
            nominal: None,
            stream: "main",
        },
        // receivers that are instances of generic types: separate stream (known finding lives here)
        Recv {
            label: "generic_enum_instance",
            ty_text: "Opt[int32]",
            value: "Opt::Yes(5)",
            ty: TApp { ty: Box::new(en("Opt")), args: vec![TInt32] },
            nominal: None,
            stream: "generic-instance",
        },
        Recv {
            label: "generic_struct_instance",
            ty_text: "Pair[int32, string]",
            value: "Pair { l: 1, r: \"s\" }",
            ty: TApp { ty: Box::new(st("Pair")), args: vec![TInt32, TString] },
            nominal: None,
            stream: "generic-instance",
        },
    ]
}

const NAMES: [(&str, &str); 7] =
    [("Tr", "m"), ("Show", "show"), ("A_B", "c_d"), ("Tr", "main"), ("range", "chan"), ("Tr", "apply"), ("T_r_", "m__1")];

fn program(r: &Recv, tr: &str, m: &str) -> String {
    let (oty, oval) = if r.label == "int32" { ("string", "\"o\"") } else { ("int32", "9") };
    let mut s = String::new();
    s.push_str("struct Pq { a: int32 }\nstruct pq { a: int32 }\nstruct A_b { a: int32 }\nenum Ee { Aa, Bb(int32) }\nenum E_e { Cc, Dd }\nenum Opt[T] { Yes(T), Non }\nstruct Pair[L, R] { l: L, r: R }\n");
    let _ = writeln!(s, "trait {} {{ fn {}(Self, int32) -> int32; fn other(Self) -> string; }}", tr, m);
    // `Base` declares methods of the same names and signatures and is implemented for Pq
    let _ = writeln!(s, "trait Base {{ fn {}(Self, int32) -> int32; fn other(Self) -> string; }}", m);
    let _ = writeln!(
        s,
        "impl Base for Pq {{ fn {m}(self: Pq, k: int32) -> int32 {{ k + 100 }} fn other(self: Pq) -> string {{ \"base\" }} }}",
        m = m
    );
    let _ = writeln!(
        s,
        "impl {tr} for {t} {{ fn {m}(self: {t}, k: int32) -> int32 {{ k + 1 }} fn other(self: {t}) -> string {{ \"x\" }} }}",
        tr = tr,
        m = m,
        t = r.ty_text
    );
    let _ = writeln!(
        s,
        "impl {tr} for {t} {{ fn {m}(self: {t}, k: int32) -> int32 {{ k + 2 }} fn other(self: {t}) -> string {{ \"y\" }} }}",
        tr = tr,
        m = m,
        t = oty
    );
    if r.nominal.is_some() {
        let _ = writeln!(s, "impl {t} {{ fn im(self: {t}, k: int32) -> int32 {{ k + 3 }} }}", t = r.ty_text);
    }
    let _ = writeln!(s, "fn via[T: {tr}](x: T, k: int32) -> int32 {{ {tr}::{m}(x, k) }}", tr = tr, m = m);
    let _ = writeln!(s, "fn f_static(x: {t}) -> int32 {{ {tr}::{m}(x, 1) }}", t = r.ty_text, tr = tr, m = m);
    let _ = writeln!(s, "fn f_bound(x: {t}) -> int32 {{ via(x, 1) }}", t = r.ty_text);
    if r.dyn_ok() {
        let _ = writeln!(s, "fn f_dyn(x: {t}) -> int32 {{ let d: dyn {tr} = x; {tr}::{m}(d, 1) }}", t = r.ty_text, tr = tr, m = m);
    }
    let _ = writeln!(s, "fn f_other(y: {t}) -> int32 {{ {tr}::{m}(y, 1) + via(y, 1) }}", t = oty, tr = tr, m = m);
    let mut sum = String::from(if r.dyn_ok() { "f_static(x) + f_bound(x) + f_dyn(x) + f_other(o)" } else { "f_static(x) + f_bound(x) + f_other(o)" });
    if let Some(n) = r.nominal {
        let _ = writeln!(s, "fn f_dot(x: {t}) -> int32 {{ x.im(1) }}", t = r.ty_text);
        let _ = writeln!(s, "fn f_path(x: {t}) -> int32 {{ {n}::im(x, 1) }}", t = r.ty_text, n = n);
        sum.push_str(" + f_dot(x) + f_path(x)");
    }
    let _ = writeln!(
        s,
        "fn main() -> unit {{ let x: {t} = {v}; let o: {ot} = {ov}; string_println(int32_to_string({sum})) }}",
        t = r.ty_text,
        v = r.value,
        ot = oty,
        ov = oval,
        sum = sum
    );
    s
}

/// names of `EVar { name: ".." }` nodes (and trait calls) in the Debug rendering of a function body
fn names_in_debug(dbg: &str) -> Vec<String> {
    let mut out = Vec::new();
    for pat in ["EVar { name: \"", "ETraitCall { trait_name: TastIdent(\""] {
        let mut rest = dbg;
        while let Some(i) = rest.find(pat) {
            let tail = &rest[i + pat.len()..];
            let mut name = String::new();
            let mut chars = tail.chars();
            while let Some(c) = chars.next() {
                if c == '\\' {
                    if let Some(n) = chars.next() {
                        name.push(n);
                    }
                } else if c == '"' {
                    break;
                } else {
                    name.push(c);
                }
            }
            let interesting = name.starts_with("trait_impl#") || name.starts_with("inherent#") || name.starts_with("via") || pat.starts_with("ETraitCall");
            if interesting {
                out.push(if pat.starts_with("ETraitCall") { format!("<traitcall {}>", name) } else { name });
            }
            rest = tail;
        }
    }
    out
}

fn per_fn(items: Vec<(String, String)>) -> S {
    l(items
        .into_iter()
        .filter(|(n, _)| n.starts_with("f_") || n.starts_with("via") || n == "main")
        .map(|(n, dbg)| {
            let mut v = vec![a(&n)];
            v.extend(names_in_debug(&dbg).iter().map(a));
            l(v)
        })
        .collect())
}

const NEGATIVES: &[(&str, &str, &str)] = &[
    ("dyn-without-impl", "does not implement trait", r#"struct Pq { a: int32 }
trait Tr { fn m(Self) -> int32; }
fn main() -> unit { let d: dyn Tr = Pq { a: 1 }; string_println(int32_to_string(Tr::m(d))) }
"#),
    ("dyn-impl-for-other-type", "does not implement trait", r#"struct Pq { a: int32 }
struct Rs { a: int32 }
trait Tr { fn m(Self) -> int32; }
impl Tr for Rs { fn m(self: Rs) -> int32 { 1 } }
fn main() -> unit { let d: dyn Tr = Pq { a: 1 }; string_println(int32_to_string(Tr::m(d))) }
"#),
    ("dyn-impl-of-other-trait", "does not implement trait", r#"struct Pq { a: int32 }
trait Tr { fn m(Self) -> int32; }
trait Other { fn m(Self) -> int32; }
impl Other for Pq { fn m(self: Pq) -> int32 { 1 } }
fn main() -> unit { let d: dyn Tr = Pq { a: 1 }; string_println(int32_to_string(Tr::m(d))) }
"#),
    ("dyn-primitive-without-impl", "does not implement trait", r#"trait Tr { fn m(Self) -> int32; }
impl Tr for string { fn m(self: string) -> int32 { 1 } }
fn main() -> unit { let d: dyn Tr = 5; string_println(int32_to_string(Tr::m(d))) }
"#),
    ("dyn-generic-instance-other-arg", "does not implement trait", r#"enum Opt[T] { Yes(T), Non }
trait Tr { fn m(Self) -> int32; }
impl Tr for Opt[string] { fn m(self: Opt[string]) -> int32 { 1 } }
fn main() -> unit { let o: Opt[int32] = Opt::Yes(1); let d: dyn Tr = o; string_println(int32_to_string(Tr::m(d))) }
"#),
    ("ufcs-other-trait-on-dyn-same-signature", "No instance found", r#"struct Dog { age: int32 }
trait Loud { fn name(Self) -> string; }
trait Quiet { fn name(Self) -> string; }
impl Loud for Dog { fn name(self: Dog) -> string { "LOUD" } }
impl Quiet for Dog { fn name(self: Dog) -> string { "quiet" } }
fn main() -> unit { let d: dyn Loud = Dog { age: 1 }; string_println(Quiet::name(d)) }
"#),
    ("ufcs-other-trait-on-dyn-different-signature", "No instance found", r#"struct Dog { age: int32 }
trait Loud { fn name(Self, int32) -> string; }
trait Quiet { fn name(Self) -> string; }
impl Loud for Dog { fn name(self: Dog, k: int32) -> string { "LOUD" } }
impl Quiet for Dog { fn name(self: Dog) -> string { "quiet" } }
fn main() -> unit { let d: dyn Loud = Dog { age: 1 }; string_println(Quiet::name(d)) }
"#),
    ("ufcs-other-trait-on-dyn-effect-statement", "No instance found", r#"struct Dog { age: int32 }
trait Loud { fn poke(Self) -> unit; }
trait Quiet { fn poke(Self) -> unit; }
impl Loud for Dog { fn poke(self: Dog) -> unit { string_println("LOUD") } }
impl Quiet for Dog { fn poke(self: Dog) -> unit { string_println("quiet") } }
fn main() -> unit { let d: dyn Loud = Dog { age: 1 }; let i = ref(0); while ref_get(i) < 2 { ref_set(i, ref_get(i) + 1); Quiet::poke(d) } }
"#),
    ("ufcs-other-trait-on-dyn-no-such-method-in-vtable", "No instance found", r#"struct Dog { age: int32 }
trait Loud { fn bark(Self) -> string; }
trait Quiet { fn name(Self) -> string; }
impl Loud for Dog { fn bark(self: Dog) -> string { "LOUD" } }
impl Quiet for Dog { fn name(self: Dog) -> string { "quiet" } }
fn main() -> unit { let d: dyn Loud = Dog { age: 1 }; string_println(Quiet::name(d)) }
"#),
    ("dyn-of-dyn-without-impl", "", r#"struct Dog { age: int32 }
trait Loud { fn name(Self) -> string; }
trait Quiet { fn name(Self) -> string; }
impl Loud for Dog { fn name(self: Dog) -> string { "LOUD" } }
impl Quiet for Dog { fn name(self: Dog) -> string { "quiet" } }
fn main() -> unit { let d: dyn Loud = Dog { age: 1 }; let q: dyn Quiet = d; string_println(Quiet::name(q)) }
"#),
    ("dot-call-of-trait-method-on-dyn-two-traits", "", r#"struct Dog { age: int32 }
trait Loud { fn name(Self) -> string; }
trait Quiet { fn name(Self) -> string; }
impl Loud for Dog { fn name(self: Dog) -> string { "LOUD" } }
impl Quiet for dyn Loud { fn name(self: dyn Loud) -> string { "hushed" } }
fn main() -> unit { let d: dyn Loud = Dog { age: 1 }; string_println(d.name()) }
"#),
    ("dyn-from-type-parameter", "non-concrete", r#"trait Tr { fn m(Self) -> int32; }
impl Tr for int32 { fn m(self: int32) -> int32 { 1 } }
fn g[T: Tr](x: T) -> int32 { let d: dyn Tr = x; Tr::m(d) }
fn main() -> unit { string_println(int32_to_string(g(1))) }
"#),
    ("dyn-unknown-trait", "", r#"fn main() -> unit { let d: dyn Nope = 5; () }
"#),
    ("static-without-impl", "No instance found", r#"struct Pq { a: int32 }
trait Tr { fn m(Self) -> int32; }
fn main() -> unit { string_println(int32_to_string(Tr::m(Pq { a: 1 }))) }
"#),
    ("bound-without-impl", "", r#"struct Pq { a: int32 }
trait Tr { fn m(Self) -> int32; }
fn via[T: Tr](x: T) -> int32 { Tr::m(x) }
fn main() -> unit { string_println(int32_to_string(via(Pq { a: 1 }))) }
"#),
    ("dot-call-two-traits", "", r#"trait Aa { fn m(Self) -> int32; }
trait Bb { fn m(Self) -> int32; }
impl Aa for int32 { fn m(self: int32) -> int32 { 1 } }
impl Bb for int32 { fn m(self: int32) -> int32 { 2 } }
fn main() -> unit { let x = 5; string_println(int32_to_string(x.m())) }
"#),
    ("duplicate-trait-impl", "already defined", r#"struct Pq { a: int32 }
trait Tr { fn m(Self) -> int32; }
impl Tr for Pq { fn m(self: Pq) -> int32 { 1 } }
impl Tr for Pq { fn m(self: Pq) -> int32 { 2 } }
fn main() -> unit { string_println(int32_to_string(Tr::m(Pq { a: 1 }))) }
"#),
    ("duplicate-method-in-trait-impl", "multiple times", r#"struct Pq { a: int32 }
trait Tr { fn m(Self) -> int32; }
impl Tr for Pq { fn m(self: Pq) -> int32 { 1 } fn m(self: Pq) -> int32 { 2 } }
fn main() -> unit { string_println(int32_to_string(Tr::m(Pq { a: 1 }))) }
"#),
    ("duplicate-method-in-inherent-impl", "multiple times", r#"struct Pq { a: int32 }
impl Pq { fn im(self: Pq) -> int32 { 1 } fn im(self: Pq) -> int32 { 2 } }
fn main() -> unit { string_println(int32_to_string(Pq { a: 1 }.im())) }
"#),
    ("duplicate-method-across-inherent-impls", "already defined", r#"struct Pq { a: int32 }
impl Pq { fn im(self: Pq) -> int32 { 1 } }
impl Pq { fn im(self: Pq) -> int32 { 2 } }
fn main() -> unit { string_println(int32_to_string(Pq { a: 1 }.im())) }
"#),
    ("duplicate-method-across-generic-inherent-impls", "already defined", r#"enum Opt[T] { Yes(T), Non }
impl[T] Opt[T] { fn has(self: Opt[T]) -> int32 { 1 } }
impl[T] Opt[T] { fn has(self: Opt[T]) -> int32 { 2 } }
fn main() -> unit { let o = Opt::Yes(5); string_println(int32_to_string(o.has())) }
"#),
];

/// accepted programs in which equally named methods of different impls must stay apart:
/// (id, source, [(enclosing function, substring its single method callee must contain)])
const EXTRAS: &[(&str, &str, &[(&str, &str)])] = &[
    (
        "two-traits-same-method",
        r#"struct Pq { a: int32 }
trait Aa { fn m(Self) -> int32; }
trait Bb { fn m(Self) -> int32; }
impl Aa for Pq { fn m(self: Pq) -> int32 { 1 } }
impl Bb for Pq { fn m(self: Pq) -> int32 { 2 } }
fn f_a(x: Pq) -> int32 { Aa::m(x) }
fn f_b(x: Pq) -> int32 { Bb::m(x) }
fn f_da(x: Pq) -> int32 { let d: dyn Aa = x; Aa::m(d) }
fn f_db(x: Pq) -> int32 { let d: dyn Bb = x; Bb::m(d) }
fn main() -> unit { let p = Pq { a: 1 }; string_println(int32_to_string(f_a(p) + f_b(p) + f_da(p) + f_db(p))) }
"#,
        &[("f_a", "trait_impl_Aa_Pq_m"), ("f_b", "trait_impl_Bb_Pq_m"), ("f_da", "dyn__Aa__vtable__Pq"), ("f_db", "dyn__Bb__vtable__Pq")],
    ),
    (
        "inherent-and-trait-same-method",
        r#"struct Pq { a: int32 }
trait Tr { fn m(Self) -> int32; }
impl Tr for Pq { fn m(self: Pq) -> int32 { 1 } }
impl Pq { fn m(self: Pq) -> int32 { 2 } }
fn f_t(x: Pq) -> int32 { Tr::m(x) }
fn f_dot(x: Pq) -> int32 { x.m() }
fn f_path(x: Pq) -> int32 { Pq::m(x) }
fn main() -> unit { let p = Pq { a: 1 }; string_println(int32_to_string(f_t(p) + f_dot(p) + f_path(p))) }
"#,
        &[("f_t", "trait_impl_Tr_Pq_m"), ("f_dot", "inherent_Pq_Pq_m"), ("f_path", "inherent_Pq_Pq_m")],
    ),
    (
        "same-method-two-types-generic-inherent",
        r#"enum Opt[T] { Yes(T), Non }
struct Pq { a: int32 }
impl[T] Opt[T] { fn has(self: Opt[T]) -> int32 { 1 } }
impl Pq { fn has(self: Pq) -> int32 { 2 } }
fn f_o(x: Opt[int32]) -> int32 { x.has() }
fn f_s(x: Opt[string]) -> int32 { Opt::has(x) }
fn f_p(x: Pq) -> int32 { x.has() }
fn main() -> unit { let o: Opt[int32] = Opt::Yes(1); let s: Opt[string] = Opt::Non; string_println(int32_to_string(f_o(o) + f_s(s) + f_p(Pq { a: 1 }))) }
"#,
        &[("f_o", "inherent_Opt_Opt_x5b_T_x5d__has__T_int32"), ("f_s", "inherent_Opt_Opt_x5b_T_x5d__has__T_string"), ("f_p", "inherent_Pq_Pq_has")],
    ),
];


// ------------------------------------------------------------------ effect / result family (`gv c17sem`)
//
// One program per (receiver, position, call form): the programs of one (receiver, position) differ
// ONLY in the form of the method call, so whatever they print and return must be identical.  The
// real Go AST of each is evaluated under Go.Sem (and the surface program under SrcSem) by
// tools/props/c17.py through tools/props/c01.py `collect`/`evaluate`.

struct SemRecv {
    label: &'static str,
    ty_text: &'static str,
    /// items: type, impl of Tick (bodies shared with the inherent impl when there is one)
    items: &'static str,
    /// statements that bind `r` to a fresh receiver
    mk: &'static str,
    /// inherent methods `itick`/`ibump`/`itotal` exist (local nominal type), callable as `Name::…`
    nominal: Option<&'static str>,
    dyn_ok: bool,
}

const TICK_TRAIT: &str = "trait Tick { fn tick(Self) -> unit; fn bump(Self, int32) -> int32; fn total(Self) -> int32; }\n";

fn sem_receivers() -> Vec<SemRecv> {
    vec![
        SemRecv {
            label: "struct_ref",
            ty_text: "Counter",
            items: r#"struct Counter { cell: Ref[int32] }
impl Tick for Counter {
  fn tick(self: Counter) -> unit { let _ = string_println("tick " + int32_to_string(ref_get(self.cell))); ref_set(self.cell, ref_get(self.cell) + 1) }
  fn bump(self: Counter, k: int32) -> int32 { let _ = string_println("bump " + int32_to_string(k)); let _ = ref_set(self.cell, ref_get(self.cell) + k); ref_get(self.cell) }
  fn total(self: Counter) -> int32 { ref_get(self.cell) }
}
impl Counter {
  fn itick(self: Counter) -> unit { let _ = string_println("tick " + int32_to_string(ref_get(self.cell))); ref_set(self.cell, ref_get(self.cell) + 1) }
  fn ibump(self: Counter, k: int32) -> int32 { let _ = string_println("bump " + int32_to_string(k)); let _ = ref_set(self.cell, ref_get(self.cell) + k); ref_get(self.cell) }
  fn itotal(self: Counter) -> int32 { ref_get(self.cell) }
}
"#,
            mk: "let r = Counter { cell: ref(0) };",
            nominal: Some("Counter"),
            dyn_ok: true,
        },
        SemRecv {
            label: "int32",
            ty_text: "int32",
            items: r#"impl Tick for int32 {
  fn tick(self: int32) -> unit { string_println("int tick " + int32_to_string(self)) }
  fn bump(self: int32, k: int32) -> int32 { let _ = string_println("int bump " + int32_to_string(k)); self + k }
  fn total(self: int32) -> int32 { self }
}
"#,
            mk: "let r = 40;",
            nominal: None,
            dyn_ok: true,
        },
        SemRecv {
            label: "enum_ref",
            ty_text: "Sw",
            items: r#"enum Sw { On(Ref[int32]), Off }
impl Tick for Sw {
  fn tick(self: Sw) -> unit { match self { Sw::On(c) => { let _ = string_println("on " + int32_to_string(ref_get(c))); ref_set(c, ref_get(c) + 2) }, Sw::Off => string_println("off"), } }
  fn bump(self: Sw, k: int32) -> int32 { match self { Sw::On(c) => { let _ = ref_set(c, ref_get(c) + k); ref_get(c) }, Sw::Off => k, } }
  fn total(self: Sw) -> int32 { match self { Sw::On(c) => ref_get(c), Sw::Off => 0, } }
}
impl Sw {
  fn itick(self: Sw) -> unit { match self { Sw::On(c) => { let _ = string_println("on " + int32_to_string(ref_get(c))); ref_set(c, ref_get(c) + 2) }, Sw::Off => string_println("off"), } }
  fn ibump(self: Sw, k: int32) -> int32 { match self { Sw::On(c) => { let _ = ref_set(c, ref_get(c) + k); ref_get(c) }, Sw::Off => k, } }
  fn itotal(self: Sw) -> int32 { match self { Sw::On(c) => ref_get(c), Sw::Off => 0, } }
}
"#,
            mk: "let r = Sw::On(ref(5));",
            nominal: Some("Sw"),
            dyn_ok: true,
        },
        // Tick implemented FOR `dyn Base`; Base's methods have other names
        SemRecv {
            label: "dyn_base_other_names",
            ty_text: "dyn Base",
            items: r#"struct Counter { cell: Ref[int32] }
trait Base { fn get(Self) -> int32; fn inc(Self, int32) -> unit; }
impl Base for Counter {
  fn get(self: Counter) -> int32 { ref_get(self.cell) }
  fn inc(self: Counter, k: int32) -> unit { ref_set(self.cell, ref_get(self.cell) + k) }
}
impl Tick for dyn Base {
  fn tick(self: dyn Base) -> unit { let _ = string_println("dyn tick " + int32_to_string(Base::get(self))); Base::inc(self, 1) }
  fn bump(self: dyn Base, k: int32) -> int32 { let _ = string_println("dyn bump " + int32_to_string(k)); Base::inc(self, k); Base::get(self) }
  fn total(self: dyn Base) -> int32 { Base::get(self) }
}
"#,
            mk: "let c0 = Counter { cell: ref(0) }; let r: dyn Base = c0;",
            nominal: None,
            dyn_ok: false,
        },
        // Tick implemented FOR `dyn Loud`, and Loud declares tick/bump/total with the SAME signatures
        SemRecv {
            label: "dyn_loud_same_signatures",
            ty_text: "dyn Loud",
            items: r#"struct Counter { cell: Ref[int32] }
trait Loud { fn tick(Self) -> unit; fn bump(Self, int32) -> int32; fn total(Self) -> int32; }
impl Loud for Counter {
  fn tick(self: Counter) -> unit { let _ = string_println("LOUD tick " + int32_to_string(ref_get(self.cell))); ref_set(self.cell, ref_get(self.cell) + 10) }
  fn bump(self: Counter, k: int32) -> int32 { let _ = string_println("LOUD bump"); let _ = ref_set(self.cell, ref_get(self.cell) + 10 * k); ref_get(self.cell) }
  fn total(self: Counter) -> int32 { 1000 + ref_get(self.cell) }
}
impl Tick for dyn Loud {
  fn tick(self: dyn Loud) -> unit { let _ = string_println("hushed tick"); Loud::tick(self) }
  fn bump(self: dyn Loud, k: int32) -> int32 { let _ = string_println("hushed bump"); Loud::bump(self, k) + 1 }
  fn total(self: dyn Loud) -> int32 { Loud::total(self) - 1000 }
}
"#,
            mk: "let c0 = Counter { cell: ref(0) }; let r: dyn Loud = c0;",
            nominal: None,
            dyn_ok: false,
        },
        // … and with DIFFERENT signatures for the equally named methods
        SemRecv {
            label: "dyn_loud_different_signatures",
            ty_text: "dyn Loud",
            items: r#"struct Counter { cell: Ref[int32] }
trait Loud { fn tick(Self, int32) -> int32; fn bump(Self) -> unit; fn total(Self, string) -> string; }
impl Loud for Counter {
  fn tick(self: Counter, k: int32) -> int32 { let _ = string_println("LOUD tick"); let _ = ref_set(self.cell, ref_get(self.cell) + k); ref_get(self.cell) }
  fn bump(self: Counter) -> unit { string_println("LOUD bump") }
  fn total(self: Counter, s: string) -> string { s + int32_to_string(ref_get(self.cell)) }
}
impl Tick for dyn Loud {
  fn tick(self: dyn Loud) -> unit { let _ = string_println("hushed tick"); let _ = Loud::tick(self, 1); () }
  fn bump(self: dyn Loud, k: int32) -> int32 { let _ = Loud::bump(self); Loud::tick(self, k) }
  fn total(self: dyn Loud) -> int32 { string_len(Loud::total(self, "n=")) }
}
"#,
            mk: "let c0 = Counter { cell: ref(0) }; let r: dyn Loud = c0;",
            nominal: None,
            dyn_ok: false,
        },
    ]
}

/// (position, result type of `run`, body with @TICK@ / @BUMP1@.. / @TOTAL@)
const POSITIONS: &[(&str, &str, &str)] = &[
    ("value", "int32", "let u: unit = @TICK@; let _ = string_println(\"after\"); let w: unit = u; @TOTAL@"),
    ("statement", "int32", "@TICK@; let _ = string_println(\"mid\"); @TICK@; @TOTAL@"),
    ("discarded-let", "int32", "let _ = @TICK@; let _ = @TICK@; @TOTAL@"),
    ("argument", "int32", "let k = consume(@TICK@); @TOTAL@ + k"),
    ("loop-tail", "int32", "let i = ref(0); while ref_get(i) < n { ref_set(i, ref_get(i) + 1); @TICK@ }; @TOTAL@"),
    ("loop-statement", "int32", "let i = ref(0); while ref_get(i) < n { @TICK@; ref_set(i, ref_get(i) + 1) }; @TOTAL@"),
    ("loop-only", "int32", "let i = ref(0); while ref_get(i) < n { let _ = ref_set(i, ref_get(i) + 1); @TICK@ }; @TOTAL@"),
    ("loop-branch-tail", "int32", "let i = ref(0); while ref_get(i) < n { ref_set(i, ref_get(i) + 1); if ref_get(i) > 1 { @TICK@ } else { () } }; @TOTAL@"),
    ("loop-match-arm", "int32", "let i = ref(0); while ref_get(i) < n { ref_set(i, ref_get(i) + 1); match ref_get(i) { 2 => @TICK@, _ => (), } }; @TOTAL@"),
    ("nested-loop-tail", "int32", "let i = ref(0); while ref_get(i) < n { ref_set(i, ref_get(i) + 1); let j = ref(0); while ref_get(j) < 2 { ref_set(j, ref_get(j) + 1); @TICK@ } }; @TOTAL@"),
    ("branch-tail", "int32", "if n > 1 { @TICK@ } else { () }; if n > 5 { () } else { @TICK@ }; @TOTAL@"),
    ("match-arm", "int32", "match n { 3 => @TICK@, _ => (), }; match n { 4 => (), _ => @TICK@, }; @TOTAL@"),
    ("fn-tail", "unit", "let _ = string_println(\"pre\"); @TICK@"),
    ("fn-branch-tail", "unit", "if n > 1 { @TICK@ } else { () }"),
    ("fn-match-tail", "unit", "match n { 3 => @TICK@, _ => (), }"),
    ("fn-block-tail", "unit", "let _ = string_println(\"pre\"); if n > 0 { @TICK@; @TICK@ } else { () }"),
    ("result-value", "int32", "let a = @BUMP1@; let b = @BUMP2@ + @BUMP3@; a * 100 + b + @TOTAL@"),
    ("result-discarded", "int32", "let _ = @BUMP1@; @BUMP2@; let i = ref(0); while ref_get(i) < n { ref_set(i, ref_get(i) + 1); let _ = @BUMP1@; () }; @TOTAL@"),
    ("result-loop-condition", "int32", "while @BUMP1@ < n + 2 { () }; @TOTAL@"),
    ("result-branch-condition", "int32", "if @BUMP2@ > 1 { @BUMP1@ } else { @BUMP3@ }"),
    ("result-argument", "int32", "add3(@BUMP1@, @BUMP2@, @TOTAL@)"),
];

struct Form {
    id: &'static str,
    generic: bool,
    tick: &'static str,
    bump: &'static str,
    total: &'static str,
    /// the receiver parameter is `dyn Tick`
    dyn_param: bool,
    inherent: u8, // 0 trait, 1 dot, 2 path
}

const FORMS: &[Form] = &[
    Form { id: "static", generic: false, tick: "Tick::tick(x)", bump: "Tick::bump(x, @K@)", total: "Tick::total(x)", dyn_param: false, inherent: 0 },
    Form { id: "bound", generic: true, tick: "Tick::tick(x)", bump: "Tick::bump(x, @K@)", total: "Tick::total(x)", dyn_param: false, inherent: 0 },
    Form { id: "bound-dot", generic: true, tick: "x.tick()", bump: "x.bump(@K@)", total: "x.total()", dyn_param: false, inherent: 0 },
    Form { id: "dyn", generic: false, tick: "Tick::tick(x)", bump: "Tick::bump(x, @K@)", total: "Tick::total(x)", dyn_param: true, inherent: 0 },
    Form { id: "inherent-dot", generic: false, tick: "x.itick()", bump: "x.ibump(@K@)", total: "x.itotal()", dyn_param: false, inherent: 1 },
    Form { id: "inherent-path", generic: false, tick: "@N@::itick(x)", bump: "@N@::ibump(x, @K@)", total: "@N@::itotal(x)", dyn_param: false, inherent: 2 },
];

/// the two generated pieces of an effect program: (helpers + the function `run` holding the call
/// sites, `main`); the other two pieces are `TICK_TRAIT` and the receiver's `items`
fn sem_pieces(r: &SemRecv, pos: &(&str, &str, &str), f: &Form) -> Option<(String, String)> {
    if f.dyn_param && !r.dyn_ok {
        return None;
    }
    if f.inherent > 0 && r.nominal.is_none() {
        return None;
    }
    let n = r.nominal.unwrap_or("");
    let sub = |t: &str, k: &str| t.replace("@K@", k).replace("@N@", n);
    let body = pos
        .2
        .replace("@TICK@", &sub(f.tick, "0"))
        .replace("@BUMP1@", &sub(f.bump, "1"))
        .replace("@BUMP2@", &sub(f.bump, "2"))
        .replace("@BUMP3@", &sub(f.bump, "3"))
        .replace("@TOTAL@", &sub(f.total, "0"));
    let mut run = String::new();
    run.push_str("fn consume(u: unit) -> int32 { 1 }\nfn add3(a: int32, b: int32, c: int32) -> int32 { a * 10000 + b * 100 + c }\n");
    let pty = if f.dyn_param { "dyn Tick" } else if f.generic { "T" } else { r.ty_text };
    let _ = writeln!(run, "fn run{}(x: {}, n: int32) -> {} {{ {} }}", if f.generic { "[T: Tick]" } else { "" }, pty, pos.1, body);
    let arg = if f.dyn_param { "d" } else { "r" };
    let mut s = String::new();
    let _ = writeln!(s, "fn main() -> unit {{");
    let _ = writeln!(s, "  {}", r.mk);
    if f.dyn_param {
        let _ = writeln!(s, "  let d: dyn Tick = r;");
    }
    if pos.1 == "unit" {
        let _ = writeln!(s, "  let _ = run({}, 3);", arg);
    } else {
        let _ = writeln!(s, "  let v = run({}, 3);\n  let _ = string_println(\"result \" + int32_to_string(v));", arg);
    }
    let _ = writeln!(s, "  string_println(\"total \" + int32_to_string(Tick::total(r)))\n}}");
    Some((run, s))
}

fn sem_program(r: &SemRecv, pos: &(&str, &str, &str), f: &Form) -> Option<String> {
    let (run, main) = sem_pieces(r, pos, f)?;
    Some(format!("{}{}{}{}", TICK_TRAIT, r.items, run, main))
}


// ------------------------------------------------------------------ overlapping inherent impls
//
// `impl[T] Cell[T] { fn m }` next to `impl Cell[int32] { fn m }` (different observable bodies).  The
// typer accepts the overlap: for a receiver of exactly the instantiated type the instantiation's
// impl is the method, the generic impl is the fallback.  Both call forms — `x.m()` and
// `Cell::m(x)` — must run the same one.

const OVERLAP_LIB: &str = r#"struct Cell[T] { v: T }
enum Opt[T] { Som(T), Non }
struct Pr[A, B] { a: A, b: B }
impl[T] Cell[T] {
  fn describe(self: Cell[T]) -> string { let _ = string_println("generic describe"); "generic" }
  fn poke(self: Cell[T]) -> unit { string_println("generic poke") }
  fn get(self: Cell[T]) -> T { self.v }
  fn arg(self: Cell[T], k: int32) -> int32 { k }
}
impl Cell[int32] {
  fn describe(self: Cell[int32]) -> string { let _ = string_println("exact-int describe"); "exact " + int32_to_string(self.v) }
  fn poke(self: Cell[int32]) -> unit { string_println("exact-int poke " + int32_to_string(self.v)) }
  fn only(self: Cell[int32]) -> int32 { self.v + 100 }
  fn arg(self: Cell[int32], k: int32) -> int32 { self.v * 10 + k }
}
impl Cell[string] { fn describe(self: Cell[string]) -> string { "exact-str " + self.v } }
impl Cell[Cell[int32]] {
  fn describe(self: Cell[Cell[int32]]) -> string { let inner: Cell[int32] = self.v; "nested(" + inner.describe() + ")" }
  fn poke(self: Cell[Cell[int32]]) -> unit { let inner: Cell[int32] = self.v; let _ = string_println("nested poke"); Cell::poke(inner) }
}
impl[T] Opt[T] { fn kind(self: Opt[T]) -> string { match self { Opt::Som(_) => "som", Opt::Non => "non", } } }
impl Opt[bool] { fn kind(self: Opt[bool]) -> string { match self { Opt::Som(b) => "som-" + bool_to_string(b), Opt::Non => "non-bool", } } }
impl[A, B] Pr[A, B] { fn label(self: Pr[A, B]) -> string { "pair" } }
impl Pr[int32, string] { fn label(self: Pr[int32, string]) -> string { "int-str " + int32_to_string(self.a) + self.b } }
fn mk[T](x: T) -> Cell[T] { Cell { v: x } }
fn idf[T](x: T) -> T { x }
fn first[A, B](p: Pr[A, B]) -> A { p.a }
"#;

/// (scenario, base type name, method, extra args, statements binding `x`, result kind)
const OVERLAP_SCENARIOS: &[(&str, &str, &str, &str, &str, &str)] = &[
    ("exact_int", "Cell", "describe", "", "let x: Cell[int32] = Cell { v: 1 };", "string"),
    ("exact_int_unannotated", "Cell", "describe", "", "let x = Cell { v: 2 };", "string"),
    ("exact_str", "Cell", "describe", "", "let x: Cell[string] = Cell { v: \"s\" };", "string"),
    ("generic_only_bool", "Cell", "describe", "", "let x: Cell[bool] = Cell { v: true };", "string"),
    ("nested_exact", "Cell", "describe", "", "let i: Cell[int32] = Cell { v: 3 }; let x: Cell[Cell[int32]] = Cell { v: i };", "string"),
    ("nested_generic_only", "Cell", "describe", "", "let i: Cell[bool] = Cell { v: true }; let x: Cell[Cell[bool]] = Cell { v: i };", "string"),
    ("doubly_nested", "Cell", "describe", "", "let i: Cell[int32] = Cell { v: 3 }; let j: Cell[Cell[int32]] = Cell { v: i }; let x: Cell[Cell[Cell[int32]]] = Cell { v: j };", "string"),
    ("value_from_generic_fn", "Cell", "describe", "", "let x: Cell[int32] = mk(4);", "string"),
    ("value_through_identity", "Cell", "describe", "", "let c: Cell[int32] = Cell { v: 5 }; let x: Cell[int32] = idf(c);", "string"),
    ("value_from_generic_method", "Cell", "describe", "", "let i: Cell[int32] = Cell { v: 6 }; let w: Cell[Cell[int32]] = Cell { v: i }; let x: Cell[int32] = w.get();", "string"),
    ("value_from_pair_projection", "Cell", "describe", "", "let c: Cell[int32] = Cell { v: 7 }; let p: Pr[Cell[int32], bool] = Pr { a: c, b: true }; let x: Cell[int32] = first(p);", "string"),
    ("exact_only_method", "Cell", "only", "", "let x: Cell[int32] = Cell { v: 8 };", "int32"),
    ("extra_argument_exact", "Cell", "arg", "7", "let x: Cell[int32] = Cell { v: 9 };", "int32"),
    ("extra_argument_generic", "Cell", "arg", "7", "let x: Cell[string] = Cell { v: \"t\" };", "int32"),
    ("effect_exact", "Cell", "poke", "", "let x: Cell[int32] = Cell { v: 1 };", "unit"),
    ("effect_generic", "Cell", "poke", "", "let x: Cell[string] = Cell { v: \"u\" };", "unit"),
    ("effect_nested", "Cell", "poke", "", "let i: Cell[int32] = Cell { v: 2 }; let x: Cell[Cell[int32]] = Cell { v: i };", "unit"),
    ("enum_exact_bool", "Opt", "kind", "", "let x: Opt[bool] = Opt::Som(true);", "string"),
    ("enum_exact_bool_non", "Opt", "kind", "", "let x: Opt[bool] = Opt::Non;", "string"),
    ("enum_generic_int", "Opt", "kind", "", "let x: Opt[int32] = Opt::Som(1);", "string"),
    ("two_params_exact", "Pr", "label", "", "let x: Pr[int32, string] = Pr { a: 1, b: \"z\" };", "string"),
    ("two_params_swapped_generic", "Pr", "label", "", "let x: Pr[string, int32] = Pr { a: \"z\", b: 1 };", "string"),
];

/// where the call stands: (context id, template with @CALL@ = the call on `x`, @BIND@ = the binding of `x`, @RT@)
const OVERLAP_CONTEXTS: &[(&str, &str)] = &[
    // directly in main
    ("concrete", "fn main() -> unit {\n  @BIND@\n  @USE@\n}\n"),
    // in a non-generic function taking the receiver
    ("concrete_fn", "fn callee(x: @XT@) -> @RT@ { @CALL@ }\nfn main() -> unit {\n  @BIND@\n  @USEFN@\n}\n"),
    // inside a generic function whose type parameter is unrelated to the receiver: the receiver type is
    // concrete there, so the instantiation's impl is the method
    ("inside_generic_fn_concrete_receiver", "fn wrapper[U](u: U, x: @XT@) -> @RT@ { @CALL@ }\nfn main() -> unit {\n  @BIND@\n  @USEWRAP@\n}\n"),
    // in a loop tail / branch (statement positions)
    ("loop_tail", "fn main() -> unit {\n  @BIND@\n  let i = ref(0);\n  while ref_get(i) < 2 { ref_set(i, ref_get(i) + 1); @STMT@ };\n  ()\n}\n"),
];

fn overlap_programs(thorough: bool, seed: u64) -> Vec<(String, String)> {
    let mut v = Vec::new();
    for (si, (sc, base, m, extra, bind, rt)) in OVERLAP_SCENARIOS.iter().enumerate() {
        // the type of x, read off the binding (`let x: T = …`); unannotated: only the `concrete` context
        let xt = bind.rsplit("let x: ").next().and_then(|t| t.split(" = ").next()).filter(|_| bind.contains("let x: "));
        for (ci, (ctx, tpl)) in OVERLAP_CONTEXTS.iter().enumerate() {
            if xt.is_none() && *ctx != "concrete" && *ctx != "loop_tail" {
                continue;
            }
            if !thorough && *ctx != "concrete" && (si + ci + seed as usize) % 2 == 1 {
                continue;
            }
            for form in ["dot", "path"] {
                let args_tail = if extra.is_empty() { String::new() } else { format!(", {}", extra) };
                let call = if form == "dot" { format!("x.{}({})", m, extra) } else { format!("{}::{}(x{})", base, m, args_tail) };
                let show = |e: &str| match *rt {
                    "string" => format!("string_println({})", e),
                    "int32" => format!("string_println(int32_to_string({}))", e),
                    _ => format!("let u: unit = {}; string_println(\"done\")", e),
                };
                let stmt = match *rt {
                    "unit" => call.clone(),
                    _ => format!("let _ = {}; ()", call),
                };
                let src = format!(
                    "{}{}",
                    OVERLAP_LIB,
                    tpl.replace("@BIND@", bind)
                        .replace("@USE@", &show(&call))
                        .replace("@USEFN@", &show("callee(x)"))
                        .replace("@USEWRAP@", &show("wrapper(true, x)"))
                        .replace("@STMT@", &stmt)
                        .replace("@CALL@", &call)
                        .replace("@XT@", xt.unwrap_or("unit"))
                        .replace("@RT@", rt)
                );
                v.push((format!("sem/ovl_{}/{}/{}", sc, ctx, form), src));
            }
        }
    }
    // the receiver's type is a type parameter instance: inside `fn g[T](c: Cell[T])` both forms can only
    // mean the generic impl, whatever T is instantiated with — they still have to agree with each other
    for (inst, bind) in [("int32", "let x: Cell[int32] = Cell { v: 1 };"), ("bool", "let x: Cell[bool] = Cell { v: true };"), ("nested", "let i: Cell[int32] = Cell { v: 1 }; let x: Cell[Cell[int32]] = Cell { v: i };")] {
        for (m, rt) in [("describe", "string"), ("poke", "unit")] {
            for form in ["dot", "path"] {
                let call = if form == "dot" { format!("c.{}()", m) } else { format!("Cell::{}(c)", m) };
                let body = if rt == "unit" { format!("{}; \"done\"", call) } else { call };
                let src = format!(
                    "{}fn generic_ctx[T](c: Cell[T]) -> string {{ {} }}\nfn main() -> unit {{\n  {}\n  string_println(generic_ctx(x))\n}}\n",
                    OVERLAP_LIB, body, bind
                );
                v.push((format!("sem/ovl_generic_receiver_{}_{}/in_generic_fn/{}", inst, m, form), src));
            }
        }
    }
    v
}

// ------------------------------------------------------------------ the same families inside library packages
//
// Type names are RESOLVED per package (`Cell` written in package Lib is `Lib::Cell`), so every decision
// that compares a written path with a type's constructor name has to be exercised outside `Main` too.

const OVERLAP_LIB_NAMES: [&str; 6] = ["Cell", "Opt", "Pr", "mk", "idf", "first"];

/// whole-identifier replacement `Name` -> `pkg::Name` for the library's top-level names
fn qualify(text: &str, pkg: &str, names: &[&str]) -> String {
    let cs: Vec<char> = text.chars().collect();
    let mut out = String::new();
    let mut i = 0;
    let mut in_str = false;
    while i < cs.len() {
        if cs[i] == '"' {
            in_str = !in_str;
            out.push(cs[i]);
            i += 1;
        } else if !in_str && (cs[i].is_ascii_alphabetic() || cs[i] == '_') {
            let mut j = i;
            while j < cs.len() && (cs[j].is_ascii_alphanumeric() || cs[j] == '_') {
                j += 1;
            }
            let w: String = cs[i..j].iter().collect();
            let after_dot = out.trim_end().ends_with('.');
            if names.contains(&w.as_str()) && !after_dot {
                out.push_str(pkg);
                out.push_str("::");
            }
            out.push_str(&w);
            i = j;
        } else {
            out.push(cs[i]);
            i += 1;
        }
    }
    out
}

const MAIN_CALLS_RUN: &str = "package Main\nimport Lib\n\nfn main() -> unit { Lib::lib_entry() }\n";

/// any single-package program, moved into package Lib as a whole (its `main` becomes `Lib::lib_entry`)
fn whole_program_in_library(src: &str) -> Vec<(String, String)> {
    vec![
        ("Lib/lib.gom".to_string(), format!("package Lib\n\n{}", src.replace("fn main() -> unit", "fn lib_entry() -> unit"))),
        ("main.gom".to_string(), MAIN_CALLS_RUN.to_string()),
    ]
}

/// the three placements of an overlap program: (layout, files)
fn overlap_layouts(body: &str) -> Vec<(&'static str, Vec<(String, String)>)> {
    let run_body = body.replace("fn main() -> unit", "fn lib_entry() -> unit");
    vec![
        // type, impls and call sites in Lib (unqualified spellings), called from Main
        ("all_in_lib", vec![
            ("Lib/lib.gom".to_string(), format!("package Lib\n\n{}{}", OVERLAP_LIB, run_body)),
            ("main.gom".to_string(), MAIN_CALLS_RUN.to_string()),
        ]),
        // type and impls in Lib, values and call sites in Main, written `Lib::Cell::m(x)`
        ("calls_in_main", vec![
            ("Lib/lib.gom".to_string(), format!("package Lib\n\n{}", OVERLAP_LIB)),
            ("main.gom".to_string(), format!("package Main\nimport Lib\n\n{}", qualify(body, "Lib", &OVERLAP_LIB_NAMES))),
        ]),
        // type and impls in Base, call sites in Lib (which imports Base), written `Base::Cell::m(x)`
        ("calls_in_other_library", vec![
            ("Base/lib.gom".to_string(), format!("package Base\n\n{}", OVERLAP_LIB)),
            ("Lib/lib.gom".to_string(), format!("package Lib\nimport Base\n\n{}", qualify(&run_body, "Base", &OVERLAP_LIB_NAMES))),
            ("main.gom".to_string(), MAIN_CALLS_RUN.to_string()),
        ]),
    ]
}

// ------------------------------------------------------------------ one program distributed over packages
//
// Which environment a resolution site consults — the package being checked (`genv.current()`), the
// package that defines the trait, the package that defines the receiver's type, the package holding
// the impl — is a decision of its own at every site of every call form.  In a single package, and
// in `all_in_lib`, all of them are ONE environment, so a site that asks the wrong one is invisible.
// Here the pieces of one program are distributed over up to three packages in the ways the orphan
// rule and the import graph (a library cannot import Main; no cycles) allow.

/// top-level items of a source text: an item starts at a line that begins in column 0 with an item
/// keyword and runs to the next such line
fn top_level_items(text: &str) -> Vec<String> {
    let mut items: Vec<String> = Vec::new();
    for line in text.split_inclusive('\n') {
        let starts = ["struct ", "enum ", "trait ", "impl ", "impl[", "fn ", "extern "].iter().any(|k| line.starts_with(k));
        if starts || items.is_empty() {
            items.push(String::new());
        }
        items.last_mut().unwrap().push_str(line);
    }
    items
}

/// the name an item declares (`struct X`, `enum X[T]`, `trait X`, `fn x[T](..)`); None for impls
fn declared_name(item: &str) -> Option<String> {
    for k in ["struct ", "enum ", "trait ", "fn "] {
        if let Some(rest) = item.strip_prefix(k) {
            let n: String = rest.chars().take_while(|c| c.is_ascii_alphanumeric() || *c == '_').collect();
            return if n.is_empty() { None } else { Some(n) };
        }
    }
    None
}

/// a piece of a program: the package it is placed in, the top-level names it declares, its text
/// (written with unqualified names, as in the single-package program)
struct Part {
    pkg: &'static str,
    names: Vec<String>,
    text: String,
}

fn mentions(text: &str, names: &[String]) -> bool {
    let ns: Vec<&str> = names.iter().map(|s| s.as_str()).collect();
    qualify(text, "?", &ns) != text
}

/// the project: one file per package holding its parts in order, every name declared by a part of
/// ANOTHER package written `Pkg::name`, and exactly the packages so mentioned imported
fn distribute(parts: &[Part]) -> Vec<(String, String)> {
    let mut pkgs: Vec<&str> = Vec::new();
    for p in parts {
        if !p.text.is_empty() && !pkgs.contains(&p.pkg) {
            pkgs.push(p.pkg);
        }
    }
    let mut files = Vec::new();
    for pkg in &pkgs {
        let mut body: String = parts.iter().filter(|p| p.pkg == *pkg).map(|p| p.text.as_str()).collect();
        let mut imports = String::new();
        for other in pkgs.iter().filter(|o| *o != pkg && **o != "Main") {
            let names: Vec<&str> = parts.iter().filter(|p| p.pkg == *other).flat_map(|p| p.names.iter().map(|s| s.as_str())).collect();
            let q = qualify(&body, other, &names);
            if q != body {
                let _ = writeln!(imports, "import {}", other);
                body = q;
            }
        }
        let rel = if *pkg == "Main" { "main.gom".to_string() } else { format!("{}/lib.gom", pkg) };
        files.push((rel, format!("package {}\n{}\n{}", pkg, imports, body)));
    }
    files
}

/// (layout, package of: trait `Tick` / the receiver's types, their inherent impls and auxiliary
/// traits / `impl Tick for ..` / the helpers and the function `run` holding the call sites);
/// `main` (builds the receiver, coerces it for the dyn form, calls `run`, reads the total) is in Main
const PLACEMENTS: &[(&str, [&str; 4])] = &[
    ("items_in_lib", ["Lib", "Lib", "Lib", "Main"]),
    ("trait_in_lib", ["Lib", "Main", "Main", "Main"]),
    ("type_in_lib", ["Main", "Lib", "Main", "Main"]),
    ("trait_below_type", ["Root", "Lib", "Lib", "Main"]),
    ("type_below_trait", ["Lib", "Root", "Lib", "Main"]),
    ("items_in_root_run_in_lib", ["Root", "Root", "Root", "Lib"]),
    ("trait_below_type_and_run", ["Root", "Lib", "Lib", "Lib"]),
    ("type_below_trait_and_run", ["Lib", "Root", "Lib", "Lib"]),
    ("run_with_trait_in_lib", ["Lib", "Main", "Main", "Lib"]),
];

/// the effect program of (receiver, position, form) in one placement; None when the language rules
/// exclude it (orphan rule; a library cannot name what Main declares) or the placement degenerates
fn placed_sem_program(r: &SemRecv, pos: &(&str, &str, &str), f: &Form, pk: &[&'static str; 4]) -> Option<Vec<(String, String)>> {
    let (run, main) = sem_pieces(r, pos, f)?;
    let mut types = Part { pkg: pk[1], names: Vec::new(), text: String::new() };
    let mut impls = Part { pkg: pk[2], names: Vec::new(), text: String::new() };
    for it in top_level_items(r.items) {
        if it.starts_with("impl Tick for ") {
            impls.text.push_str(&it);
        } else {
            types.names.extend(declared_name(&it));
            types.text.push_str(&it);
        }
    }
    // orphan rule: an impl lives with its trait, or with its type when that is a nominal type
    if pk[2] != pk[0] && !(r.nominal.is_some() && pk[2] == pk[1]) {
        return None;
    }
    // the piece that distinguishes the placement does not exist for this receiver (primitive receiver)
    if types.text.is_empty() && pk[1] != pk[0] && pk[1] != pk[2] && pk[1] != pk[3] {
        return None;
    }
    // a library cannot import Main
    let in_main_seen_from_lib = |user_pkg: &str, user_text: &str, decl_pkg: &str, names: &[String]| user_pkg != "Main" && decl_pkg == "Main" && mentions(user_text, names);
    let tick = vec!["Tick".to_string()];
    if in_main_seen_from_lib(pk[3], &run, pk[1], &types.names) || in_main_seen_from_lib(pk[3], &run, pk[0], &tick) || in_main_seen_from_lib(pk[2], &impls.text, pk[1], &types.names) || in_main_seen_from_lib(pk[2], &impls.text, pk[0], &tick) {
        return None;
    }
    let parts = [
        Part { pkg: pk[0], names: tick, text: TICK_TRAIT.to_string() },
        types,
        impls,
        Part { pkg: pk[3], names: vec!["run".to_string(), "consume".to_string(), "add3".to_string()], text: run },
        Part { pkg: "Main", names: Vec::new(), text: main },
    ];
    Some(distribute(&parts))
}

/// any single-package program with every declaration (types, traits, impls) in package Lib and its
/// functions in Main; None when it declares nothing
fn decls_in_library(src: &str) -> Option<Vec<(String, String)>> {
    let mut decls = Part { pkg: "Lib", names: Vec::new(), text: String::new() };
    let mut fns = Part { pkg: "Main", names: Vec::new(), text: String::new() };
    for it in top_level_items(src) {
        if it.starts_with("fn ") {
            fns.text.push_str(&it);
        } else {
            decls.names.extend(declared_name(&it));
            decls.text.push_str(&it);
        }
    }
    if decls.text.is_empty() {
        return None;
    }
    Some(distribute(&[decls, fns]))
}

fn compile_project(root: &std::path::Path, files: &[(String, String)]) -> (Outcome, String, String) {
    let _ = std::fs::remove_dir_all(root);
    let mut main_src = String::new();
    for (rel, text) in files {
        let p = root.join(rel);
        let _ = std::fs::create_dir_all(p.parent().unwrap());
        let _ = std::fs::write(&p, text);
        if rel == "main.gom" {
            main_src = text.clone();
        }
    }
    let all: String = files.iter().map(|(r, t)| format!("// {}\n{}", r, t)).collect::<Vec<_>>().join("\n");
    (util::compile_path(&root.join("main.gom"), &main_src), main_src, all)
}

fn emit_project(id: &str, root: &std::path::Path, files: &[(String, String)], out: &mut String) {
    let (oc, main_src, all) = compile_project(root, files);
    match oc {
        Outcome::Ok(c) => {
            let _ = writeln!(out, "{}\tEXPECT\tnone\t", id);
            let _ = writeln!(out, "{}\tSRC\t{}", id, esc_line(&all));
            crate::c01::dump_src(id, &root.join("main.gom"), &main_src, out);
            let _ = writeln!(out, "{}\tSTAGE\tgo\t{}", id, crate::godump::gfile(&c.go).to_text());
        }
        Outcome::Err(stage, msgs) => {
            let _ = writeln!(out, "{}\tREJECT\t{}\t{}\t{}", id, stage, esc_line(&msgs.join(" | ")), esc_line(&all));
        }
        Outcome::Panic(m) => {
            let _ = writeln!(out, "{}\tPANIC\t{}\t{}", id, esc_line(&m), esc_line(&all));
        }
    }
    let _ = std::fs::remove_dir_all(root);
}

pub fn main_sem(args: &util::Args) {
    util::quiet_panics();
    let _ = std::fs::create_dir_all(&args.out);
    let dir = util::scratch_dir("c17sem");
    let mut out = String::new();
    let mut n = 0usize;
    // the seed rotates which receivers get the full position list in the quick tier
    let recvs = sem_receivers();
    for (ri, r) in recvs.iter().enumerate() {
        for (pi, pos) in POSITIONS.iter().enumerate() {
            let full = args.tier == "thorough" || r.label == "struct_ref" || (ri + pi + args.seed as usize) % 2 == 0 || !r.dyn_ok;
            if !full {
                continue;
            }
            for f in FORMS {
                let Some(src) = sem_program(r, pos, f) else { continue };
                let id = format!("sem/{}/{}/{}", r.label, pos.0, f.id);
                n += 1;
                match util::compile_text(&dir, &src) {
                    Outcome::Ok(c) => {
                        let _ = writeln!(out, "{}\tEXPECT\tnone\t", id);
                        let _ = writeln!(out, "{}\tSRC\t{}", id, esc_line(&src));
                        crate::c01::dump_src(&id, &dir.join("main.gom"), &src, &mut out);
                        let _ = writeln!(out, "{}\tSTAGE\tgo\t{}", id, crate::godump::gfile(&c.go).to_text());
                    }
                    Outcome::Err(stage, msgs) => {
                        let _ = writeln!(out, "{}\tREJECT\t{}\t{}\t{}", id, stage, esc_line(&msgs.join(" | ")), esc_line(&src));
                    }
                    Outcome::Panic(m) => {
                        let _ = writeln!(out, "{}\tPANIC\t{}\t{}", id, esc_line(&m), esc_line(&src));
                    }
                }
            }
        }
    }
    // minimised witnesses of past C17 failures, with the output the source denotes written next to them
    if let Ok(rd) = std::fs::read_dir(util::verif_root().join("corpus").join("C17")) {
        let mut files: Vec<_> = rd.filter_map(|e| e.ok().map(|e| e.path())).filter(|p| p.extension().is_some_and(|x| x == "gom")).collect();
        files.sort();
        for f in files {
            let Ok(src) = std::fs::read_to_string(&f) else { continue };
            let id = format!("corpus:C17/{}", f.file_name().unwrap().to_string_lossy());
            let expected = std::fs::read_to_string(format!("{}.out", f.display())).ok();
            n += 1;
            match util::compile_text(&dir, &src) {
                Outcome::Ok(c) => {
                    let _ = writeln!(out, "{}\tEXPECT\t{}\t{}", id, if expected.is_some() { "out" } else { "none" }, esc_line(expected.as_deref().unwrap_or("")));
                    let _ = writeln!(out, "{}\tSRC\t{}", id, esc_line(&src));
                    let _ = writeln!(out, "{}\tSTAGE\tgo\t{}", id, crate::godump::gfile(&c.go).to_text());
                }
                Outcome::Err(stage, msgs) => {
                    let _ = writeln!(out, "{}\tREJECT\t{}\t{}\t{}", id, stage, esc_line(&msgs.join(" | ")), esc_line(&src));
                }
                Outcome::Panic(m) => {
                    let _ = writeln!(out, "{}\tPANIC\t{}\t{}", id, esc_line(&m), esc_line(&src));
                }
            }
        }
    }
    let ovl = overlap_programs(args.tier == "thorough", args.seed);
    let n_ovl = ovl.len();
    // … the same overlap programs placed in library packages (three layouts)
    let mut n_pkg = 0usize;
    for (id, src) in &ovl {
        let Some(body) = src.strip_prefix(OVERLAP_LIB) else { continue };
        let parts: Vec<&str> = id.splitn(3, '/').collect(); // sem / ovl_<scenario> / <ctx>/<form>
        for (layout, files) in overlap_layouts(body) {
            let pid = format!("sem/{}@{}/{}", parts[1], layout, parts[2]);
            emit_project(&pid, &dir.join("proj"), &files, &mut out);
            n += 1;
            n_pkg += 1;
        }
    }
    // … and the effect family (receiver × position × call form) with the whole program in package Lib
    for r in recvs.iter() {
        let wanted = args.tier == "thorough" || r.label == "struct_ref" || r.label == "dyn_loud_same_signatures";
        if !wanted {
            continue;
        }
        for (pi, pos) in POSITIONS.iter().enumerate() {
            if args.tier != "thorough" && (pi + args.seed as usize) % 2 == 1 {
                continue;
            }
            for f in FORMS {
                let Some(src) = sem_program(r, pos, f) else { continue };
                let pid = format!("sem/{}@all_in_lib/{}/{}", r.label, pos.0, f.id);
                emit_project(&pid, &dir.join("proj"), &whole_program_in_library(&src), &mut out);
                n += 1;
                n_pkg += 1;
            }
        }
    }
    // … and the effect family with trait, types, impl and call sites in DIFFERENT packages: every
    // placement × receiver gets a rotating share of the positions on quick, everything on thorough
    let mut n_placed = 0usize;
    let mut placed_layouts: std::collections::BTreeMap<&str, usize> = Default::default();
    for (li, (layout, pk)) in PLACEMENTS.iter().enumerate() {
        for (ri, r) in recvs.iter().enumerate() {
            for (pi, pos) in POSITIONS.iter().enumerate() {
                if args.tier != "thorough" && (li * 5 + ri * 3 + pi + args.seed as usize) % 9 != 0 {
                    continue;
                }
                for f in FORMS {
                    let Some(files) = placed_sem_program(r, pos, f, pk) else { continue };
                    let pid = format!("sem/{}@{}/{}/{}", r.label, layout, pos.0, f.id);
                    emit_project(&pid, &dir.join("proj"), &files, &mut out);
                    n += 1;
                    n_placed += 1;
                    *placed_layouts.entry(layout).or_default() += 1;
                }
            }
        }
    }
    let placed_summary = placed_layouts.iter().map(|(k, v)| format!("{}:{}", k, v)).collect::<Vec<_>>().join(",");
    for (id, src) in ovl {
        n += 1;
        match util::compile_text(&dir, &src) {
            Outcome::Ok(c) => {
                let _ = writeln!(out, "{}\tEXPECT\tnone\t", id);
                let _ = writeln!(out, "{}\tSRC\t{}", id, esc_line(&src));
                crate::c01::dump_src(&id, &dir.join("main.gom"), &src, &mut out);
                let _ = writeln!(out, "{}\tSTAGE\tgo\t{}", id, crate::godump::gfile(&c.go).to_text());
            }
            Outcome::Err(stage, msgs) => {
                let _ = writeln!(out, "{}\tREJECT\t{}\t{}\t{}", id, stage, esc_line(&msgs.join(" | ")), esc_line(&src));
            }
            Outcome::Panic(m) => {
                let _ = writeln!(out, "{}\tPANIC\t{}\t{}", id, esc_line(&m), esc_line(&src));
            }
        }
    }
    let _ = std::fs::remove_dir_all(&dir);
    let _ = writeln!(out, "#FEATS\treceivers={} positions={} forms={} overlap_scenarios={} overlap_programs={} in_library_packages={} placements={} distributed_over_packages={} per_placement={} programs={}", recvs.len(), POSITIONS.len(), FORMS.len(), OVERLAP_SCENARIOS.len(), n_ovl, n_pkg, PLACEMENTS.len(), n_placed, placed_summary, n);
    std::fs::write(args.out.join("c17sem.cases.tsv"), out).expect("write");
    println!("c17sem programs={}", n);
}

pub fn main(args: &util::Args) {
    util::quiet_panics();
    let _ = std::fs::create_dir_all(&args.out);
    let base = util::scratch_dir("c17");
    let mut out = String::new();
    let mut id = 0usize;
    let recvs = receivers();
    let names: &[(&str, &str)] = if args.tier == "thorough" { &NAMES } else { &NAMES[..5] };
    for r in &recvs {
        for (tr, m) in names {
            let src = program(r, tr, m);
            let dir = base.join(format!("p{}", id));
            let outcome = util::compile_text(&dir, &src);
            let _ = std::fs::remove_dir_all(&dir);
            let (oc, obs) = match outcome {
                Outcome::Ok(c) => {
                    let core = per_fn(c.core.toplevels.iter().map(|f| (f.name.clone(), format!("{:?}", f.body))).collect());
                    let mono = per_fn(c.mono.toplevels.iter().map(|f| (f.name.clone(), format!("{:?}", f.body))).collect());
                    let lift = per_fn(c.lambda.toplevels.iter().map(|f| (f.name.clone(), format!("{:?}", f.body))).collect());
                    let rep = goscope::check(&c.go, relied());
                    let refs: Vec<S> = rep.global_refs.iter().map(|(f, n)| l(vec![a(f), a(n)])).collect();
                    let tops: Vec<S> = rep.toplevel.iter().map(|(n, k)| l(vec![a(*k), a(n)])).collect();
                    let fails: Vec<S> = rep.failures.iter().map(|f| l(vec![a(f.kind), a(&f.name), a(&f.detail)])).collect();
                    (
                        "ok".to_string(),
                        l(vec![
                            tagged("core", vec![core]),
                            tagged("mono", vec![mono]),
                            tagged("lift", vec![lift]),
                            tagged("gorefs", refs),
                            tagged("toplevel", tops),
                            tagged("failures", fails),
                        ]),
                    )
                }
                Outcome::Err(stage, msgs) => (format!("err:{}:{}", stage, msgs.join(" | ")), l(vec![])),
                Outcome::Panic(m) => (format!("panic:{}", m), l(vec![])),
            };
            let _ = writeln!(
                out,
                "p{}\tPROG\t{}\t{}\t{}\t{}\t{}\t{}\t{}\t{}\t{}",
                id,
                r.label,
                r.stream,
                tr,
                m,
                ty_sexp(&r.ty).to_text(),
                match (r.nominal.is_some(), r.dyn_ok()) {
                    (true, _) => "nominal",
                    (false, true) => "-",
                    (false, false) => "nodyn",
                },
                esc_line(&oc),
                obs.to_text(),
                esc_line(&src)
            );
            id += 1;
        }
    }
    for (nid, want, src) in NEGATIVES {
        let dir = base.join(format!("n{}", id));
        let outcome = util::compile_text(&dir, src);
        let _ = std::fs::remove_dir_all(&dir);
        let oc = match outcome {
            Outcome::Ok(_) => "ok".to_string(),
            Outcome::Err(stage, msgs) => format!("err:{}:{}", stage, msgs.join(" | ")),
            Outcome::Panic(m) => format!("panic:{}", m),
        };
        let _ = writeln!(out, "n{}\tNEG\t{}\t{}\t{}\t{}", id, nid, want, esc_line(&oc), esc_line(src));
        id += 1;
        // the same ill-formed program as a library package (its `main` becomes `Lib::lib_entry`)
        let files = whole_program_in_library(src);
        let (outcome, _, all) = compile_project(&base.join(format!("nl{}", id)), &files);
        let oc = match outcome {
            Outcome::Ok(_) => "ok".to_string(),
            Outcome::Err(stage, msgs) => format!("err:{}:{}", stage, msgs.join(" | ")),
            Outcome::Panic(m) => format!("panic:{}", m),
        };
        let _ = writeln!(out, "n{}\tNEG\t{}@lib\t{}\t{}\t{}", id, nid, want, esc_line(&oc), esc_line(&all));
        id += 1;
        // … and with its declarations (types, traits, impls) in package Lib, its functions in Main:
        // what is missing / ambiguous is then looked for in another package's environment
        if let Some(files) = decls_in_library(src) {
            let (outcome, _, all) = compile_project(&base.join(format!("nd{}", id)), &files);
            let oc = match outcome {
                Outcome::Ok(_) => "ok".to_string(),
                Outcome::Err(stage, msgs) => format!("err:{}:{}", stage, msgs.join(" | ")),
                Outcome::Panic(m) => format!("panic:{}", m),
            };
            let _ = writeln!(out, "n{}\tNEG\t{}@decls_in_lib\t{}\t{}\t{}", id, nid, want, esc_line(&oc), esc_line(&all));
            id += 1;
        }
    }
    for (xid, src, wants) in EXTRAS {
        let dir = base.join(format!("x{}", id));
        let outcome = util::compile_text(&dir, src);
        let _ = std::fs::remove_dir_all(&dir);
        let (oc, detail) = match outcome {
            Outcome::Ok(c) => {
                let rep = goscope::check(&c.go, relied());
                let declared: Vec<&String> = rep.toplevel.iter().filter(|(_, k)| *k == "fn").map(|(n, _)| n).collect();
                let mut v = Vec::new();
                for (f, want) in wants.iter() {
                    let refs: Vec<&String> = rep
                        .global_refs
                        .iter()
                        .filter(|(caller, n)| caller == f && (n.contains("trait_impl") || n.contains("inherent") || n.contains("__vtable__")))
                        .map(|(_, n)| n)
                        .collect();
                    let ok = refs.len() == 1 && refs[0].contains(want) && declared.contains(&refs[0]);
                    v.push(l(vec![a(*f), a(*want), a(if ok { "ok" } else { "BAD" }), l(refs.iter().map(|r| a(r.as_str())).collect())]));
                }
                for fl in &rep.failures {
                    v.push(l(vec![a("go-scope"), a(fl.kind), a("BAD"), l(vec![a(&fl.name)])]));
                }
                ("ok".to_string(), l(v))
            }
            Outcome::Err(stage, msgs) => (format!("err:{}:{}", stage, msgs.join(" | ")), l(vec![])),
            Outcome::Panic(m) => (format!("panic:{}", m), l(vec![])),
        };
        let _ = writeln!(out, "x{}\tEXTRA\t{}\t{}\t{}\t{}", id, xid, esc_line(&oc), detail.to_text(), esc_line(src));
        id += 1;
    }
    let _ = std::fs::remove_dir_all(&base);
    std::fs::write(args.out.join("c17.cases.tsv"), out).expect("write");
    println!("receivers={} name_pairs={} negatives={}", recvs.len(), names.len(), NEGATIVES.len());
}
