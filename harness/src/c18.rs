//! C18 — derived ToString / ToJson: generated definitions x values, compiled by the real pipeline.
//!
//! One case = one program: a handful of non-generic struct / enum definitions carrying
//! `#[derive(ToJson, ToString)]`, and a `main` that builds K values and prints first every
//! `to_json()` (one per line) and then every `to_string()`.  The case description (definitions and
//! values, strings as code-point lists) goes to the Lean model; the five stage dumps go to the Lean
//! interpreters.  A second stream holds definitions the derive must reject.
use crate::c01;
use cst::cst::CstNode;
use crate::rng::Rng;
use crate::sexp::{S, a, esc_line, l, n, tagged};
use crate::util::{self, Outcome};
use std::fmt::Write as _;

#[derive(Clone, Debug, PartialEq)]
pub enum FT {
    Unit,
    Bool,
    Int(u32, bool),
    Float(u32),
    Str,
    Named(usize),
}

#[derive(Clone, Debug)]
pub enum Kind {
    Struct(Vec<(String, FT)>),
    Enum(Vec<(String, Vec<FT>)>),
}

#[derive(Clone, Debug)]
pub struct Def {
    pub name: String,
    pub kind: Kind,
    /// the attribute lines written above the item (empty = the plain single derive of the program)
    pub attrs: Vec<String>,
}

/// the language's lexical rule, written independently of the compiler's lexer: outside a string literal `//`
/// starts a comment that runs to the end of the line; comments are not part of any construct (an entry of
/// `Def::attrs` / of the probe catalogue is the attribute as written TOGETHER with the layout that follows it
/// up to the next token, which is what the attribute's syntax node holds)
pub fn spec_strip_comments(text: &str) -> String {
    let mut out = String::new();
    let cs: Vec<char> = text.chars().collect();
    let (mut i, mut in_str) = (0, false);
    while i < cs.len() {
        let c = cs[i];
        if in_str {
            out.push(c);
            if c == '\\' && i + 1 < cs.len() {
                out.push(cs[i + 1]);
                i += 1;
            } else if c == '"' {
                in_str = false;
            }
        } else if c == '"' {
            in_str = true;
            out.push(c);
        } else if c == '/' && cs.get(i + 1) == Some(&'/') {
            while i < cs.len() && cs[i] != '\n' {
                i += 1;
            }
            continue;
        } else {
            out.push(c);
        }
        i += 1;
    }
    out
}

/// what `derive.rs::parse_derive_targets` + `find_derive_attr` are documented to do, written independently:
/// a trait is derived iff SOME attribute of the item is `#[derive(…)]` with a non-empty target list that names it
pub fn spec_derives(attrs: &[String], tr: &str) -> bool {
    attrs.iter().any(|a| {
        let a = spec_strip_comments(a);
        let t = a.trim();
        let Some(inner) = t.strip_prefix("#[").and_then(|x| x.strip_suffix(']')) else { return false };
        let Some(rest) = inner.trim().strip_prefix("derive") else { return false };
        let Some(list) = rest.trim_start().strip_prefix('(').and_then(|x| x.strip_suffix(')')) else { return false };
        list.split(',').map(|x| x.trim()).any(|x| x == tr)
    })
}

/// a random way of writing attributes whose known targets are exactly (json, string)
pub fn spell_attrs(rng: &mut Rng, json: bool, string: bool) -> Vec<String> {
    let noise_attr = ["#[inline]", "#[allow(dead_code)]", "#[foo]", "#[derive()]", "#[derive(Debug)]", "#[derive(Clone, Eq)]", "#![derive(ToJson)]", "#[doc = \"x\"]", "#[derived(ToJson)]", "#[derive]", "#[doc = \"// not a comment\"]"];
    let mut units: Vec<Vec<&str>> = Vec::new(); // each = the targets of one derive attribute
    let known: Vec<&str> = [("ToJson", json), ("ToString", string)].iter().filter(|x| x.1).map(|x| x.0).collect();
    match rng.below(5) {
        0 => units.push(known.clone()),                                   // one attribute, every target
        1 => { let mut k = known.clone(); k.reverse(); units.push(k) }    // … in the other order
        2 => for k in &known { units.push(vec![*k]) },                    // one attribute per target
        3 => { for k in known.iter().rev() { units.push(vec![*k]) } }      // … in the other order
        _ => { for k in &known { units.push(vec![*k]) } units.push(known.clone()); } // duplicates across attributes
    }
    if rng.chance(1, 3) && !units.is_empty() {
        let k = rng.below(units.len());
        let dup = units[k].clone();
        units.insert(rng.below(units.len() + 1), dup); // the same attribute twice
    }
    let mut out: Vec<String> = Vec::new();
    for u in units {
        let mut ts: Vec<String> = u.iter().map(|x| x.to_string()).collect();
        // unknown targets mixed in
        if rng.chance(1, 3) {
            ts.insert(rng.below(ts.len() + 1), rng.pick(&["Debug", "Clone", "Tojson", "to_json", "ToJSON"]).to_string());
        }
        if rng.chance(1, 6) && !ts.is_empty() {
            let d = ts[0].clone();
            ts.push(d); // the same target twice in one attribute
        }
        let text = match rng.below(6) {
            0 => format!("#[derive({})]", ts.join(", ")),
            1 => format!("#[derive({})]", ts.join(",")),
            2 => format!("#[ derive ( {} ) ]", ts.join(" , ")),
            3 => format!("#[derive({},)]", ts.join(", ")),
            // one target per line, each followed by a comment (which may itself look like a target)
            4 => format!("#[derive(\n{})]", ts.iter().map(|t| format!("    {}, // {}\n", t, rng.pick(&["serialise", "ToJson", "ToString, ToJson", ")]"]))).collect::<String>()),
            _ => format!("#[derive( // {}\n    {})]", rng.pick(&["derives", "ToString", "ToJson)]"]), ts.join(", ")),
        };
        out.push(text);
    }
    // non-derive / unknown attributes before, between and after
    for _ in 0..rng.below(3) {
        let pos = rng.below(out.len() + 1);
        out.insert(pos, rng.pick(&noise_attr).to_string());
    }
    // the layout that follows each attribute up to the next token (the attribute's syntax node holds it)
    for a in out.iter_mut() {
        if rng.chance(1, 2) {
            a.push('\n');
        } else {
            a.push_str(LAYOUTS[rng.below(LAYOUTS.len())]);
        }
    }
    debug_assert!(spec_derives(&out, "ToJson") == json && spec_derives(&out, "ToString") == string);
    out
}

/// what may stand between an attribute and the next token: line ends, blanks, the next token on the same
/// line, comments (after the attribute on its line, on lines of their own, looking like attributes or targets)
pub const LAYOUTS: &[&str] = &[
    "\n", " ", "\n\n", " \t\n", " // serialised for the log\n", "\n// a comment line\n", " // a\n// b\n\n", "// glued\n",
    " // ]\n", " // #[derive(ToString)]\n", "\n// #[derive(ToJson)]\n", " // , ToJson)]\n", "\n    // indented\n    ",
];

#[derive(Clone, Debug)]
pub enum V {
    Unit,
    Bool(bool),
    Int(i128),
    /// the f64 the literal denotes (float32 values are chosen exactly representable)
    Float(f64, String),
    Str(String),
    Struct(usize, Vec<V>),
    Enum(usize, usize, Vec<V>),
}

/// field names: ordinary ones, the names the generated code itself uses (`self`, `tag`, `fields`,
/// the helper functions it calls, the methods it defines), Go keywords / predeclared names that are
/// legal goml identifiers, and names shaped like compiler temporaries
const FIELD_NAMES: &[&str] = &[
    "x", "y", "name", "age", "active", "next", "left", "right", "value", "self", "tag", "fields",
    "json_escape_string", "bool_to_json", "to_json", "to_string", "string_println", "int32_to_string",
    "bool_to_string", "unit_to_string", "func", "var", "range", "chan", "map", "default", "select",
    "switch", "case", "interface", "defer", "goto", "const", "len", "append", "nil", "t1", "ret0",
    "mtmp0", "x0", "Self", "fmt", "s", "out", "i", "r",
];
/// the ones that a local binder of that name would capture in the generated body
pub const CAPTURING: &[&str] = &["json_escape_string", "bool_to_json"];
const TYPE_NAMES: &[&str] = &["Point", "Person", "Color", "Shape", "Node", "Tree", "Item", "Pair", "Wrap", "Leaf", "Tag", "Fields", "Json"];
const VARIANT_NAMES: &[&str] = &["Red", "Green", "Blue", "Nil", "Cons", "Some", "None", "Leaf", "Node", "Tag", "Fields", "A", "B", "C", "Self", "Quit", "Move"];

/// code points by escape class (what `%q` / a JSON writer must do with them)
const CP_ASCII: &[u32] = &[0x20, 0x21, 0x2f, 0x30, 0x41, 0x61, 0x7a, 0x7b, 0x7d, 0x5b, 0x5d, 0x2c, 0x3a, 0x27, 0x7e, 0x25];
const CP_QUOTE: &[u32] = &[0x22, 0x5c];
const CP_SHORT: &[u32] = &[0x08, 0x09, 0x0a, 0x0c, 0x0d];
const CP_CTRL: &[u32] = &[0x00, 0x01, 0x07, 0x0b, 0x0e, 0x1b, 0x1f];
const CP_DEL: &[u32] = &[0x7f];
const CP_BMP_PRINT: &[u32] = &[0xe9, 0xdf, 0x3b1, 0x4e2d, 0x20ac, 0xfffd, 0xd7ff, 0xa1];
const CP_BMP_NONPRINT: &[u32] = &[0x80, 0x85, 0x9f, 0xa0, 0xad, 0x200b, 0x2028, 0x2029, 0xfeff, 0xe000, 0xfffe, 0xffff];
const CP_ASTRAL_PRINT: &[u32] = &[0x1f600, 0x10000, 0x1d11e, 0x2a6d6];
const CP_ASTRAL_NONPRINT: &[u32] = &[0xe0001, 0x10ffff, 0xf0000, 0x1fffe];

pub const CLASSES: &[(&str, &[u32])] = &[
    ("ascii", CP_ASCII),
    ("quote-backslash", CP_QUOTE),
    ("short-escape(bfnrt)", CP_SHORT),
    ("c0-control", CP_CTRL),
    ("del", CP_DEL),
    ("bmp-printable", CP_BMP_PRINT),
    ("bmp-nonprintable", CP_BMP_NONPRINT),
    ("astral-printable", CP_ASTRAL_PRINT),
    ("astral-nonprintable", CP_ASTRAL_NONPRINT),
];

pub struct Cfg {
    /// strings use every escape class (otherwise printable ASCII, quote, backslash, \n \t only)
    pub all_strings: bool,
    /// primitive field types other than int32 / bool / string / unit
    pub all_prims: bool,
    /// field names that capture a helper the generated code calls
    pub capturing_names: bool,
    pub floats: bool,
    /// float fields may hold +Inf, -Inf, NaN (computed at run time: `1.0 / fzero()`)
    pub nonfinite: bool,
    pub to_json: bool,
    pub to_string: bool,
}

fn gen_ft(rng: &mut Rng, cfg: &Cfg, allowed_named: &[usize], unit_ok: bool) -> FT {
    let k = rng.below(10);
    if cfg.nonfinite && rng.chance(1, 2) {
        return FT::Float(*rng.pick(&[32u32, 64]));
    }
    if k < 3 && !allowed_named.is_empty() {
        return FT::Named(*rng.pick(allowed_named));
    }
    match rng.below(if cfg.all_prims { 8 } else { 4 }) {
        0 => FT::Int(32, true),
        1 => FT::Str,
        2 => FT::Bool,
        3 => {
            if unit_ok {
                FT::Unit
            } else {
                FT::Str
            }
        }
        4 | 5 => {
            let bits = *rng.pick(&[8u32, 16, 32, 64]);
            FT::Int(bits, rng.chance(1, 2))
        }
        6 if cfg.floats => FT::Float(*rng.pick(&[32u32, 64])),
        _ => FT::Str,
    }
}

pub fn gen_defs(rng: &mut Rng, cfg: &Cfg) -> Vec<Def> {
    let ndefs = 1 + rng.below(4);
    let mut names: Vec<String> = Vec::new();
    while names.len() < ndefs {
        let nm = rng.pick(TYPE_NAMES).to_string();
        if !names.contains(&nm) {
            names.push(nm);
        }
    }
    // decide kinds first so that structs may mention any enum (enums are always inhabited through
    // their first variant, whose payload is primitive)
    let kinds: Vec<bool> = (0..ndefs).map(|_| rng.chance(1, 2)).collect(); // true = enum
    let enums: Vec<usize> = (0..ndefs).filter(|i| kinds[*i]).collect();
    let mut defs = Vec::new();
    for i in 0..ndefs {
        let lower_structs: Vec<usize> = (0..i).filter(|j| !kinds[*j]).collect();
        let mut named: Vec<usize> = lower_structs.clone();
        named.extend(enums.iter().copied());
        // ToString of a unit field needs unit.to_string: only with all_prims
        let unit_ok = cfg.all_prims || !cfg.to_string;
        if kinds[i] {
            let nvar = 1 + rng.below(4);
            let mut vs: Vec<(String, Vec<FT>)> = Vec::new();
            while vs.len() < nvar {
                let vn = rng.pick(VARIANT_NAMES).to_string();
                // a struct spelled like a variant cannot even be constructed (the constructor name wins):
                // that is name resolution's business, not the derive's
                if vs.iter().any(|(m, _)| *m == vn) || names.contains(&vn) {
                    continue;
                }
                let base = vs.is_empty();
                let np = rng.below(4);
                let payload = (0..np).map(|_| gen_ft(rng, cfg, if base { &[] } else { &named }, unit_ok)).collect();
                vs.push((vn, payload));
            }
            defs.push(Def { name: names[i].clone(), kind: Kind::Enum(vs), attrs: Vec::new() });
        } else {
            let nf = rng.below(5);
            let mut fs: Vec<(String, FT)> = Vec::new();
            while fs.len() < nf {
                let f = rng.pick(FIELD_NAMES).to_string();
                if fs.iter().any(|(m, _)| *m == f) {
                    continue;
                }
                if !cfg.capturing_names && CAPTURING.contains(&f.as_str()) {
                    continue;
                }
                let ty = gen_ft(rng, cfg, &named, unit_ok);
                fs.push((f, ty));
            }
            if cfg.capturing_names && !fs.is_empty() {
                // make sure the capture is exercised: a string field named json_escape_string or a bool
                // field named bool_to_json
                let k = rng.below(fs.len());
                if rng.chance(1, 2) {
                    if !fs.iter().any(|(m, _)| m == "json_escape_string") {
                        fs[k] = ("json_escape_string".into(), FT::Str);
                    }
                } else if !fs.iter().any(|(m, _)| m == "bool_to_json") {
                    fs[k] = ("bool_to_json".into(), FT::Bool);
                }
            }
            defs.push(Def { name: names[i].clone(), kind: Kind::Struct(fs), attrs: Vec::new() });
        }
    }
    defs
}

fn gen_string(rng: &mut Rng, cfg: &Cfg, hist: &mut [usize]) -> String {
    let len = rng.below(6);
    let mut s = String::new();
    for _ in 0..len {
        let ci = if cfg.all_strings { rng.below(CLASSES.len()) } else { *rng.pick(&[0usize, 0, 0, 1, 2]) };
        let cp = if cfg.all_strings {
            *rng.pick(CLASSES[ci].1)
        } else {
            match ci {
                0 => *rng.pick(CP_ASCII),
                1 => *rng.pick(CP_QUOTE),
                _ => *rng.pick(&[0x09u32, 0x0a]),
            }
        };
        hist[ci] += 1;
        s.push(char::from_u32(cp).unwrap());
    }
    s
}

const F64S: &[(f64, &str)] = &[
    (0.0, "0.0"), (1.0, "1.0"), (1.5, "1.5"), (0.25, "0.25"), (100.0, "100.0"), (0.1, "0.1"), (3.14159, "3.14159"),
    (1000000.0, "1000000.0"), (123456789.0, "123456789.0"), (0.00001, "0.00001"), (0.0001, "0.0001"),
    (1e21, "1000000000000000000000.0"), (1e20, "100000000000000000000.0"), (2.5e-7, "0.00000025"), (16777217.0, "16777217.0"),
];
const F32S: &[(f64, &str)] = &[(0.0, "0.0"), (1.0, "1.0"), (1.5, "1.5"), (0.25, "0.25"), (100.0, "100.0"), (0.1, "0.1"), (1000000.0, "1000000.0"), (16777216.0, "16777216.0"), (3.14159, "3.14159")];

pub fn gen_val(rng: &mut Rng, cfg: &Cfg, defs: &[Def], t: &FT, depth: usize, hist: &mut [usize]) -> V {
    match t {
        FT::Unit => V::Unit,
        FT::Bool => V::Bool(rng.chance(1, 2)),
        FT::Int(bits, signed) => {
            let (lo, hi): (i128, i128) = if *signed { (-(1i128 << (bits - 1)) + 1, (1i128 << (bits - 1)) - 1) } else { (0, (1i128 << bits) - 1) };
            let v = match rng.below(6) {
                0 => lo,
                1 => hi,
                2 => 0,
                3 => {
                    if *signed {
                        -1
                    } else {
                        1
                    }
                }
                _ => (rng.below(2000) as i128 - if *signed { 1000 } else { 0 }).clamp(lo, hi),
            };
            V::Int(v)
        }
        FT::Float(bits) => {
            if cfg.nonfinite && rng.chance(2, 3) {
                let (z, one) = if *bits == 32 { ("fzero32()", "1.0f32") } else { ("fzero()", "1.0") };
                return match rng.below(3) {
                    0 => V::Float(f64::INFINITY, format!("({} / {})", one, z)),
                    1 => V::Float(f64::NEG_INFINITY, format!("((-{}) / {})", one, z)),
                    _ => V::Float(f64::NAN, format!("({} / {})", z, z)),
                };
            }
            let (x, lit) = *rng.pick(if *bits == 32 { F32S } else { F64S });
            let neg = rng.chance(1, 4) && x != 0.0;
            V::Float(if neg { -x } else { x }, format!("{}{}{}", if neg { "-" } else { "" }, lit, if *bits == 32 { "f32" } else { "" }))
        }
        FT::Str => V::Str(gen_string(rng, cfg, hist)),
        FT::Named(i) => match &defs[*i].kind {
            Kind::Struct(fs) => V::Struct(*i, fs.iter().map(|(_, ft)| gen_val(rng, cfg, defs, ft, depth.saturating_sub(1), hist)).collect()),
            Kind::Enum(vs) => {
                let k = if depth == 0 { 0 } else { rng.below(vs.len()) };
                V::Enum(*i, k, vs[k].1.iter().map(|ft| gen_val(rng, cfg, defs, ft, depth.saturating_sub(1), hist)).collect())
            }
        },
    }
}

fn ft_src(defs: &[Def], t: &FT) -> String {
    match t {
        FT::Unit => "unit".into(),
        FT::Bool => "bool".into(),
        FT::Int(b, s) => format!("{}int{}", if *s { "" } else { "u" }, b),
        FT::Float(b) => format!("float{}", b),
        FT::Str => "string".into(),
        FT::Named(i) => defs[*i].name.clone(),
    }
}

/// a goml string literal for `s`: printable ASCII raw, the short escapes, everything else `\uXXXX`
/// (surrogate pairs above the BMP); printable non-ASCII is written raw half of the time
pub fn str_lit(rng: &mut Rng, s: &str) -> String {
    let mut out = String::from("\"");
    for c in s.chars() {
        match c {
            '"' => out.push_str("\\\""),
            '\\' => out.push_str("\\\\"),
            '\n' => out.push_str("\\n"),
            '\t' => out.push_str("\\t"),
            '\r' => out.push_str("\\r"),
            '\u{8}' => out.push_str("\\b"),
            '\u{c}' => out.push_str("\\f"),
            '/' if rng.chance(1, 2) => out.push_str("\\/"),
            c if (' '..='~').contains(&c) => out.push(c),
            c if (c as u32) >= 0x7f && rng.chance(1, 2) => out.push(c),
            c => {
                let cp = c as u32;
                if cp < 0x10000 {
                    write!(out, "\\u{:04x}", cp).unwrap();
                } else {
                    let v = cp - 0x10000;
                    write!(out, "\\u{:04x}\\u{:04X}", 0xd800 + (v >> 10), 0xdc00 + (v & 0x3ff)).unwrap();
                }
            }
        }
    }
    out.push('"');
    out
}

fn val_src(rng: &mut Rng, defs: &[Def], t: &FT, v: &V) -> String {
    match (t, v) {
        (_, V::Unit) => "()".into(),
        (_, V::Bool(b)) => b.to_string(),
        (FT::Int(bits, signed), V::Int(x)) => {
            let suf = format!("{}{}", if *signed { "i" } else { "u" }, bits);
            if *x < 0 { format!("(-{}{})", -x, suf) } else { format!("{}{}", x, suf) }
        }
        (_, V::Float(_, lit)) => {
            if lit.starts_with('(') {
                lit.clone()
            } else if let Some(rest) = lit.strip_prefix('-') {
                format!("(-{})", rest)
            } else {
                lit.clone()
            }
        }
        (_, V::Str(s)) => str_lit(rng, s),
        (_, V::Struct(i, vs)) => {
            let Kind::Struct(fs) = &defs[*i].kind else { unreachable!() };
            if fs.is_empty() {
                return format!("{} {{}}", defs[*i].name);
            }
            let items: Vec<String> = fs.iter().zip(vs).map(|((f, ft), v)| format!("{}: {}", f, val_src(rng, defs, ft, v))).collect();
            format!("{} {{ {} }}", defs[*i].name, items.join(", "))
        }
        (_, V::Enum(i, k, vs)) => {
            let Kind::Enum(vars) = &defs[*i].kind else { unreachable!() };
            let (vn, pts) = &vars[*k];
            if pts.is_empty() {
                format!("{}::{}", defs[*i].name, vn)
            } else {
                let items: Vec<String> = pts.iter().zip(vs).map(|(ft, v)| val_src(rng, defs, ft, v)).collect();
                format!("{}::{}({})", defs[*i].name, vn, items.join(", "))
            }
        }
        _ => unreachable!(),
    }
}

pub fn program_src(rng: &mut Rng, cfg: &Cfg, defs: &[Def], vals: &[(usize, V)]) -> String {
    let mut src = String::new();
    let attr = match (cfg.to_json, cfg.to_string) {
        (true, true) => "#[derive(ToJson, ToString)]",
        (true, false) => "#[derive(ToJson)]",
        _ => "#[derive(ToString)]",
    };
    for d in defs {
        if d.attrs.is_empty() {
            writeln!(src, "{}", attr).unwrap();
        } else {
            for a in &d.attrs {
                write!(src, "{}", a).unwrap();
            }
        }
        match &d.kind {
            Kind::Struct(fs) => {
                writeln!(src, "struct {} {{", d.name).unwrap();
                for (f, t) in fs {
                    writeln!(src, "    {}: {},", f, ft_src(defs, t)).unwrap();
                }
                writeln!(src, "}}\n").unwrap();
            }
            Kind::Enum(vs) => {
                writeln!(src, "enum {} {{", d.name).unwrap();
                for (vn, pts) in vs {
                    if pts.is_empty() {
                        writeln!(src, "    {},", vn).unwrap();
                    } else {
                        writeln!(src, "    {}({}),", vn, pts.iter().map(|t| ft_src(defs, t)).collect::<Vec<_>>().join(", ")).unwrap();
                    }
                }
                writeln!(src, "}}\n").unwrap();
            }
        }
    }
    if cfg.nonfinite {
        writeln!(src, "fn fzero() -> float64 {{ 0.0 }}\nfn fzero32() -> float32 {{ 0.0f32 }}\n").unwrap();
    }
    writeln!(src, "fn main() -> unit {{").unwrap();
    for (k, (i, v)) in vals.iter().enumerate() {
        writeln!(src, "    let v{} = {};", k, val_src(rng, defs, &FT::Named(*i), v)).unwrap();
    }
    if cfg.to_json {
        for k in 0..vals.len() {
            writeln!(src, "    string_println(v{}.to_json());", k).unwrap();
        }
    }
    if cfg.to_string {
        for k in 0..vals.len() {
            writeln!(src, "    string_println(v{}.to_string());", k).unwrap();
        }
    }
    writeln!(src, "}}").unwrap();
    src
}

fn ft_sexp(defs: &[Def], t: &FT) -> S {
    match t {
        FT::Unit => a("unit"),
        FT::Bool => a("bool"),
        FT::Int(b, s) => tagged("int", vec![n(b), a(if *s { "s" } else { "u" })]),
        FT::Float(b) => tagged("float", vec![n(b)]),
        FT::Str => a("string"),
        FT::Named(i) => tagged("named", vec![a(&defs[*i].name)]),
    }
}

fn val_sexp(defs: &[Def], v: &V) -> S {
    match v {
        V::Unit => a("unit"),
        V::Bool(b) => tagged("bool", vec![a(b.to_string())]),
        V::Int(x) => tagged("int", vec![n(x)]),
        V::Float(x, lit) => tagged("float", vec![n(if lit.contains("f32") || lit.contains("fzero32") { 32 } else { 64 }), n(x.to_bits())]),
        V::Str(s) => tagged("str", s.chars().map(|c| n(c as u32)).collect()),
        V::Struct(i, vs) => {
            let mut items = vec![a(&defs[*i].name)];
            items.extend(vs.iter().map(|v| val_sexp(defs, v)));
            tagged("struct", items)
        }
        V::Enum(i, k, vs) => {
            let mut items = vec![a(&defs[*i].name), n(k)];
            items.extend(vs.iter().map(|v| val_sexp(defs, v)));
            tagged("enum", items)
        }
    }
}

pub fn case_sexp(cfg: &Cfg, defs: &[Def], vals: &[(usize, V)]) -> S {
    let ds: Vec<S> = defs
        .iter()
        .map(|d| match &d.kind {
            Kind::Struct(fs) => {
                let mut items = vec![a(&d.name)];
                items.extend(fs.iter().map(|(f, t)| l(vec![a(f), ft_sexp(defs, t)])));
                tagged("struct", items)
            }
            Kind::Enum(vs) => {
                let mut items = vec![a(&d.name)];
                items.extend(vs.iter().map(|(vn, pts)| {
                    let mut it = vec![a(vn)];
                    it.extend(pts.iter().map(|t| ft_sexp(defs, t)));
                    l(it)
                }));
                tagged("enum", items)
            }
        })
        .collect();
    let vs: Vec<S> = vals.iter().map(|(i, v)| l(vec![a(&defs[*i].name), val_sexp(defs, v)])).collect();
    tagged(
        "case",
        vec![
            tagged("derive", vec![a(if cfg.to_json { "json" } else { "nojson" }), a(if cfg.to_string { "string" } else { "nostring" })]),
            tagged("defs", ds),
            tagged("vals", vs),
            tagged("attrs", defs.iter().filter(|d| !d.attrs.is_empty()).map(|d| { let mut it = vec![a(&d.name)]; it.extend(d.attrs.iter().map(|x| S::A(x.clone()))); l(it) }).collect()),
        ],
    )
}

/// Go's `%g` with the shortest precision, from Rust's own shortest digits (an implementation
/// independent of the Lean one in Sem.showFloat)
pub fn go_g(x: f64, bits: u32) -> String {
    if x.is_nan() {
        return "NaN".into();
    }
    if x.is_infinite() {
        return if x > 0.0 { "+Inf".into() } else { "-Inf".into() };
    }
    let e = if bits == 32 { format!("{:e}", x as f32) } else { format!("{:e}", x) };
    let (neg, e) = match e.strip_prefix('-') {
        Some(r) => (true, r.to_string()),
        None => (false, e),
    };
    let (mant, exp) = e.split_once('e').unwrap();
    let exp: i32 = exp.parse().unwrap();
    let digits: String = mant.chars().filter(|c| *c != '.').collect();
    let nd = digits.len() as i32;
    let mut out = String::new();
    if neg {
        out.push('-');
    }
    if digits == "0" {
        out.push('0');
        return out;
    }
    // strconv: with the shortest precision the %e form is chosen when exp < -4 || exp >= 6
    if exp < -4 || exp >= 6 {
        // %e form: d.ddde±XX
        out.push_str(&digits[..1]);
        if nd > 1 {
            out.push('.');
            out.push_str(&digits[1..]);
        }
        out.push('e');
        out.push(if exp < 0 { '-' } else { '+' });
        let a = exp.abs();
        if a < 10 {
            out.push('0');
        }
        out.push_str(&a.to_string());
    } else if exp < 0 {
        out.push_str("0.");
        for _ in 0..(-exp - 1) {
            out.push('0');
        }
        out.push_str(&digits);
    } else {
        let dp = (exp + 1) as usize;
        if digits.len() <= dp {
            out.push_str(&digits);
            for _ in 0..(dp - digits.len()) {
                out.push('0');
            }
        } else {
            out.push_str(&digits[..dp]);
            out.push('.');
            out.push_str(&digits[dp..]);
        }
    }
    out
}

/// the JSON text the property asks for, written declaratively (serde_json escapes the strings)
fn spec_json(defs: &[Def], t: &FT, v: &V) -> String {
    match (t, v) {
        (_, V::Unit) => "null".into(),
        (_, V::Bool(b)) => b.to_string(),
        (_, V::Int(x)) => x.to_string(),
        (FT::Float(32), V::Float(x, _)) => format!("{}", *x as f32),
        (_, V::Float(x, _)) => format!("{}", x),
        (_, V::Str(s)) => serde_json::to_string(s).unwrap(),
        (_, V::Struct(i, vs)) => {
            let Kind::Struct(fs) = &defs[*i].kind else { unreachable!() };
            let items: Vec<String> = fs.iter().zip(vs).map(|((f, ft), v)| format!("{}: {}", serde_json::to_string(f).unwrap(), spec_json(defs, ft, v))).collect();
            format!("{{ {} }}", items.join(" , "))
        }
        (_, V::Enum(i, k, vs)) => {
            let Kind::Enum(vars) = &defs[*i].kind else { unreachable!() };
            let (vn, pts) = &vars[*k];
            if pts.is_empty() {
                format!("{{\"tag\": {}}}", serde_json::to_string(vn).unwrap())
            } else {
                let items: Vec<String> = pts.iter().zip(vs).map(|(ft, v)| spec_json(defs, ft, v)).collect();
                format!("{{\"tag\": {}, \"fields\": [{}]}}", serde_json::to_string(vn).unwrap(), items.join(", "))
            }
        }
    }
}

/// the `Name { f: v }` / `Enum::Variant(v)` rendering, written with `join`
fn spec_string(defs: &[Def], t: &FT, v: &V) -> String {
    match (t, v) {
        (_, V::Unit) => "()".into(),
        (_, V::Bool(b)) => b.to_string(),
        (_, V::Int(x)) => x.to_string(),
        (FT::Float(b), V::Float(x, _)) => go_g(*x, *b),
        (_, V::Float(x, _)) => go_g(*x, 64),
        (_, V::Str(s)) => s.clone(),
        (_, V::Struct(i, vs)) => {
            let Kind::Struct(fs) = &defs[*i].kind else { unreachable!() };
            if fs.is_empty() {
                return format!("{} {{}}", defs[*i].name);
            }
            let items: Vec<String> = fs.iter().zip(vs).map(|((f, ft), v)| format!("{}: {}", f, spec_string(defs, ft, v))).collect();
            format!("{} {{ {} }}", defs[*i].name, items.join(", "))
        }
        (_, V::Enum(i, k, vs)) => {
            let Kind::Enum(vars) = &defs[*i].kind else { unreachable!() };
            let (vn, pts) = &vars[*k];
            if pts.is_empty() {
                format!("{}::{}", defs[*i].name, vn)
            } else {
                let items: Vec<String> = pts.iter().zip(vs).map(|(ft, v)| spec_string(defs, ft, v)).collect();
                format!("{}::{}({})", defs[*i].name, vn, items.join(", "))
            }
        }
    }
}

// ---- the real derive output, serialised in the shape of the Lean `GMethod`
fn gexpr(e: &ast::ast::Expr) -> S {
    use ast::ast::Expr;
    match e {
        Expr::EString { value, .. } => tagged("lit", vec![S::A(value.clone())]),
        Expr::EPath { path, .. } if path.segments.len() == 1 => tagged("var", vec![a(&path.segments[0].ident.0)]),
        Expr::ECall { func, args, .. } => match (&**func, args.as_slice()) {
            (Expr::EPath { path, .. }, [arg]) if path.segments.len() == 1 => tagged("callfn", vec![a(&path.segments[0].ident.0), gexpr(arg)]),
            (Expr::EField { expr, field, .. }, []) => tagged("callm", vec![gexpr(expr), a(&field.0)]),
            _ => a("?call"),
        },
        Expr::EBinary { op: common_defs::BinaryOp::Add, lhs, rhs, .. } => tagged("concat", vec![gexpr(lhs), gexpr(rhs)]),
        _ => a("?expr"),
    }
}

fn pvars(ps: &[ast::ast::Pat]) -> Vec<S> {
    ps.iter().map(|p| if let ast::ast::Pat::PVar { name, .. } = p { a(&name.0) } else { a("?pat") }).collect()
}

fn garm(path: Vec<S>, fields: Vec<S>, binders: Vec<S>, body: &ast::ast::Expr) -> S {
    tagged("arm", vec![l(path), l(fields), l(binders), gexpr(body)])
}

fn gmethod(f: &ast::ast::Fn) -> S {
    use ast::ast::{Expr, Pat};
    let params: Vec<S> = f.params.iter().map(|(p, _)| a(&p.0)).collect();
    let arms: Vec<S> = match &f.body {
        Expr::EBlock { exprs, .. } => match exprs.as_slice() {
            [Expr::ELet { pat: Pat::PStruct { name, fields, .. }, value, annotation: None, .. }, body] => {
                let scrut_ok = matches!(&**value, Expr::EPath { path, .. } if path.segments.len() == 1 && Some(&path.segments[0].ident.0) == f.params.first().map(|p| &p.0.0));
                vec![garm(
                    name.segments.iter().map(|s| a(&s.ident.0)).collect(),
                    fields.iter().map(|(n, _)| a(&n.0)).collect(),
                    pvars(&fields.iter().map(|(_, p)| p.clone()).collect::<Vec<_>>()),
                    if scrut_ok { body } else { &f.body },
                )]
            }
            _ => vec![a("?block")],
        },
        Expr::EMatch { expr, arms, .. } => {
            let scrut_ok = matches!(&**expr, Expr::EPath { path, .. } if path.segments.len() == 1 && Some(&path.segments[0].ident.0) == f.params.first().map(|p| &p.0.0));
            if !scrut_ok {
                vec![a("?scrutinee")]
            } else {
                arms.iter()
                    .map(|arm| match &arm.pat {
                        Pat::PConstr { constructor, args, .. } => garm(constructor.segments.iter().map(|s| a(&s.ident.0)).collect(), vec![], pvars(args), &arm.body),
                        _ => a("?armpat"),
                    })
                    .collect()
            }
        }
        // a struct without fields: the body is the literal itself
        lit @ Expr::EString { .. } => vec![garm(vec![], vec![], vec![], lit)],
        _ => vec![a("?body")],
    };
    let mut items = vec![a(&f.name.0), l(params), a(if matches!(f.ret_ty, Some(ast::ast::TypeExpr::TString)) { "string" } else { "?ret" })];
    items.extend(arms);
    tagged("method", items)
}

/// every impl block `derive::expand` appended, in order (the generated programs contain no impl of their own)
fn derived_impls(src: &str) -> Option<S> {
    let path = std::path::Path::new("main.gom");
    let parsed = parser::parse(path, src);
    if parsed.has_errors() {
        return None;
    }
    let root = parser::syntax::MySyntaxNode::new_root(parsed.green_node);
    let cst = cst::cst::File::cast(root)?;
    let file = ast::lower::lower(cst).into_result().ok()?;
    let expanded = std::panic::catch_unwind(std::panic::AssertUnwindSafe(|| compiler::derive::expand(file))).ok()?.ok()?;
    let mut impls = Vec::new();
    for item in &expanded.toplevels {
        if let ast::ast::Item::ImplBlock(b) = item {
            let ty = match &b.for_type {
                ast::ast::TypeExpr::TCon { path } if path.segments.len() == 1 => path.segments[0].ident.0.clone(),
                _ => "?type".into(),
            };
            let plain = b.attrs.is_empty() && b.generics.is_empty() && b.trait_name.is_none();
            let mut items = vec![a(if plain { ty } else { format!("?impl:{}", ty) })];
            items.extend(b.methods.iter().map(gmethod));
            impls.push(tagged("impl", items));
        }
    }
    Some(tagged("derived", impls))
}

/// the attribute surface, exhaustively over a catalogue: for every way of writing the attributes of an
/// item (struct / enum) four probe programs call to_json / to_string on a value of it and on a value of
/// an enclosing type that derives the same trait; each must be accepted iff the union of the known
/// targets of the item's derive attributes contains the trait, and print the expected text
pub fn attr_probe_cases() -> Vec<(String, String, bool, String, S)> {
    let j = "#[derive(ToJson)]";
    let t = "#[derive(ToString)]";
    let catalogue: Vec<Vec<&str>> = vec![
        vec![j], vec![t], vec!["#[derive(ToJson, ToString)]"], vec!["#[derive(ToString, ToJson)]"],
        vec![j, t], vec![t, j], vec![j, j], vec![t, t], vec![j, t, j], vec![t, j, t], vec![t, t, j], vec![j, j, t],
        vec!["#[derive(ToJson, ToString)]", j], vec![t, "#[derive(ToString, ToJson)]"],
        vec!["#[foo]", j], vec![j, "#[foo]"], vec![t, "#[foo]", j], vec!["#[foo]", t, "#[bar(baz)]", j, "#[inline]"],
        vec!["#[derive(Debug)]", j], vec![j, "#[derive(Debug)]"], vec!["#[derive(Debug)]", t, j], vec!["#[derive(Debug, ToJson)]"],
        vec!["#[derive(ToJson, Debug)]"], vec!["#[derive(Debug, ToString)]", "#[derive(Clone, ToJson)]"], vec!["#[derive(Debug)]"],
        vec!["#[derive()]"], vec!["#[derive()]", j], vec![t, "#[derive()]"], vec!["#[derive()]", "#[derive()]", t, j],
        vec!["#[derive]", j], vec!["#[derive(tojson)]"], vec!["#[derive(ToJson ToString)]"], vec!["#[derive(ToJson,,ToString,)]"],
        vec!["#[ derive ( ToString , ToJson ) ]"], vec!["#![derive(ToJson)]"], vec!["#![derive(ToJson)]", t], vec!["#[derived(ToJson)]", t],
        vec!["#[derive(ToJson)(ToString)]"], vec!["#[derive[ToJson]]"], vec![],
    ];
    // an entry = each attribute as written TOGETHER with the layout up to the next token; the first block is the
    // catalogue above with every attribute on its own line, then (a) a core of attribute lists under every layout
    // of LAYOUTS, (b) attributes with comments between their own tokens
    let mut entries: Vec<Vec<String>> = catalogue.iter().map(|attrs| attrs.iter().map(|x| format!("{}\n", x)).collect()).collect();
    let jt = "#[derive(ToJson, ToString)]";
    let core: Vec<Vec<&str>> = vec![vec![j], vec![t], vec![jt], vec![j, t], vec!["#[foo]", j], vec![t, "#[foo]"], vec!["#[derive(Debug)]"], vec!["#[foo]"]];
    for attrs in &core {
        for lay in LAYOUTS.iter().filter(|x| **x != "\n") {
            entries.push(attrs.iter().map(|x| format!("{}{}", x, lay)).collect());
        }
    }
    let inner: Vec<Vec<&str>> = vec![
        vec!["#[derive(ToJson, // json\n    ToString)]\n"], vec!["#[derive( // everything\n    ToJson,\n    ToString,\n)]\n"], vec!["#[derive(ToJson // , ToString\n)]\n"],
        vec!["#[derive(ToString, // ToJson\n)]\n"], vec!["#[ // c\n derive(ToJson)]\n"], vec!["#[derive // c\n (ToString)]\n"], vec!["#[derive(ToJson) // c\n]\n"],
        vec!["#[derive(ToJson, // )]\n ToString)]\n"], vec!["#[doc = \"// not a comment\"] ", "#[derive(ToJson)]\n"], vec!["#[doc = \"a\\\"// b\"]\n", "#[derive(ToString)] // c\n"],
    ];
    entries.extend(inner.iter().map(|e| e.iter().map(|x| x.to_string()).collect::<Vec<String>>()));
    let n_plain = catalogue.len();
    let mut v = Vec::new();
    for (ci, owned) in entries.iter().enumerate() {
        let owned: Vec<String> = owned.clone();
        for kind in ["struct", "enum"] {
            let (item, value, vj, vs) = if kind == "struct" {
                ("struct In {\n    s: string,\n    n: int32,\n}\n", "In { s: \"a\\\"b\", n: (-3) }", "{\"s\":\"a\\\"b\",\"n\":-3}".to_string(), "In { s: a\"b, n: -3 }".to_string())
            } else {
                ("enum In {\n    A,\n    B(int32, string),\n}\n", "In::B(7, \"q\")", "{\"tag\":\"B\",\"fields\":[7,\"q\"]}".to_string(), "In::B(7, q)".to_string())
            };
            for (tr, method, direct) in [("ToJson", "to_json", &vj), ("ToString", "to_string", &vs)] {
                let has = spec_derives(&owned, tr);
                let attr_text: String = owned.concat();
                // (1) the method on a value of the item
                let src = format!("{}{}\nfn main() -> unit {{\n    let v = {};\n    string_println(v.{}())\n}}\n", attr_text, item, value, method);
                let probe = tagged("attrprobe", owned.iter().map(|x| S::A(x.clone())).collect());
                v.push((format!("attr:{}:{}:{}:direct", ci, kind, method), src, has, format!("{}\n", direct), probe.clone()));
                // (2) the method of an enclosing derived type, whose generated body calls the item's
                //     (for the plain catalogue and the comment-inside entries; the layout block is (1) only)
                if ci >= n_plain && ci < n_plain + core.len() * (LAYOUTS.len() - 1) {
                    continue;
                }
                let outer = if tr == "ToJson" { format!("{{\"i\":{},\"k\":1}}", vj) } else { format!("Out {{ i: {}, k: 1 }}", vs) };
                let src = format!("{}{}\n#[derive({})]\nstruct Out {{\n    i: In,\n    k: int32,\n}}\n\nfn main() -> unit {{\n    let v = Out {{ i: {}, k: 1 }};\n    string_println(v.{}())\n}}\n", attr_text, item, tr, value, method);
                v.push((format!("attr:{}:{}:{}:nested", ci, kind, method), src, has, format!("{}\n", outer), probe));
            }
        }
    }
    v
}

fn collect_callfns(s: &S, out: &mut Vec<String>) {
    if let S::L(items) = s {
        if let [S::A(tag), S::A(name), ..] = items.as_slice() {
            if tag == "callfn" && !out.contains(name) {
                out.push(name.clone());
            }
        }
        for it in items {
            collect_callfns(it, out);
        }
    }
}

/// every function the REAL generated code calls by its bare name, per derived method and leaf type: one
/// definition per primitive type goes through the real `parser -> lower -> derive::expand`, the names are
/// read off the impl blocks it appended (nothing here lists the helpers)
pub fn called_helpers() -> Vec<(String, String, FT)> {
    let mut prims = vec![FT::Unit, FT::Bool, FT::Str, FT::Float(32), FT::Float(64)];
    for b in [8u32, 16, 32, 64] {
        prims.push(FT::Int(b, true));
        prims.push(FT::Int(b, false));
    }
    let mut v = Vec::new();
    for ft in prims {
        let src = format!("#[derive(ToJson, ToString)]\nstruct In {{\n    f: {},\n}}\n", ft_src(&[], &ft));
        let Some(S::L(impls)) = derived_impls(&src) else { continue };
        for imp in &impls {
            let S::L(items) = imp else { continue };
            for m in items.iter().skip(2) {
                let S::L(mi) = m else { continue };
                let Some(S::A(method)) = mi.get(1) else { continue };
                let mut names = Vec::new();
                collect_callfns(m, &mut names);
                for h in names {
                    v.push((method.clone(), h, ft.clone()));
                }
            }
        }
    }
    v
}

/// hygiene of the generated code against the PACKAGE it is expanded in: for every (derived method, helper it
/// calls, leaf type) a two-package project whose library package defines the derived type next to a function
/// of the package that is spelled like the helper (same signature / another signature), plus two controls (no
/// such function; a function whose name merely starts like the helper). `Lib::show()` returns the derived
/// method's text for one value; Main prints it. Expected: the text of the declarative writers.
/// (id, files, expected stdout, method, helper, shape)
pub fn helper_capture_cases(thorough: bool) -> Vec<(String, Vec<(String, String)>, String, String, String, String, String)> {
    let mut v = Vec::new();
    let mut rng = Rng::new(0xC18);
    for (k, (method, helper, ft)) in called_helpers().into_iter().enumerate() {
        let val = match &ft {
            FT::Unit => V::Unit,
            FT::Bool => V::Bool(true),
            FT::Int(_, s) => V::Int(if *s { -7 } else { 7 }),
            FT::Float(b) => V::Float(1.5, if *b == 32 { "1.5f32".into() } else { "1.5".into() }),
            _ => V::Str("a\"b\\c".into()),
        };
        for (ki, kind) in ["struct", "enum"].iter().enumerate() {
            if !thorough && (k + ki) % 2 == 1 {
                continue;
            }
            let def = Def {
                name: "In".into(),
                kind: if *kind == "struct" { Kind::Struct(vec![("f".into(), ft.clone())]) } else { Kind::Enum(vec![("A".into(), vec![]), ("B".into(), vec![FT::Int(32, true), ft.clone()])]) },
                attrs: Vec::new(),
            };
            let defs = vec![def];
            let value = if *kind == "struct" { V::Struct(0, vec![val.clone()]) } else { V::Enum(0, 1, vec![V::Int(3), val.clone()]) };
            let cfg = Cfg { all_strings: false, all_prims: true, capturing_names: false, floats: true, nonfinite: false, to_json: method == "to_json", to_string: method == "to_string" };
            let item = program_src(&mut rng, &cfg, &defs, &[]);
            let item = &item[..item.find("fn main()").unwrap_or(item.len())];
            let want = if method == "to_json" { spec_json(&defs, &FT::Named(0), &value) } else { spec_string(&defs, &FT::Named(0), &value) };
            let tsrc = ft_src(&defs, &ft);
            for shape in ["same-signature", "other-signature", "control-absent", "control-longer-name"] {
                let userfn = match shape {
                    "same-signature" => format!("fn {}(x: {}) -> string {{\n    \"captured\"\n}}\n\n", helper, tsrc),
                    "other-signature" => format!("fn {}() -> int32 {{\n    0\n}}\n\n", helper),
                    "control-longer-name" => format!("fn {}_of(x: {}) -> string {{\n    \"captured\"\n}}\n\n", helper, tsrc),
                    _ => String::new(),
                };
                let lib = format!("package Lib\n\n{}{}fn show() -> string {{\n    {}.{}()\n}}\n", userfn, item, val_src(&mut rng, &defs, &FT::Named(0), &value), method);
                let main = "package Main\nimport Lib\n\nfn main() -> unit {\n    string_println(Lib::show())\n}\n".to_string();
                v.push((
                    format!("helper:{}:{}:{}:{}:{}", method, helper, tsrc, kind, shape),
                    vec![("Lib/lib.gom".to_string(), lib), ("main.gom".to_string(), main)],
                    format!("{}\n", want),
                    method.clone(),
                    helper.clone(),
                    shape.to_string(),
                    case_sexp(&cfg, &defs, &[]).to_text(),
                ));
            }
        }
    }
    v
}

/// a project of several files in a directory of its own; the entry is `main.gom`
fn emit_project(id: &str, dir: &std::path::Path, files: &[(String, String)], out: &mut String) {
    let _ = std::fs::remove_dir_all(dir);
    let mut all = String::new();
    for (rel, text) in files {
        let p = dir.join(rel);
        let _ = std::fs::create_dir_all(p.parent().unwrap());
        let _ = std::fs::write(&p, text);
        write!(all, "// ---- {}\n{}", rel, text).unwrap();
    }
    writeln!(out, "{}\tSRC\t{}", id, esc_line(&all)).unwrap();
    let entry = dir.join("main.gom");
    let src = std::fs::read_to_string(&entry).unwrap_or_default();
    match util::compile_path(&entry, &src) {
        Outcome::Ok(c) => c01::dump_case(id, &c, out),
        Outcome::Err(stage, msgs) => writeln!(out, "{}\tREJECT\t{}\t{}", id, stage, esc_line(&msgs.join(" | "))).unwrap(),
        Outcome::Panic(m) => writeln!(out, "{}\tPANIC\t{}", id, esc_line(&m)).unwrap(),
    }
}

fn emit(id: &str, dir: &std::path::Path, src: &str, out: &mut String) {
    writeln!(out, "{}\tSRC\t{}", id, esc_line(src)).unwrap();
    match util::compile_text(dir, src) {
        Outcome::Ok(c) => c01::dump_case(id, &c, out),
        Outcome::Err(stage, msgs) => writeln!(out, "{}\tREJECT\t{}\t{}", id, stage, esc_line(&msgs.join(" | "))).unwrap(),
        Outcome::Panic(m) => writeln!(out, "{}\tPANIC\t{}", id, esc_line(&m)).unwrap(),
    }
}

/// definitions the derive cannot handle: must be rejected with a diagnostic in `lower` (where the
/// derive runs) or `typer`, never accepted, never fail later, never panic
fn reject_cases() -> Vec<(&'static str, String)> {
    let mut v = Vec::new();
    for (d, tr) in [("ToJson", "to_json"), ("ToString", "to_string")] {
        let use_ = format!("fn main() -> unit {{ () }}");
        v.push(("generic-struct", format!("#[derive({d})]\nstruct S[T] {{ x: T }}\n{use_}")));
        v.push(("generic-enum", format!("#[derive({d})]\nenum E[T] {{ A(T), B }}\n{use_}")));
        v.push(("fn-field", format!("#[derive({d})]\nstruct S {{ f: (int32) -> int32 }}\n{use_}")));
        v.push(("tuple-field", format!("#[derive({d})]\nstruct S {{ f: (int32, bool) }}\n{use_}")));
        v.push(("array-field", format!("#[derive({d})]\nstruct S {{ f: [int32; 2] }}\n{use_}")));
        v.push(("vec-field", format!("#[derive({d})]\nstruct S {{ f: Vec[int32] }}\n{use_}")));
        v.push(("ref-field", format!("#[derive({d})]\nstruct S {{ f: Ref[int32] }}\n{use_}")));
        v.push(("fn-payload", format!("#[derive({d})]\nenum E {{ A((int32) -> int32), B }}\n{use_}")));
        v.push(("tuple-payload", format!("#[derive({d})]\nenum E {{ A((int32, string)), B }}\n{use_}")));
        v.push(("underived-field", format!("struct P {{ x: int32 }}\n#[derive({d})]\nstruct S {{ p: P }}\n{use_}")));
        v.push(("underived-payload", format!("enum P {{ X }}\n#[derive({d})]\nenum E {{ A(P) }}\n{use_}")));
        v.push(("generic-instance-field", format!("enum Opt[T] {{ Non, Som(T) }}\n#[derive({d})]\nstruct S {{ p: Opt[int32] }}\n{use_}")));
        v.push(("dyn-field", format!("trait Tr {{ fn m(Self) -> int32; }}\n#[derive({d})]\nstruct S {{ p: dyn Tr }}\n{use_}")));
        v.push(("unknown-field-type", format!("#[derive({d})]\nstruct S {{ p: Nope }}\n{use_}")));
        v.push((
            "other-derive-only",
            format!(
                "#[derive({other})]\nstruct P {{ x: int32 }}\n#[derive({d})]\nstruct S {{ p: P }}\n{use_}",
                other = if d == "ToJson" { "ToString" } else { "ToJson" }
            ),
        ));
        v.push(("duplicate-variant", format!("#[derive({d})]\nenum E {{ A, A(int32) }}\n{use_}")));
        v.push(("duplicate-field", format!("#[derive({d})]\nstruct S {{ x: int32, x: string }}\n{use_}")));
        v.push(("duplicate-type", format!("#[derive({d})]\nstruct S {{ x: int32 }}\n#[derive({d})]\nstruct S {{ y: string }}\n{use_}")));
        v.push(("own-method-clash", format!("#[derive({d})]\nstruct S {{ x: int32 }}\nimpl S {{ fn {tr}(self: S) -> string {{ \"mine\" }} }}\n{use_}")));
        let _ = tr;
    }
    v
}

pub fn main(args: &util::Args) {
    util::quiet_panics();
    let mut out = String::new();
    let dir = util::scratch_dir("c18");
    let total = args.n.unwrap_or(if args.tier == "thorough" { 2500 } else { 260 });
    let mut hist = vec![0usize; CLASSES.len()];
    let mut ft_hist: std::collections::BTreeMap<String, usize> = Default::default();
    let mut attr_hist: std::collections::BTreeMap<&'static str, usize> = Default::default();
    let mut name_hist: std::collections::BTreeMap<String, usize> = Default::default();
    for i in 0..total {
        let mut root = Rng::new(args.seed);
        let mut rng = root.fork(i as u64 ^ 0xC18);
        // streams: features that used to fail (or still do) are kept apart so that they cannot mask others
        let stream = match i % 20 {
            5 => "attrs",
            0..=4 => "base",
            6..=9 => "strings",
            10..=13 => "prims",
            14 | 15 => "capture",
            16 | 17 => "floats",
            18 => "all",
            _ => "nonfinite",
        };
        let cfg = Cfg {
            all_strings: matches!(stream, "strings" | "all"),
            all_prims: matches!(stream, "prims" | "floats" | "all" | "nonfinite"),
            capturing_names: matches!(stream, "capture" | "all"),
            floats: matches!(stream, "floats" | "nonfinite"),
            nonfinite: stream == "nonfinite",
            to_json: i % 7 != 5,
            to_string: i % 7 != 6,
        };
        let mut defs = gen_defs(&mut rng, &cfg);
        // the attribute surface: a quarter of the definitions everywhere, all of them in the `attrs` stream
        let mut arng = rng.fork(0xA77);
        for d in defs.iter_mut() {
            if stream == "attrs" || arng.chance(1, 4) {
                d.attrs = spell_attrs(&mut arng, cfg.to_json, cfg.to_string);
                let derives = d.attrs.iter().map(|a| spec_strip_comments(a)).filter(|a| a.contains("derive") && !a.starts_with("#!") && !a.contains("derived") && a.contains('(') && !a.contains("()")).count();
                for a in &d.attrs {
                    let code = spec_strip_comments(a);
                    let tail = &code[code.rfind(']').map(|k| k + 1).unwrap_or(0)..];
                    if code != *a {
                        let first_comment = a.bytes().zip(code.bytes()).position(|(x, y)| x != y).unwrap_or(code.len());
                        let after = code.rfind(']').is_some_and(|k| first_comment > k);
                        *attr_hist.entry(if after { "comment-after-attribute" } else { "comment-inside-attribute" }).or_default() += 1;
                    }
                    if !tail.contains('\n') {
                        *attr_hist.entry("next-token-on-the-same-line").or_default() += 1;
                    }
                }
                *attr_hist.entry(if derives >= 3 { "three-or-more-derive-attributes" } else if derives == 2 { "two-derive-attributes" } else { "one-derive-attribute" }).or_default() += 1;
                if d.attrs.len() > derives {
                    *attr_hist.entry("with-non-derive-or-empty-attribute").or_default() += 1;
                }
                if d.attrs.iter().any(|a| ["Debug", "Clone", "Tojson", "to_json", "ToJSON"].iter().any(|u| a.contains(u))) {
                    *attr_hist.entry("with-unknown-target").or_default() += 1;
                }
            }
        }
        let nvals = 1 + rng.below(4);
        let vals: Vec<(usize, V)> = (0..nvals)
            .map(|_| {
                let di = rng.below(defs.len());
                let depth = rng.below(4);
                (di, gen_val(&mut rng, &cfg, &defs, &FT::Named(di), depth, &mut hist))
            })
            .collect();
        for d in &defs {
            match &d.kind {
                Kind::Struct(fs) => {
                    for (f, t) in fs {
                        *ft_hist.entry(ft_src(&defs, t).chars().take_while(|c| !c.is_ascii_uppercase()).collect::<String>()).or_default() += 1;
                        if ["self", "tag", "fields", "json_escape_string", "bool_to_json", "to_json", "to_string", "func", "len", "t1"].contains(&f.as_str()) {
                            *name_hist.entry(f.clone()).or_default() += 1;
                        }
                    }
                }
                Kind::Enum(vs) => {
                    for (_, pts) in vs {
                        for t in pts {
                            *ft_hist.entry(ft_src(&defs, t).chars().take_while(|c| !c.is_ascii_uppercase()).collect::<String>()).or_default() += 1;
                        }
                    }
                }
            }
        }
        let src = program_src(&mut rng, &cfg, &defs, &vals);
        let id = format!("gen:{}:{}:{}", args.seed, i, stream);
        writeln!(out, "{}\tCASE\t{}", id, case_sexp(&cfg, &defs, &vals).to_text()).unwrap();
        let ej: Vec<String> = vals.iter().map(|(i, v)| spec_json(&defs, &FT::Named(*i), v)).collect();
        let es: String = vals.iter().map(|(i, v)| spec_string(&defs, &FT::Named(*i), v) + "\n").collect();
        writeln!(out, "{}\tEXPJSON\t{}", id, esc_line(&ej.join("\n"))).unwrap();
        writeln!(out, "{}\tEXPSTR\t{}", id, esc_line(&es)).unwrap();
        match derived_impls(&src) {
            Some(sx) => writeln!(out, "{}\tDERIVED\t{}", id, sx.to_text()).unwrap(),
            None => writeln!(out, "{}\tDERIVED\tnone", id).unwrap(),
        }
        emit(&id, &dir, &src, &mut out);
    }
    // minimised past failures, and the corpus programs that use the derives (their .out files were recorded from real Go)
    if let Ok(rd) = std::fs::read_dir(util::verif_root().join("corpus/C18")) {
        let mut files: Vec<_> = rd.filter_map(|e| e.ok().map(|e| e.path())).filter(|p| p.extension().is_some_and(|x| x == "gom")).collect();
        files.sort();
        for f in files {
            let Ok(src) = std::fs::read_to_string(&f) else { continue };
            let id = format!("corpus:C18/{}", f.file_name().unwrap().to_string_lossy());
            writeln!(out, "{}\tCORPUS\tnone\t", id).unwrap();
            emit(&id, &dir, &src, &mut out);
        }
    }
    for d in util::corpus_pipeline_dirs() {
        let path = d.join("main.gom");
        let Ok(src) = std::fs::read_to_string(&path) else { continue };
        if !src.contains("#[derive(") {
            continue;
        }
        let id = format!("repo:{}", d.file_name().unwrap().to_string_lossy());
        match std::fs::read_to_string(d.join("main.gom.out")) {
            Ok(exp) => writeln!(out, "{}\tCORPUS\tout\t{}", id, esc_line(&exp)).unwrap(),
            Err(_) => writeln!(out, "{}\tCORPUS\tnone\t", id).unwrap(),
        }
        emit(&id, &dir, &src, &mut out);
    }
    // %g cross-validation: Rust's shortest digits (go_g) vs the Lean showFloat, on random bit patterns
    let nfl = if args.tier == "thorough" { 20000 } else { 3000 };
    let mut frng = Rng::new(args.seed).fork(0xF10A7);
    let specials: &[f64] = &[0.0, -0.0, 1.0, 0.1, 0.5, 1e21, 1e22, 1e-5, 1e-4, 123456.0, 1234567.0, 5e-324, 1.7976931348623157e308, 2.2250738585072014e-308,
        f64::INFINITY, f64::NEG_INFINITY, f64::NAN, 9007199254740993.0, 4.35, 0.3, 2.0f64.powi(60), 2.0f64.powi(-60), 1e23, 8.41e21, 9.5367431640625e-07];
    for i in 0..nfl {
        let (x, bits): (f64, u32) = if i < specials.len() * 2 {
            (specials[i / 2], if i % 2 == 0 { 64 } else { 32 })
        } else if i % 2 == 0 {
            let b = frng.next();
            // a third: small decimal-looking numbers, the rest: any bit pattern
            if i % 6 == 0 { ((frng.below(2000000) as f64 - 1000000.0) / [1.0, 10.0, 100.0, 1000.0, 1e7][frng.below(5)], 64) } else { (f64::from_bits(b), 64) }
        } else {
            let b = frng.next() as u32;
            if i % 6 == 1 { (((frng.below(200000) as f32 - 100000.0) / [1.0f32, 10.0, 100.0, 1e6][frng.below(4)]) as f64, 32) } else { (f32::from_bits(b) as f64, 32) }
        };
        let x = if bits == 32 { (x as f32) as f64 } else { x };
        writeln!(out, "flt:{}\tFLOAT\t(fmt {} {})\t{}", i, bits, x.to_bits(), go_g(x, bits)).unwrap();
    }
    for (id, src, accept, want, probe) in attr_probe_cases() {
        writeln!(out, "{}\tPROBE\t{}\t{}\t{}", id, if accept { "accept" } else { "reject" }, esc_line(&want), probe.to_text()).unwrap();
        match derived_impls(&src) {
            Some(sx) => writeln!(out, "{}\tDERIVED\t{}", id, sx.to_text()).unwrap(),
            None => writeln!(out, "{}\tDERIVED\tnone", id).unwrap(),
        }
        emit(&id, &dir, &src, &mut out);
    }
    let mut helper_hist: std::collections::BTreeMap<String, usize> = Default::default();
    for (k, (id, files, want, method, helper, shape, case)) in helper_capture_cases(args.tier == "thorough").into_iter().enumerate() {
        *helper_hist.entry(format!("{}:{}", method, helper)).or_default() += 1;
        writeln!(out, "{}\tHELPER\t{}\t{}\t{}\t{}\t{}", id, esc_line(&want), method, helper, shape, case).unwrap();
        emit_project(&id, &dir.join(format!("helper{}", k)), &files, &mut out);
    }
    for (k, (kind, src)) in reject_cases().into_iter().enumerate() {
        let id = format!("rej:{}:{}", k, kind);
        writeln!(out, "{}\tEXPECTREJECT\t{}", id, kind).unwrap();
        emit(&id, &dir, &src, &mut out);
    }
    writeln!(
        out,
        "#FEATS\tstring-classes: {} | field-types: {} | special-field-names: {} | attribute-spellings: {} | helpers-called-by-generated-code(projects): {}",
        CLASSES.iter().zip(&hist).map(|((k, _), v)| format!("{}={}", k, v)).collect::<Vec<_>>().join(" "),
        ft_hist.iter().map(|(k, v)| format!("{}={}", if k.is_empty() { "named" } else { k }, v)).collect::<Vec<_>>().join(" "),
        name_hist.iter().map(|(k, v)| format!("{}={}", k, v)).collect::<Vec<_>>().join(" "),
        attr_hist.iter().map(|(k, v)| format!("{}={}", k, v)).collect::<Vec<_>>().join(" "),
        helper_hist.iter().map(|(k, v)| format!("{}={}", k, v)).collect::<Vec<_>>().join(" ")
    )
    .unwrap();
    let _ = std::fs::remove_dir_all(&dir);
    let _ = std::fs::create_dir_all(&args.out);
    std::fs::write(args.out.join("c18.cases.tsv"), out).unwrap();
}
