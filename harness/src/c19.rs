//! C19 — generated names: (A) exhaustive / sampled diff material for every public name encoder
//! (the REAL `go_ident`, `encode_ty`, `go_type_name_for`, `ty_compact`, `trait_impl_fn_name`,
//! `inherent_method_fn_name`, `ref_struct_name`, `ref_helper_fn_name` are called in-process);
//! (B) whole programs whose user identifiers come from an adversarial dictionary, compiled by the
//! real pipeline and judged on the real `goast::File` by `goscope::check`.
use crate::goscope;
use crate::rng::Rng;
use crate::sexp::{S, a, esc_line, l, n, tagged};
use crate::util::{self, Outcome};
use compiler::go::{goast, mangle, runtime};
use compiler::{names, tast};
use std::fmt::Write as _;
use std::panic::{AssertUnwindSafe, catch_unwind};

// ------------------------------------------------------------------ part A: encoders

const ALPHABET: [char; 8] = ['a', '_', '0', 'T', '#', '/', ':', 'é'];

fn idents_upto(len: usize) -> Vec<String> {
    let mut out = vec![String::new()];
    let mut frontier = vec![String::new()];
    for _ in 0..len {
        let mut next = Vec::new();
        for s in &frontier {
            for c in ALPHABET {
                let mut t = s.clone();
                t.push(c);
                next.push(t);
            }
        }
        out.extend(next.iter().cloned());
        frontier = next;
    }
    out
}

pub fn ty_sexp(t: &tast::Ty) -> S {
    use tast::Ty::*;
    match t {
        TVar(_) => a("TVar"),
        TUnit => a("TUnit"),
        TBool => a("TBool"),
        TInt8 => a("TInt8"),
        TInt16 => a("TInt16"),
        TInt32 => a("TInt32"),
        TInt64 => a("TInt64"),
        TUint8 => a("TUint8"),
        TUint16 => a("TUint16"),
        TUint32 => a("TUint32"),
        TUint64 => a("TUint64"),
        TFloat32 => a("TFloat32"),
        TFloat64 => a("TFloat64"),
        TString => a("TString"),
        TTuple { typs } => tagged("tuple", typs.iter().map(ty_sexp).collect()),
        TEnum { name } => tagged("enum", vec![a(name)]),
        TStruct { name } => tagged("struct", vec![a(name)]),
        TDyn { trait_name } => tagged("dyn", vec![a(trait_name)]),
        TApp { ty, args } => tagged("app", vec![ty_sexp(ty), l(args.iter().map(ty_sexp).collect())]),
        TArray { len, elem } => tagged("array", vec![n(len), ty_sexp(elem)]),
        TVec { elem } => tagged("vec", vec![ty_sexp(elem)]),
        TRef { elem } => tagged("ref", vec![ty_sexp(elem)]),
        TParam { name } => tagged("param", vec![a(name)]),
        TFunc { params, ret_ty } => tagged("func", vec![l(params.iter().map(ty_sexp).collect()), ty_sexp(ret_ty)]),
    }
}

fn prims() -> Vec<tast::Ty> {
    use tast::Ty::*;
    vec![TUnit, TBool, TInt8, TInt16, TInt32, TInt64, TUint8, TUint16, TUint32, TUint64, TFloat32, TFloat64, TString]
}

const TY_NAMES: [&str; 12] = ["a", "Foo", "foo", "a_b", "T", "type", "a#b", "é", "Vec", "x y", "b_c", "int32"];

fn atoms(names: &[&str]) -> Vec<tast::Ty> {
    let mut v = prims();
    for nm in names {
        v.push(tast::Ty::TEnum { name: nm.to_string() });
        v.push(tast::Ty::TStruct { name: nm.to_string() });
        v.push(tast::Ty::TDyn { trait_name: nm.to_string() });
        v.push(tast::Ty::TParam { name: nm.to_string() });
    }
    v
}

fn small_atoms() -> Vec<tast::Ty> {
    use tast::Ty::*;
    vec![
        TUnit,
        TInt32,
        TString,
        TStruct { name: "a".into() },
        TStruct { name: "b".into() },
        TStruct { name: "a_b".into() },
        TEnum { name: "Foo".into() },
        TStruct { name: "foo".into() },
        TParam { name: "T".into() },
        TDyn { trait_name: "a".into() },
    ]
}

fn lists_upto(elems: &[tast::Ty], k: usize) -> Vec<Vec<tast::Ty>> {
    let mut out = vec![vec![]];
    let mut frontier: Vec<Vec<tast::Ty>> = vec![vec![]];
    for _ in 0..k {
        let mut next = Vec::new();
        for pre in &frontier {
            for e in elems {
                let mut v = pre.clone();
                v.push(e.clone());
                next.push(v);
            }
        }
        out.extend(next.iter().cloned());
        frontier = next;
    }
    out
}

const LENS: [usize; 3] = [0, 3, usize::MAX];

/// every type with one constructor over `elems` (tuples ≤ `k` components)
fn one_level(elems: &[tast::Ty], k: usize, kf: usize) -> Vec<tast::Ty> {
    use tast::Ty::*;
    let mut out = Vec::new();
    let lists = lists_upto(elems, k);
    for ts in &lists {
        out.push(TTuple { typs: ts.clone() });
    }
    let heads = [
        TStruct { name: "a".into() },
        TEnum { name: "Foo".into() },
        TVec { elem: Box::new(TUnit) },
        TInt32, // not a constructor: the real encoders panic
    ];
    for h in &heads {
        for ts in lists.iter().filter(|ts| ts.len() <= kf) {
            out.push(TApp { ty: Box::new(h.clone()), args: ts.clone() });
        }
    }
    for e in elems {
        for len in LENS {
            out.push(TArray { len, elem: Box::new(e.clone()) });
        }
        out.push(TVec { elem: Box::new(e.clone()) });
        out.push(TRef { elem: Box::new(e.clone()) });
        for ps in lists.iter().filter(|ts| ts.len() <= kf) {
            out.push(TFunc { params: ps.clone(), ret_ty: Box::new(e.clone()) });
        }
    }
    out
}

fn random_ty(rng: &mut Rng, depth: usize, atoms: &[tast::Ty]) -> tast::Ty {
    use tast::Ty::*;
    if depth == 0 || rng.chance(1, 5) {
        return rng.pick(atoms).clone();
    }
    let sub = |rng: &mut Rng| random_ty(rng, depth - 1, atoms);
    match rng.below(7) {
        0 => {
            let k = rng.below(4);
            TTuple { typs: (0..k).map(|_| sub(rng)).collect() }
        }
        1 => {
            let head = match rng.below(5) {
                0 => TStruct { name: rng.pick(&TY_NAMES).to_string() },
                1 => TEnum { name: rng.pick(&TY_NAMES).to_string() },
                2 => TApp { ty: Box::new(TStruct { name: "P".into() }), args: vec![sub(rng)] },
                3 => TRef { elem: Box::new(TUnit) },
                _ => sub(rng),
            };
            let k = rng.below(3);
            TApp { ty: Box::new(head), args: (0..k).map(|_| sub(rng)).collect() }
        }
        2 => TArray { len: *rng.pick(&[0usize, 1, 2, 10, 255, usize::MAX]), elem: Box::new(sub(rng)) },
        3 => TVec { elem: Box::new(sub(rng)) },
        4 => TRef { elem: Box::new(sub(rng)) },
        5 => {
            let k = rng.below(3);
            TFunc { params: (0..k).map(|_| sub(rng)).collect(), ret_ty: Box::new(sub(rng)) }
        }
        _ => rng.pick(atoms).clone(),
    }
}

fn guarded<F: FnOnce() -> String>(f: F) -> String {
    match catch_unwind(AssertUnwindSafe(f)) {
        Ok(s) => s,
        Err(_) => "PANIC".to_string(),
    }
}

fn depth_of(t: &tast::Ty) -> usize {
    use tast::Ty::*;
    match t {
        TTuple { typs } => 1 + typs.iter().map(depth_of).max().unwrap_or(0),
        TApp { ty, args } => 1 + args.iter().map(depth_of).chain(std::iter::once(depth_of(ty))).max().unwrap_or(0),
        TArray { elem, .. } | TVec { elem } | TRef { elem } => 1 + depth_of(elem),
        TFunc { params, ret_ty } => 1 + params.iter().map(depth_of).chain(std::iter::once(depth_of(ret_ty))).max().unwrap_or(0),
        _ => 0,
    }
}

fn encoder_cases(args: &util::Args, out: &mut String, stats: &mut String) {
    let thorough = args.tier == "thorough";
    let mut id = 0usize;
    // identifiers
    let mut ids = idents_upto(if thorough { 5 } else { 4 });
    for kw in goscope::GO_KEYWORDS {
        ids.push(kw.to_string());
        ids.push(format!("{}_", kw));
        ids.push(format!("_goml_{}", kw));
    }
    for extra in ["\u{a0}", "世界", "a b", "a-b", "A.b", "trait_impl#Show#int32#show", "Main::main", "x/12", "\u{1F600}", "a\tb"] {
        ids.push(extra.to_string());
    }
    let n_ids = ids.len();
    for s in ids {
        let real = guarded(|| mangle::go_ident(&s));
        let _ = writeln!(out, "i{}\tCASE\t{}\t{}", id, tagged("ident", vec![a(&s)]).to_text(), real);
        id += 1;
    }
    // types
    let mut tys: Vec<tast::Ty> = atoms(&TY_NAMES);
    let small = small_atoms();
    let lvl1 = one_level(&small, 3, 2);
    tys.extend(lvl1.iter().cloned());
    // depth 2: one constructor over a thinned level-1 set (every constructor kind kept)
    let mut rng = Rng::new(args.seed ^ 0xC19);
    let mut thin: Vec<tast::Ty> = small.clone();
    let stride = if thorough { 7 } else { 37 };
    for (i, t) in lvl1.iter().enumerate() {
        if i % stride == 0 {
            thin.push(t.clone());
        }
    }
    tys.extend(one_level(&thin, 2, 1));
    let all_atoms = atoms(&TY_NAMES);
    let n_rand = args.n.unwrap_or(if thorough { 200_000 } else { 20_000 });
    for _ in 0..n_rand {
        let d = 2 + rng.below(3);
        tys.push(random_ty(&mut rng, d, &all_atoms));
    }
    let mut by_depth = [0usize; 8];
    let n_tys = tys.len();
    for t in tys {
        by_depth[depth_of(&t).min(7)] += 1;
        let tr = rng.pick(&TY_NAMES).to_string();
        let m = rng.pick(&["m", "show", "to_string", "a_b", "apply"]).to_string();
        let ident = tast::TastIdent(tr.clone());
        let cols = [
            guarded(|| mangle::encode_ty(&t)),
            guarded(|| goast::go_type_name_for(&t)),
            guarded(|| names::ty_compact(&t)),
            guarded(|| names::trait_impl_fn_name(&ident, &t, &m)),
            guarded(|| names::inherent_method_fn_name(&t, &m)),
            guarded(|| goast::ref_struct_name(&t)),
            guarded(|| runtime::ref_helper_fn_name("ref_get", &t)),
        ];
        let _ = writeln!(
            out,
            "t{}\tCASE\t{}\t{}",
            id,
            tagged("ty", vec![ty_sexp(&t), a(&tr), a(&m)]).to_text(),
            cols.join("\t")
        );
        id += 1;
    }
    // designated pairs: the collisions the Lean file states as negative witnesses, on the real encoders
    {
        use tast::Ty::*;
        let st = |n: &str| TStruct { name: n.to_string() };
        let tup = |v: Vec<tast::Ty>| TTuple { typs: v };
        let pairs: Vec<(&str, tast::Ty, tast::Ty)> = vec![
            ("encode_ty", tup(vec![tup(vec![st("a"), st("b")]), st("c"), st("d")]), tup(vec![tup(vec![st("a"), st("b"), st("c")]), st("d")])),
            ("encode_ty", tup(vec![st("a_b"), st("c")]), tup(vec![st("a"), st("b_c")])),
            ("ref_struct_name", st("Foo"), st("foo")),
            ("go_type_name_for", tup(vec![st("A_B"), st("C")]), tup(vec![st("A"), st("B_C")])),
            ("go_type_name_for", TFunc { params: vec![], ret_ty: Box::new(TInt32) }, TFunc { params: vec![TUnit], ret_ty: Box::new(TInt32) }),
            ("go_type_name_for", TRef { elem: Box::new(st("Foo")) }, TRef { elem: Box::new(st("foo")) }),
            ("ty_compact", TEnum { name: "a".into() }, st("a")),
            ("ty_compact", st("a b"), st("ab")),
        ];
        for (enc, t1, t2) in pairs {
            let f = |t: &tast::Ty| match enc {
                "encode_ty" => guarded(|| mangle::encode_ty(t)),
                "ref_struct_name" => guarded(|| goast::ref_struct_name(t)),
                "go_type_name_for" => guarded(|| goast::go_type_name_for(t)),
                _ => guarded(|| names::ty_compact(t)),
            };
            let _ = writeln!(out, "q{}\tPAIR\t{}\t{}\t{}\t{}\t{}", id, enc, ty_sexp(&t1).to_text(), ty_sexp(&t2).to_text(), f(&t1), f(&t2));
            id += 1;
        }
        let ident_pairs = [("a#b", "_goml_a_b"), ("a#b_c", "a_b#c"), ("é", "#xc3a9#")];
        for (x, y) in ident_pairs {
            let _ = writeln!(out, "q{}\tPAIR\tgo_ident\t{}\t{}\t{}\t{}", id, a(x).to_text(), a(y).to_text(), mangle::go_ident(x), mangle::go_ident(y));
            id += 1;
        }
        let tr = |s: &str| tast::TastIdent(s.to_string());
        let _ = writeln!(
            out,
            "q{}\tPAIR\tgo_ident∘trait_impl_fn_name\t(A_B C m)\t(A B_C m)\t{}\t{}",
            id,
            mangle::go_ident(&names::trait_impl_fn_name(&tr("A_B"), &st("C"), "m")),
            mangle::go_ident(&names::trait_impl_fn_name(&tr("A"), &st("B_C"), "m"))
        );
    }
    let _ = writeln!(
        stats,
        "idents={} alphabet={:?} maxlen=4 types={} by_depth={:?} random={}",
        n_ids, ALPHABET, n_tys, by_depth, n_rand
    );
}

// ------------------------------------------------------------------ part B: whole programs

static RELIED: std::sync::OnceLock<Vec<String>> = std::sync::OnceLock::new();
/// predeclared Go identifiers the backend emits by name (`--relied a,b,c`, from the translator)
pub fn relied() -> &'static [String] {
    RELIED.get().map(|v| v.as_slice()).unwrap_or(&[])
}

pub struct Verdict {
    pub outcome: String,
    pub failures: Vec<goscope::Failure>,
    pub shape: String,
    pub toplevel: Vec<(String, &'static str)>,
    pub locals: Vec<String>,
    pub universe: Vec<String>,
    pub shadowing: usize,
}

pub fn judge(dir: &std::path::Path, src: &str) -> Verdict {
    match util::compile_text(dir, src) {
        Outcome::Ok(c) => {
            let rep = goscope::check(&c.go, relied());
            Verdict {
                outcome: "ok".into(),
                shape: rep.shape.join(","),
                failures: rep.failures,
                toplevel: rep.toplevel,
                locals: rep.locals,
                universe: rep.universe_refs.keys().cloned().collect(),
                shadowing: rep.shadowing,
            }
        }
        Outcome::Err(stage, msgs) => Verdict {
            outcome: format!("err:{}:{}", stage, msgs.first().cloned().unwrap_or_default()),
            failures: vec![],
            shape: String::new(),
            toplevel: vec![],
            locals: vec![],
            universe: vec![],
            shadowing: 0,
        },
        Outcome::Panic(m) => Verdict {
            outcome: format!("panic:{}", m),
            failures: vec![],
            shape: String::new(),
            toplevel: vec![],
            locals: vec![],
            universe: vec![],
            shadowing: 0,
        },
    }
}

fn failures_text(fs: &[goscope::Failure]) -> String {
    let v: Vec<S> = fs.iter().map(|f| l(vec![a(f.kind), a(&f.name), a(&f.detail)])).collect();
    l(v).to_text()
}

/// one template: goml text with `@N@` for the adversarial name (and `@M@` for a second one)
struct Template {
    id: &'static str,
    role: &'static str,
    text: &'static str,
}

const TEMPLATES: &[Template] = &[
    Template {
        id: "fn",
        role: "fn",
        text: r#"fn @N@(a: int32, b: int32, c: int32) -> int32 { a + b * c }
fn helper(s: string) -> int32 { string_len(s) + string_len(string_get(s, 0)) }
fn main() -> unit {
  let v = @N@(1, 2, 3) + @N@(4, 5, 6) * @N@(7, 8, 9);
  let r = ref(v);
  let arr = [1, 2, 3];
  let w = @N@(helper("ab"), ref_get(r), array_get(arr, 0)) + @N@(1, 1, 1) + @N@(2, 2, 2);
  let _ = string_println(int32_to_string(w + @N@(v, w, 3)));
  let k = @N@(3, 3, 3);
  string_println(int32_to_string(k + @N@(k, k, k)))
}
"#,
    },
    Template {
        id: "local",
        role: "local",
        text: r#"fn f(@N@: int32, other: int32) -> int32 { let q = @N@ + other; q * @N@ }
fn main() -> unit {
  let @N@ = 1 + 2 * 3;
  let g = |z: int32| z + @N@;
  let @N@ = @N@ + f(@N@, 2);
  let _ = string_println(int32_to_string(g(@N@) + string_len("abc")));
  match (@N@, 2) { (@N@, w) => string_println(int32_to_string(@N@ + w)) }
}
"#,
    },
    Template {
        id: "struct",
        role: "type",
        text: r#"struct @N@ { a: int32, b: string }
trait Show { fn show(Self) -> string; }
impl Show for @N@ { fn show(self: @N@) -> string { self.b } }
impl @N@ { fn geta(self: @N@) -> int32 { self.a } }
fn main() -> unit {
  let s = @N@ { a: 1, b: "x" };
  let r = ref(s);
  let t = (s, 2);
  let d: dyn Show = s;
  let _ = string_println(Show::show(d));
  let _ = string_println(Show::show(s));
  let _ = string_println(int32_to_string(ref_get(r).a + t.0.a + s.geta() + @N@::geta(s)));
  string_println(int32_to_string(string_len(s.b)))
}
"#,
    },
    Template {
        id: "field",
        role: "field",
        text: r#"struct S { @N@: int32, other: int32 }
fn main() -> unit {
  let s = S { @N@: 1, other: 2 };
  let S { @N@: p, other: q } = s;
  string_println(int32_to_string(s.@N@ + s.other + p + q))
}
"#,
    },
    Template {
        id: "enum",
        role: "type",
        text: r#"enum @N@ { Aa, Bb(int32) }
enum Gen[T] { Mk(T), No }
fn pick(e: @N@) -> int32 { match e { @N@::Aa => 0, @N@::Bb(v) => v } }
fn main() -> unit {
  let e = @N@::Bb(3);
  let g = Gen::Mk(e);
  let r = ref(@N@::Aa);
  let _ = string_println(int32_to_string(pick(e) + pick(ref_get(r))));
  match g { Gen::Mk(x) => string_println(int32_to_string(pick(x))), Gen::No => () }
}
"#,
    },
    Template {
        id: "variant",
        role: "variant",
        text: r#"enum E { @N@, Other(int32) }
enum F { Cc(E), Dd }
fn pick(e: E) -> int32 { match e { E::@N@ => 0, E::Other(v) => v } }
fn main() -> unit {
  let e = E::@N@;
  let f = F::Cc(E::Other(2));
  let _ = string_println(int32_to_string(pick(e)));
  match f { F::Cc(x) => string_println(int32_to_string(pick(x))), F::Dd => () }
}
"#,
    },
    Template {
        id: "trait",
        role: "trait",
        text: r#"struct P { a: int32 }
trait @N@ { fn m(Self, int32) -> int32; }
impl @N@ for int32 { fn m(self: int32, k: int32) -> int32 { self + k } }
impl @N@ for P { fn m(self: P, k: int32) -> int32 { self.a + k } }
fn via[T: @N@](x: T) -> int32 { @N@::m(x, 1) }
fn main() -> unit {
  let p = P { a: 1 };
  let d: dyn @N@ = p;
  let e: dyn @N@ = 5;
  let _ = string_println(int32_to_string(@N@::m(p, 2) + @N@::m(7, 2) + via(p) + via(3)));
  string_println(int32_to_string(@N@::m(d, 3) + @N@::m(e, 3)))
}
"#,
    },
    Template {
        id: "method",
        role: "method",
        text: r#"struct P { a: int32 }
trait Tr { fn @N@(Self, int32) -> int32; }
impl Tr for P { fn @N@(self: P, k: int32) -> int32 { self.a + k } }
impl Tr for int32 { fn @N@(self: int32, k: int32) -> int32 { self + k } }
struct Q { b: int32 }
impl Q { fn @N@(self: Q, k: int32) -> int32 { self.b * k } }
fn main() -> unit {
  let p = P { a: 1 };
  let q = Q { b: 2 };
  let d: dyn Tr = p;
  let _ = string_println(int32_to_string(Tr::@N@(p, 2) + Tr::@N@(4, 2) + q.@N@(3) + Q::@N@(q, 4)));
  string_println(int32_to_string(Tr::@N@(d, 3)))
}
"#,
    },
    Template {
        id: "tparam",
        role: "tparam",
        text: r#"enum Opt[@N@] { Yes(@N@), Non }
fn idf[@N@](x: @N@) -> @N@ { x }
fn get[@N@](o: Opt[@N@], d: @N@) -> @N@ { match o { Opt::Yes(v) => v, Opt::Non => d } }
fn main() -> unit {
  let a = idf(1);
  let b = idf("s");
  let o = Opt::Yes(a);
  let _ = string_println(b);
  string_println(int32_to_string(get(o, 2) + idf(a)))
}
"#,
    },
    Template {
        id: "closure",
        role: "local",
        text: r#"fn main() -> unit {
  let k = 10;
  let @N@ = |z: int32| z + k;
  let other = |z: int32| @N@(z) * 2;
  string_println(int32_to_string(@N@(1) + other(2)))
}
"#,
    },
    Template {
        id: "generic-fn",
        role: "fn",
        text: r#"fn @N@[T](x: T, y: T) -> T { y }
fn main() -> unit {
  let a = @N@(1, 2);
  let b = @N@("s", "t");
  let c: (int32, int32) = @N@((1, 2), (3, 4));
  let _ = string_println(b);
  string_println(int32_to_string(a + c.0))
}
"#,
    },
];

/// programs with two interacting names: replays of the model's negative witnesses
const WITNESSES: &[(&str, &str, &str)] = &[
    ("tuple-underscore", "Tuple2_A_B_C from (A_B, C) and (A, B_C)", r#"struct A_B { a: int32 }
struct C { a: int32 }
struct A { a: int32 }
struct B_C { a: int32 }
fn main() -> unit {
  let x = (A_B { a: 1 }, C { a: 2 });
  let y = (A { a: 3 }, B_C { a: 4 });
  string_println(int32_to_string(x.0.a + y.1.a))
}
"#),
    ("trait-impl-underscore", "trait_impl#A_B#C#m and trait_impl#A#B_C#m", r#"struct C { a: int32 }
struct B_C { a: int32 }
trait A_B { fn m(Self) -> int32; }
trait A { fn m(Self) -> int32; }
impl A_B for C { fn m(self: C) -> int32 { 1 } }
impl A for B_C { fn m(self: B_C) -> int32 { 2 } }
fn main() -> unit { string_println(int32_to_string(A_B::m(C { a: 1 }) + A::m(B_C { a: 1 }))) }
"#),
    ("inherent-underscore", "inherent#a#a#a_a_a_m and inherent#a_a#a_a#a_m", r#"struct a { f: int32 }
struct a_a { f: int32 }
impl a { fn a_a_a_m(self: a) -> int32 { 1 } }
impl a_a { fn a_m(self: a_a) -> int32 { 2 } }
fn main() -> unit { string_println(int32_to_string(a { f: 1 }.a_a_a_m() + a_a { f: 1 }.a_m())) }
"#),
    ("ref-lowercase", "ref_foo_x from Ref[Foo] and Ref[foo]", r#"struct foo { a: int32 }
struct Foo { a: int32 }
fn main() -> unit {
  let r = ref(foo { a: 1 });
  let q = ref(Foo { a: 2 });
  string_println(int32_to_string(ref_get(r).a + ref_get(q).a))
}
"#),
    ("encode-tuple-nesting", "Ref[((a,b),c,d)] and Ref[((a,b,c),d)]", r#"fn main() -> unit {
  let r = ref(((1, 2), 3, 4));
  let q = ref(((1, 2, 3), 4));
  let x: ((int32, int32), int32, int32) = ref_get(r);
  let y: ((int32, int32, int32), int32) = ref_get(q);
  string_println(int32_to_string(x.1 + y.1))
}
"#),
    ("spec-name", "id[T:=int32] and fn id__T_int32", r#"fn id[T](x: T) -> T { x }
fn id__T_int32(x: int32) -> int32 { x + 1 }
fn main() -> unit { string_println(int32_to_string(id(1) + id__T_int32(2))) }
"#),
    ("mono-type-name", "Opt[int32] and enum Opt__int32", r#"enum Opt[T] { Yes(T), Non }
enum Opt__int32 { Aa, Bb }
fn main() -> unit {
  let o = Opt::Yes(5);
  let p = Opt__int32::Aa;
  let _ = match p { Opt__int32::Aa => 1, Opt__int32::Bb => 2 };
  match o { Opt::Yes(v) => string_println(int32_to_string(v)), Opt::Non => () }
}
"#),
    ("variant-eq-enum", "enum Foo { Foo, Bar }", r#"enum Foo { Foo, Bar }
fn main() -> unit { let x = Foo::Foo; match x { Foo::Foo => string_println("a"), Foo::Bar => () } }
"#),
    ("variant-eq-other-enum", "enum Aa { Bb } enum Bb { Cc }", r#"enum Aa { Bb, Xx }
enum Bb { Cc, Yy }
fn main() -> unit {
  let x = Aa::Bb;
  let y = Bb::Cc;
  let _ = match y { Bb::Cc => 1, Bb::Yy => 2 };
  match x { Aa::Bb => string_println("a"), Aa::Xx => () }
}
"#),
    ("variant-qualified-underscore", "A_B_C from A::B_C and A_B::C", r#"enum A { B_C, C }
enum A_B { C, B_C }
fn main() -> unit {
  let x = A::B_C;
  let y = A_B::C;
  let _ = match y { A_B::C => 1, A_B::B_C => 2 };
  match x { A::B_C => string_println("a"), A::C => () }
}
"#),
    ("tuple-struct-name", "user struct Tuple2_int32_int32", r#"struct Tuple2_int32_int32 { a: int32 }
fn main() -> unit {
  let t = (1, 2);
  let s = Tuple2_int32_int32 { a: 3 };
  string_println(int32_to_string(t.0 + s.a))
}
"#),
    ("ref-struct-name", "user struct ref_int32_x", r#"struct ref_int32_x { a: int32 }
fn main() -> unit {
  let r = ref(1);
  let s = ref_int32_x { a: 3 };
  string_println(int32_to_string(ref_get(r) + s.a))
}
"#),
    ("closure-env-name", "user struct closure_env_f_0", r#"struct closure_env_f_0 { a: int32 }
fn main() -> unit {
  let k = 1;
  let f = |z: int32| z + k;
  let s = closure_env_f_0 { a: 3 };
  string_println(int32_to_string(f(1) + s.a))
}
"#),
    ("dyn-struct-name", "user struct dyn__Show", r#"struct dyn__Show { a: int32 }
trait Show { fn show(Self) -> string; }
impl Show for int32 { fn show(self: int32) -> string { "i" } }
fn main() -> unit {
  let d: dyn Show = 1;
  let s = dyn__Show { a: 3 };
  let _ = string_println(Show::show(d));
  string_println(int32_to_string(s.a))
}
"#),
    ("func-unit-param", "TFunc_unit_int32 from () -> int32 and (unit) -> int32", r#"fn f() -> int32 { 1 }
fn g(u: unit) -> int32 { 2 }
fn main() -> unit {
  let x = (f, 1);
  let y = (g, 2);
  string_println(int32_to_string(x.1 + y.1))
}
"#),
    ("helper-family-name", "user fn ref_get__Ref_int32", r#"fn ref_get__Ref_int32(a: int32, b: int32) -> int32 { a + b }
fn main() -> unit {
  let r = ref(1);
  string_println(int32_to_string(ref_get(r) + ref_get__Ref_int32(1, 2)))
}
"#),
    ("benign", "control: no adversarial names", r#"struct Pt { x: int32, y: int32 }
enum Sh { Ci(int32), Sq(Pt) }
trait Show { fn show(Self) -> string; }
impl Show for Pt { fn show(self: Pt) -> string { int32_to_string(self.x) } }
fn area(s: Sh) -> int32 { match s { Sh::Ci(r) => r * r, Sh::Sq(p) => p.x * p.y } }
fn main() -> unit {
  let p = Pt { x: 1, y: 2 };
  let d: dyn Show = p;
  let r = ref((1, (2, 3)));
  let q = ref(((1, 2), 3));
  let x: (int32, (int32, int32)) = ref_get(r);
  let y: ((int32, int32), int32) = ref_get(q);
  let _ = string_println(Show::show(d));
  string_println(int32_to_string(area(Sh::Sq(p)) + area(Sh::Ci(2)) + x.0 + y.1))
}
"#),
];

pub const BENIGN: &str = "zq";

fn dictionary(rt: &[String]) -> Vec<(String, &'static str)> {
    let mut d: Vec<(String, &'static str)> = Vec::new();
    d.push((BENIGN.to_string(), "benign"));
    d.push(("Zq".to_string(), "benign"));
    for k in goscope::GO_KEYWORDS {
        d.push((k.to_string(), "go-keyword"));
    }
    for k in goscope::GO_PREDECLARED {
        d.push((k.to_string(), "go-predeclared"));
    }
    for k in rt {
        d.push((k.clone(), "runtime-helper"));
    }
    for p in ["t", "x", "mtmp", "ret", "cond", "env"] {
        for i in [0, 1, 2, 3, 5, 9, 12] {
            d.push((format!("{}{}", p, i), "gensym-like"));
        }
    }
    for s in ["main0", "main"] {
        d.push((s.to_string(), "entry"));
    }
    for s in ["fmt", "self", "p0", "p1", "value", "arr", "index", "reference", "data", "vtable", "s", "i"] {
        d.push((s.to_string(), "fixed-helper-name"));
    }
    for s in ["a_b", "a__b", "a__1", "x__0", "self__0", "z__9", "a_", "a__", "T_int32", "f__T_int32", "ret__0", "t__1"] {
        d.push((s.to_string(), "underscore"));
    }
    for s in ["Some", "None", "Tuple2_int32_int32", "ref_int32_x", "ref__Ref_int32", "ref_get__Ref_int32", "array_get__Array_3_int32",
              "closure_env_f_0", "closure_env_0", "closure_env_main_0", "dyn__Show", "dyn__Show_vtable", "dyn__Tr", "isE", "apply", "Vec", "Ref", "Tuple2", "TFunc", "Ptr"] {
        d.push((s.to_string(), "generated-like"));
    }
    d
}

fn program_cases(args: &util::Args, out: &mut String, stats: &mut String) {
    let rt: Vec<String> = runtime::make_runtime()
        .iter()
        .filter_map(|it| if let goast::Item::Fn(f) = it { Some(f.name.clone()) } else { None })
        .collect();
    let dict = dictionary(&rt);
    let base = util::scratch_dir("c19");
    let mut id = 0usize;
    let only: Option<&String> = args.rest.iter().position(|x| x == "--template").and_then(|i| args.rest.get(i + 1));
    for t in TEMPLATES {
        if only.is_some_and(|o| o != t.id) {
            continue;
        }
        for (name, class) in &dict {
            let src = t.text.replace("@N@", name);
            let dir = base.join(format!("p{}", id));
            let v = judge(&dir, &src);
            let _ = std::fs::remove_dir_all(&dir);
            let top: Vec<String> = v.toplevel.iter().map(|(n, k)| format!("{}:{}", k, n)).collect();
            let _ = writeln!(
                out,
                "p{}\tPROG\t{}\t{}\t{}\t{}\t{}\t{}\t{}\t{}\t{}\t{}\t{}",
                id,
                t.id,
                t.role,
                name,
                class,
                esc_line(&v.outcome),
                failures_text(&v.failures),
                v.shape,
                top.join(" "),
                v.locals.join(" "),
                v.universe.join(" "),
                esc_line(&src)
            );
            id += 1;
        }
    }
    for (wid, what, src) in WITNESSES {
        if only.is_some_and(|o| o != wid) {
            continue;
        }
        let dir = base.join(format!("w{}", id));
        let v = judge(&dir, src);
        let _ = std::fs::remove_dir_all(&dir);
        let top: Vec<String> = v.toplevel.iter().map(|(n, k)| format!("{}:{}", k, n)).collect();
        let _ = writeln!(
            out,
            "w{}\tWITNESS\t{}\t{}\t{}\t{}\t{}\t{}\t{}\t{}\t{}\t{}\t{}",
            id,
            wid,
            "witness",
            what,
            "witness",
            esc_line(&v.outcome),
            failures_text(&v.failures),
            v.shape,
            top.join(" "),
            v.locals.join(" "),
            v.universe.join(" "),
            esc_line(src)
        );
        id += 1;
    }
    // corpus: the oracle must accept what real Go accepted
    let mut n_corpus = 0;
    for dir in util::corpus_pipeline_dirs() {
        let path = dir.join("main.gom");
        let Ok(src) = std::fs::read_to_string(&path) else { continue };
        let v = match util::compile_path(&path, &src) {
            Outcome::Ok(c) => {
                let rep = goscope::check(&c.go, relied());
                (String::from("ok"), rep.failures, rep.shadowing, rep.toplevel.len(), rep.locals.len())
            }
            Outcome::Err(stage, _) => (format!("err:{}", stage), vec![], 0, 0, 0),
            Outcome::Panic(m) => (format!("panic:{}", m), vec![], 0, 0, 0),
        };
        let _ = writeln!(
            out,
            "c{}\tCORPUS\t{}\t{}\t{}\tshadowing={} toplevel={} locals={}",
            id,
            dir.file_name().unwrap().to_string_lossy(),
            esc_line(&v.0),
            failures_text(&v.1),
            v.2,
            v.3,
            v.4
        );
        id += 1;
        n_corpus += 1;
    }
    let _ = std::fs::remove_dir_all(&base);
    let _ = writeln!(stats, "templates={} dictionary={} witnesses={} corpus={}", TEMPLATES.len(), dict.len(), WITNESSES.len(), n_corpus);
}


// ------------------------------------------------------------------ part C: instance-name collision hunt (`gv c19inst`)
//
// Pairs of DISTINCT types chosen to coincide under plausible lossy spellings.  One program per pair
// instantiates ONE generic struct, ONE generic enum and ONE generic function at both types, with a
// different observable result per instance.  Written in the C01 row format (SRC / STAGE core / STAGE go),
// plus an `INST` row: the instance names the REAL mono pass produced (monoenv tables, MonoFile).

/// a type usable as a type argument: goml text, a value, and the body of `fn show(v: T) -> string`
struct Arg {
    ty: &'static str,
    value: &'static str,
    show: &'static str,
}

struct PairCase {
    family: &'static str,
    id: &'static str,
    /// extra declarations the two types need
    decls: &'static str,
    a: Arg,
    b: Arg,
    /// consistent renaming of user identifiers that must not change the outcome
    rename: &'static [(&'static str, &'static str)],
}

const I4: &str = "int32_to_string(a * 1000 + b * 100 + c * 10 + d)";

fn pair_cases() -> Vec<PairCase> {
    vec![
        PairCase {
            family: "tuple-grouping",
            id: "nest-2-1-1_vs_3-1",
            decls: "",
            a: Arg { ty: "((int32, int32), int32, int32)", value: "((1, 2), 3, 4)", show: "let (p, c, d) = v; let (a, b) = p; \"L\" + int32_to_string(a * 1000 + b * 100 + c * 10 + d)" },
            b: Arg { ty: "((int32, int32, int32), int32)", value: "((5, 6, 7), 8)", show: "let (p, d) = v; let (a, b, c) = p; \"R\" + int32_to_string(a * 1000 + b * 100 + c * 10 + d)" },
            rename: &[],
        },
        PairCase {
            family: "tuple-grouping",
            id: "left-nested_vs_right-nested",
            decls: "",
            a: Arg { ty: "((int32, int32), int32)", value: "((1, 2), 3)", show: "let (p, c) = v; let (a, b) = p; \"L\" + int32_to_string(a * 100 + b * 10 + c)" },
            b: Arg { ty: "(int32, (int32, int32))", value: "(4, (5, 6))", show: "let (a, p) = v; let (b, c) = p; \"R\" + int32_to_string(a * 100 + b * 10 + c)" },
            rename: &[],
        },
        PairCase {
            family: "tuple-grouping",
            id: "flat-3_vs_nested-2-1",
            decls: "",
            a: Arg { ty: "(int32, int32, int32)", value: "(1, 2, 3)", show: "let (a, b, c) = v; \"F\" + int32_to_string(a * 100 + b * 10 + c)" },
            b: Arg { ty: "((int32, int32), int32)", value: "((4, 5), 6)", show: "let (p, c) = v; let (a, b) = p; \"N\" + int32_to_string(a * 100 + b * 10 + c)" },
            rename: &[],
        },
        PairCase {
            family: "tuple-grouping",
            id: "mixed-leaves-regrouped",
            decls: "",
            a: Arg { ty: "((string, int32), (bool, int32))", value: "((\"s\", 1), (true, 2))", show: "let (p, q) = v; let (s, a) = p; let (t, b) = q; \"L\" + s + int32_to_string(a * 10 + b) + bool_to_string(t)" },
            b: Arg { ty: "(string, (int32, bool), int32)", value: "(\"t\", (3, false), 4)", show: "let (s, q, b) = v; let (a, t) = q; \"R\" + s + int32_to_string(a * 10 + b) + bool_to_string(t)" },
            rename: &[],
        },
        PairCase {
            family: "generic-application-vs-underscore-name",
            id: "Pair[int32]_vs_Pair_int32",
            decls: "struct Pair[T] { p: T }\nstruct Pair_int32 { q: int32 }\n",
            a: Arg { ty: "Pair[int32]", value: "Pair { p: 1 }", show: "\"app\" + int32_to_string(v.p)" },
            b: Arg { ty: "Pair_int32", value: "Pair_int32 { q: 2 }", show: "\"name\" + int32_to_string(v.q)" },
            rename: &[("Pair_int32", "PairI")],
        },
        PairCase {
            family: "generic-application-vs-underscore-name",
            id: "Duo[Wrap[int32],int32]_vs_Duo[Wrap_int32,int32]",
            decls: "struct Wrap[T] { w: T }\nstruct Wrap_int32 { z: int32 }\nstruct Two[X, Y] { x: X, y: Y }\n",
            a: Arg { ty: "Two[Wrap[int32], int32]", value: "Two { x: Wrap { w: 1 }, y: 2 }", show: "\"app\" + int32_to_string(v.x.w * 10 + v.y)" },
            b: Arg { ty: "Two[Wrap_int32, int32]", value: "Two { x: Wrap_int32 { z: 3 }, y: 4 }", show: "\"name\" + int32_to_string(v.x.z * 10 + v.y)" },
            rename: &[("Wrap_int32", "WrapI")],
        },
        PairCase {
            family: "nested-application-vs-flat-application",
            id: "Two[Two[i,i],i]_vs_Three[i,i,i]-style",
            decls: "struct Two[X, Y] { x: X, y: Y }\nstruct Two_int32_int32 { m: int32 }\n",
            a: Arg { ty: "Two[Two[int32, int32], int32]", value: "Two { x: Two { x: 1, y: 2 }, y: 3 }", show: "\"nest\" + int32_to_string(v.x.x * 100 + v.x.y * 10 + v.y)" },
            b: Arg { ty: "Two[Two_int32_int32, int32]", value: "Two { x: Two_int32_int32 { m: 4 }, y: 5 }", show: "\"flat\" + int32_to_string(v.x.m * 10 + v.y)" },
            rename: &[("Two_int32_int32", "TwoII")],
        },
        PairCase {
            family: "tuple-vs-underscore-name",
            id: "(A_B,C)_vs_(A,B_C)",
            decls: "struct A_B { a: int32 }\nstruct C { a: int32 }\nstruct A { a: int32 }\nstruct B_C { a: int32 }\n",
            a: Arg { ty: "(A_B, C)", value: "(A_B { a: 1 }, C { a: 2 })", show: "let (x, y) = v; \"L\" + int32_to_string(x.a * 10 + y.a)" },
            b: Arg { ty: "(A, B_C)", value: "(A { a: 3 }, B_C { a: 4 })", show: "let (x, y) = v; \"R\" + int32_to_string(x.a * 10 + y.a)" },
            rename: &[("A_B", "Ab"), ("B_C", "Bc")],
        },
        PairCase {
            family: "encoder-word-as-name",
            id: "(int32,int32)_vs_Tuple_int32_int32",
            decls: "struct Tuple_int32_int32 { t: int32 }\n",
            a: Arg { ty: "(int32, int32)", value: "(1, 2)", show: "let (a, b) = v; \"tup\" + int32_to_string(a * 10 + b)" },
            b: Arg { ty: "Tuple_int32_int32", value: "Tuple_int32_int32 { t: 3 }", show: "\"name\" + int32_to_string(v.t)" },
            rename: &[("Tuple_int32_int32", "TupII")],
        },
        PairCase {
            family: "encoder-word-as-name",
            id: "Vec[int32]_vs_Vec_int32",
            decls: "struct Vec_int32 { t: int32 }\n",
            a: Arg { ty: "Vec[int32]", value: "vec_push(vec_new(), 7)", show: "\"vec\" + int32_to_string(vec_len(v) * 10 + vec_get(v, 0))" },
            b: Arg { ty: "Vec_int32", value: "Vec_int32 { t: 3 }", show: "\"name\" + int32_to_string(v.t)" },
            rename: &[("Vec_int32", "VecI")],
        },
        PairCase {
            family: "encoder-word-as-name",
            id: "Ref[int32]_vs_Ref_int32",
            decls: "struct Ref_int32 { t: int32 }\n",
            a: Arg { ty: "Ref[int32]", value: "ref(6)", show: "\"ref\" + int32_to_string(ref_get(v))" },
            b: Arg { ty: "Ref_int32", value: "Ref_int32 { t: 3 }", show: "\"name\" + int32_to_string(v.t)" },
            rename: &[("Ref_int32", "RefI")],
        },
        PairCase {
            family: "encoder-word-as-name",
            id: "[int32;3]_vs_Array_3_int32",
            decls: "struct Array_3_int32 { t: int32 }\n",
            a: Arg { ty: "[int32; 3]", value: "[1, 2, 3]", show: "\"arr\" + int32_to_string(array_get(v, 0) * 100 + array_get(v, 2))" },
            b: Arg { ty: "Array_3_int32", value: "Array_3_int32 { t: 3 }", show: "\"name\" + int32_to_string(v.t)" },
            rename: &[("Array_3_int32", "ArrI")],
        },
        PairCase {
            family: "encoder-word-as-name",
            id: "(int32)->int32_vs_Fn_int32_to_int32",
            decls: "struct Fn_int32_to_int32 { t: int32 }\nfn succ(k: int32) -> int32 { k + 1 }\n",
            a: Arg { ty: "(int32) -> int32", value: "succ", show: "\"fn\" + int32_to_string(v(41))" },
            b: Arg { ty: "Fn_int32_to_int32", value: "Fn_int32_to_int32 { t: 3 }", show: "\"name\" + int32_to_string(v.t)" },
            rename: &[("Fn_int32_to_int32", "FnII")],
        },
        PairCase {
            family: "array-length-vs-digit-suffix",
            id: "[A1;2]_vs_[A;12]",
            decls: "struct A1 { a: int32 }\nstruct A { a: int32 }\n",
            a: Arg { ty: "[A1; 2]", value: "[A1 { a: 1 }, A1 { a: 2 }]", show: "\"two\" + int32_to_string(array_get(v, 1).a)" },
            b: Arg { ty: "[A; 12]", value: "[A { a: 1 }, A { a: 2 }, A { a: 3 }, A { a: 4 }, A { a: 5 }, A { a: 6 }, A { a: 7 }, A { a: 8 }, A { a: 9 }, A { a: 10 }, A { a: 11 }, A { a: 12 }]", show: "\"twelve\" + int32_to_string(array_get(v, 11).a)" },
            rename: &[("A1", "Aone")],
        },
        PairCase {
            family: "array-length-vs-digit-suffix",
            id: "[[int32;2];3]_vs_[[int32;3];2]",
            decls: "",
            a: Arg { ty: "[[int32; 2]; 3]", value: "[[1, 2], [3, 4], [5, 6]]", show: "\"a\" + int32_to_string(array_get(array_get(v, 2), 1))" },
            b: Arg { ty: "[[int32; 3]; 2]", value: "[[1, 2, 3], [4, 5, 6]]", show: "\"b\" + int32_to_string(array_get(array_get(v, 1), 2))" },
            rename: &[],
        },
        PairCase {
            family: "function-type-vs-tuple",
            id: "(i,i)->i_vs_((i,i),i)",
            decls: "fn add(a: int32, b: int32) -> int32 { a + b }\n",
            a: Arg { ty: "(int32, int32) -> int32", value: "add", show: "\"fn\" + int32_to_string(v(20, 22))" },
            b: Arg { ty: "((int32, int32), int32)", value: "((1, 2), 3)", show: "let (p, c) = v; let (a, b) = p; \"tup\" + int32_to_string(a * 100 + b * 10 + c)" },
            rename: &[],
        },
        PairCase {
            family: "function-type-vs-tuple",
            id: "()->i_vs_(unit)->i",
            decls: "fn zero() -> int32 { 10 }\nfn one(u: unit) -> int32 { 11 }\n",
            a: Arg { ty: "() -> int32", value: "zero", show: "\"nullary\" + int32_to_string(v())" },
            b: Arg { ty: "(unit) -> int32", value: "one", show: "\"unary\" + int32_to_string(v(()))" },
            rename: &[],
        },
        PairCase {
            family: "ref-vec-nesting",
            id: "Ref[Vec[i]]_vs_Vec[Ref[i]]",
            decls: "",
            a: Arg { ty: "Ref[Vec[int32]]", value: "ref(vec_push(vec_new(), 1))", show: "\"rv\" + int32_to_string(vec_get(ref_get(v), 0))" },
            b: Arg { ty: "Vec[Ref[int32]]", value: "vec_push(vec_new(), ref(2))", show: "\"vr\" + int32_to_string(ref_get(vec_get(v, 0)))" },
            rename: &[],
        },
        PairCase {
            family: "ref-vec-nesting",
            id: "Ref[Ref[i]]_vs_Ref[i]",
            decls: "",
            a: Arg { ty: "Ref[Ref[int32]]", value: "ref(ref(1))", show: "\"rr\" + int32_to_string(ref_get(ref_get(v)))" },
            b: Arg { ty: "Ref[int32]", value: "ref(2)", show: "\"r\" + int32_to_string(ref_get(v))" },
            rename: &[],
        },
        PairCase {
            family: "ref-vec-nesting",
            id: "Ref[Foo]_vs_Ref[foo]",
            decls: "struct Foo { a: int32 }\nstruct foo { a: int32 }\n",
            a: Arg { ty: "Ref[Foo]", value: "ref(Foo { a: 1 })", show: "\"upper\" + int32_to_string(ref_get(v).a)" },
            b: Arg { ty: "Ref[foo]", value: "ref(foo { a: 2 })", show: "\"lower\" + int32_to_string(ref_get(v).a + 40)" },
            rename: &[("foo", "Bar")],
        },
        PairCase {
            family: "enum-vs-struct-and-case",
            id: "Opt2[int32]_vs_opt2[int32]",
            decls: "struct Wr[T] { w: T }\nstruct wr[T] { w: T }\n",
            a: Arg { ty: "Wr[int32]", value: "Wr { w: 1 }", show: "\"upper\" + int32_to_string(v.w)" },
            b: Arg { ty: "wr[int32]", value: "wr { w: 2 }", show: "\"lower\" + int32_to_string(v.w + 40)" },
            rename: &[("wr", "Other")],
        },
        PairCase {
            family: "digits-in-names",
            id: "T1[int32]_vs_T[1?]",
            decls: "struct P1 { a: int32 }\nstruct P { a: int32 }\nstruct Pair[T] { p: T }\n",
            a: Arg { ty: "Pair[P1]", value: "Pair { p: P1 { a: 1 } }", show: "\"p1\" + int32_to_string(v.p.a)" },
            b: Arg { ty: "(Pair[P], int32)", value: "(Pair { p: P { a: 2 } }, 1)", show: "let (x, k) = v; \"p+1\" + int32_to_string(x.p.a * 10 + k)" },
            rename: &[("P1", "Pone")],
        },
        PairCase {
            family: "primitive-word-as-name",
            id: "(int32x,y)_vs_user-int32-like",
            decls: "struct int32_int32 { a: int32 }\nstruct Pair2[X, Y] { x: X, y: Y }\n",
            a: Arg { ty: "Pair2[int32, int32]", value: "Pair2 { x: 1, y: 2 }", show: "\"app\" + int32_to_string(v.x * 10 + v.y)" },
            b: Arg { ty: "(int32_int32, int32)", value: "(int32_int32 { a: 3 }, 4)", show: "let (x, k) = v; \"name\" + int32_to_string(x.a * 10 + k)" },
            rename: &[("int32_int32", "IntInt")],
        },
    ]
}

/// programs where the designated generic has TWO parameters and the instance name joins them with `__`
struct DuoCase {
    family: &'static str,
    id: &'static str,
    decls: &'static str,
    /// (X text, X value, Y text, Y value, show body over v: Duo[X, Y])
    a: (&'static str, &'static str, &'static str, &'static str, &'static str),
    b: (&'static str, &'static str, &'static str, &'static str, &'static str),
    rename: &'static [(&'static str, &'static str)],
}

fn duo_cases() -> Vec<DuoCase> {
    vec![
        DuoCase {
            family: "double-underscore-join",
            id: "Duo[A__B,C]_vs_Duo[A,B__C]",
            decls: "struct A__B { a: int32 }\nstruct C { a: int32 }\nstruct A { a: int32 }\nstruct B__C { a: int32 }\n",
            a: ("A__B", "A__B { a: 1 }", "C", "C { a: 2 }", "\"L\" + int32_to_string(v.x.a * 10 + v.y.a)"),
            b: ("A", "A { a: 3 }", "B__C", "B__C { a: 4 }", "\"R\" + int32_to_string(v.x.a * 10 + v.y.a)"),
            rename: &[("A__B", "Ab"), ("B__C", "Bc")],
        },
        DuoCase {
            family: "double-underscore-join",
            id: "fn[T,U]:T=A__U_B,U=C_vs_T=A,U=B__U_C",
            decls: "struct A__U_B { a: int32 }\nstruct C { a: int32 }\nstruct A { a: int32 }\nstruct B__U_C { a: int32 }\n",
            a: ("A__U_B", "A__U_B { a: 1 }", "C", "C { a: 2 }", "\"L\" + int32_to_string(v.x.a * 10 + v.y.a)"),
            b: ("A", "A { a: 3 }", "B__U_C", "B__U_C { a: 4 }", "\"R\" + int32_to_string(v.x.a * 10 + v.y.a)"),
            rename: &[("A__U_B", "Aub"), ("B__U_C", "Buc")],
        },
        DuoCase {
            family: "two-arguments-regrouped",
            id: "Duo[(i,i),i]_vs_Duo[i,(i,i)]",
            decls: "",
            a: ("(int32, int32)", "(1, 2)", "int32", "3", "let (a, b) = v.x; \"L\" + int32_to_string(a * 100 + b * 10 + v.y)"),
            b: ("int32", "4", "(int32, int32)", "(5, 6)", "let (b, c) = v.y; \"R\" + int32_to_string(v.x * 100 + b * 10 + c)"),
            rename: &[],
        },
        DuoCase {
            family: "two-arguments-regrouped",
            id: "Duo[Duo[i,i],i]_vs_Duo[i,Duo[i,i]]",
            decls: "",
            a: ("Duo[int32, int32]", "Duo { x: 1, y: 2 }", "int32", "3", "\"L\" + int32_to_string(v.x.x * 100 + v.x.y * 10 + v.y)"),
            b: ("int32", "4", "Duo[int32, int32]", "Duo { x: 5, y: 6 }", "\"R\" + int32_to_string(v.x * 100 + v.y.x * 10 + v.y.y)"),
            rename: &[],
        },
        DuoCase {
            family: "generic-application-vs-underscore-name",
            id: "Duo[Pair[i],i]_vs_Duo[Pair_int32,i]",
            decls: "struct Pair[T] { p: T }\nstruct Pair_int32 { q: int32 }\n",
            a: ("Pair[int32]", "Pair { p: 1 }", "int32", "2", "\"app\" + int32_to_string(v.x.p * 10 + v.y)"),
            b: ("Pair_int32", "Pair_int32 { q: 3 }", "int32", "4", "\"name\" + int32_to_string(v.x.q * 10 + v.y)"),
            rename: &[("Pair_int32", "PairI")],
        },
    ]
}

fn rename_idents(src: &str, map: &[(&str, &str)]) -> String {
    // whole-identifier replacement
    let mut out = String::new();
    let cs: Vec<char> = src.chars().collect();
    let mut i = 0;
    while i < cs.len() {
        if cs[i].is_ascii_alphabetic() || cs[i] == '_' {
            let mut j = i;
            while j < cs.len() && (cs[j].is_ascii_alphanumeric() || cs[j] == '_') {
                j += 1;
            }
            let w: String = cs[i..j].iter().collect();
            match map.iter().find(|(f, _)| *f == w) {
                Some((_, t)) => out.push_str(t),
                None => out.push_str(&w),
            }
            i = j;
        } else {
            out.push(cs[i]);
            i += 1;
        }
    }
    out
}

fn pair_program(c: &PairCase) -> String {
    format!(
        r#"{decls}struct Box[T] {{ value: T }}
enum Opt[T] {{ Som(T), Non }}
fn keep[T](x: T) -> Box[T] {{ Box {{ value: x }} }}
fn first[T](x: T, y: T) -> T {{ x }}
fn show_a(v: {ta}) -> string {{ {sa} }}
fn show_b(v: {tb}) -> string {{ {sb} }}
fn main() -> unit {{
  let a: {ta} = {va};
  let b: {tb} = {vb};
  let ba = keep(a);
  let bb = keep(b);
  let fa = first(a, a);
  let fb = first(b, b);
  let oa = Opt::Som(fa);
  let ob = Opt::Som(fb);
  let na: Opt[{ta}] = Opt::Non;
  let _ = string_println("A " + show_a(ba.value));
  let _ = string_println("B " + show_b(bb.value));
  let _ = match oa {{ Opt::Som(v) => string_println("oa " + show_a(v)), Opt::Non => string_println("oa none"), }};
  let _ = match na {{ Opt::Som(v) => string_println("na " + show_a(v)), Opt::Non => string_println("na none"), }};
  match ob {{ Opt::Som(v) => string_println("ob " + show_b(v)), Opt::Non => string_println("ob none"), }}
}}
"#,
        decls = c.decls,
        ta = c.a.ty,
        tb = c.b.ty,
        va = c.a.value,
        vb = c.b.value,
        sa = c.a.show,
        sb = c.b.show
    )
}

fn duo_program(c: &DuoCase) -> String {
    format!(
        r#"{decls}struct Duo[X, Y] {{ x: X, y: Y }}
enum Alt[X, Y] {{ Lft(X), Rgt(Y) }}
fn duo[T, U](t: T, u: U) -> Duo[T, U] {{ Duo {{ x: t, y: u }} }}
fn show_a(v: Duo[{xa}, {ya}]) -> string {{ {sa} }}
fn show_b(v: Duo[{xb}, {yb}]) -> string {{ {sb} }}
fn main() -> unit {{
  let p: Duo[{xa}, {ya}] = duo({vxa}, {vya});
  let q: Duo[{xb}, {yb}] = duo({vxb}, {vyb});
  let la: Alt[{xa}, {ya}] = Alt::Lft(p.x);
  let lb: Alt[{xb}, {yb}] = Alt::Rgt(q.y);
  let _ = string_println("A " + show_a(p));
  let _ = string_println("B " + show_b(q));
  let _ = match la {{ Alt::Lft(_) => string_println("la left"), Alt::Rgt(_) => string_println("la right"), }};
  match lb {{ Alt::Lft(_) => string_println("lb left"), Alt::Rgt(_) => string_println("lb right"), }}
}}
"#,
        decls = c.decls,
        xa = c.a.0,
        vxa = c.a.1,
        ya = c.a.2,
        vya = c.a.3,
        sa = c.a.4,
        xb = c.b.0,
        vxb = c.b.1,
        yb = c.b.2,
        vyb = c.b.3,
        sb = c.b.4
    )
}

pub(crate) fn emit_instance_case(id: &str, family: &str, variant: &str, bases: &[&str], fns: &[&str], src: &str, dir: &std::path::Path, out: &mut String) {
    match util::compile_text(dir, src) {
        Outcome::Ok(c) => {
            // the REAL instance tables: names of the monomorphic copies of each designated base
            let mut rows = Vec::new();
            for b in bases {
                let pre = format!("{}__", b);
                let mut names: Vec<String> = c
                    .monoenv
                    .mono_enums
                    .keys()
                    .map(|k| k.0.clone())
                    .chain(c.monoenv.mono_structs.keys().map(|k| k.0.clone()))
                    .filter(|n| n.starts_with(&pre))
                    .collect();
                names.sort();
                names.dedup();
                rows.push(tagged("type", vec![a(*b), l(names.iter().map(a).collect())]));
            }
            for f in fns {
                let pre = format!("{}__", f);
                let names: Vec<String> = c.mono.toplevels.iter().map(|m| m.name.clone()).filter(|n| n.starts_with(&pre)).collect();
                rows.push(tagged("fn", vec![a(*f), l(names.iter().map(a).collect())]));
            }
            // Go level: declared names of instance types / functions
            let rep = goscope::check(&c.go, relied());
            let fails: Vec<S> = rep.failures.iter().map(|f| l(vec![a(f.kind), a(&f.name)])).collect();
            let _ = writeln!(out, "{}\tEXPECT\tnone\t", id);
            let _ = writeln!(out, "{}\tSRC\t{}", id, esc_line(src));
            let _ = writeln!(out, "{}\tINST\t{}\t{}\t{}\t{}", id, family, variant, l(rows).to_text(), l(fails).to_text());
            let impls = crate::c01::impls_table(&c.genv);
            let _ = writeln!(out, "{}\tSTAGE\tcore\t{}", id, crate::c01::prog(crate::dump::core_file(&c.core), &impls).to_text());
            let _ = writeln!(out, "{}\tSTAGE\tmono\t{}", id, crate::c01::prog(crate::dump::mono_file(&c.mono), &impls).to_text());
            let _ = writeln!(out, "{}\tSTAGE\tgo\t{}", id, crate::godump::gfile(&c.go).to_text());
        }
        Outcome::Err(stage, msgs) => {
            let _ = writeln!(out, "{}\tINST\t{}\t{}\t()\t()", id, family, variant);
            let _ = writeln!(out, "{}\tREJECT\t{}\t{}\t{}", id, stage, esc_line(&msgs.join(" | ")), esc_line(src));
        }
        Outcome::Panic(m) => {
            let _ = writeln!(out, "{}\tINST\t{}\t{}\t()\t()", id, family, variant);
            let _ = writeln!(out, "{}\tPANIC\t{}\t{}", id, esc_line(&m), esc_line(src));
        }
    }
}

// ------------------------------------------------------------------ part D: identifier-level collisions (in `gv c19inst`)
//
// Two source names that a plausible escape would map to one Go identifier — a Go keyword / predeclared
// word `w` next to `w_`, `w__`, `w0`, `w_1`, `goml_w`, `W`; names that differ only in characters an escape
// might drop or fold — BOTH declared in one Go scope, for every item kind that is emitted under
// `go_ident`, with different observable behaviour.  `IDENT` row: the REAL `go_ident` of both names and the
// identifiers the real Go AST declares.

/// (kind, program with @A@ / @B@, where go_ident(A) must be declared: "top" | "field:<struct>" | "-")
pub(crate) const IDENT_KINDS: &[(&str, &str, &str)] = &[
    ("fn", "fn @A@(k: int32) -> int32 { k + 1 }\nfn @B@(k: int32) -> int32 { k * 2 }\nfn main() -> unit { string_println(int32_to_string(@A@(10) * 100 + @B@(10))) }\n", "top"),
    ("struct", "struct @A@ { p: int32 }\nstruct @B@ { q: string }\nfn main() -> unit { let x = @A@ { p: 1 }; let y = @B@ { q: \"s\" }; string_println(int32_to_string(x.p) + y.q) }\n", "top"),
    ("enum", "enum @A@ { Aa, Ab(int32) }\nenum @B@ { Ba(string) }\nfn main() -> unit { let x = @A@::Ab(3); let y = @B@::Ba(\"t\"); let n = match x { @A@::Aa => 0, @A@::Ab(v) => v, }; let m = match y { @B@::Ba(w) => w, }; string_println(int32_to_string(n) + m) }\n", "top"),
    ("variant", "enum Ee { @A@(int32), @B@(string), Zz }\nfn show(e: Ee) -> string { match e { Ee::@A@(v) => \"a\" + int32_to_string(v), Ee::@B@(w) => \"b\" + w, Ee::Zz => \"z\", } }\nfn main() -> unit { string_println(show(Ee::@A@(1)) + show(Ee::@B@(\"s\")) + show(Ee::Zz)) }\n", "top"),
    ("field", "struct Ss { @A@: int32, @B@: int32 }\nfn main() -> unit { let s = Ss { @A@: 1, @B@: 20 }; let Ss { @A@: p, @B@: q } = s; string_println(int32_to_string(s.@A@ + s.@B@ * 10 + p * 1000 + q * 10000)) }\n", "field:Ss"),
    ("trait", "trait @A@ { fn mm(Self) -> int32; }\ntrait @B@ { fn mm(Self) -> int32; }\nimpl @A@ for int32 { fn mm(self: int32) -> int32 { self + 1 } }\nimpl @B@ for int32 { fn mm(self: int32) -> int32 { self * 2 } }\nfn main() -> unit { let n: int32 = 10; let d: dyn @A@ = n; let e: dyn @B@ = n; string_println(int32_to_string(@A@::mm(n) + @B@::mm(n) * 100 + @A@::mm(d) * 10000 + @B@::mm(e) * 1000000)) }\n", "-"),
    ("trait-method", "trait Tt { fn @A@(Self) -> int32; fn @B@(Self) -> int32; }\nimpl Tt for int32 { fn @A@(self: int32) -> int32 { self + 1 } fn @B@(self: int32) -> int32 { self * 2 } }\nfn via[T: Tt](x: T) -> int32 { Tt::@A@(x) + Tt::@B@(x) * 100 }\nfn main() -> unit { let n: int32 = 10; let d: dyn Tt = n; string_println(int32_to_string(via(n) + Tt::@A@(d) * 10000 + Tt::@B@(d) * 1000000)) }\n", "field:dyn__Tt_vtable"),
    ("inherent-method", "struct Pp { v: int32 }\nimpl Pp { fn @A@(self: Pp) -> int32 { self.v + 1 } fn @B@(self: Pp) -> int32 { self.v * 2 } }\nfn main() -> unit { let p = Pp { v: 10 }; string_println(int32_to_string(p.@A@() + Pp::@B@(p) * 100)) }\n", "-"),
    ("extern-type", "extern type @A@\nextern type @B@\nextern \"go\" \"time\" unix(secs: int32, nanos: int32) -> @A@\nextern \"go\" \"time\" duration(nanos: int32) -> @B@\nextern \"go\" \"fmt\" \"Sprintf\" fa(format: string, value: @A@) -> string\nextern \"go\" \"fmt\" \"Sprintf\" fb(format: string, value: @B@) -> string\nfn main() -> unit { let _ = string_println(fa(\"%v\", unix(1, 2))); string_println(fb(\"%v\", duration(3))) }\n", "top"),
    ("extern-fn", "extern \"go\" \"strings\" \"ToUpper\" @A@(s: string) -> string\nextern \"go\" \"strings\" \"ToLower\" @B@(s: string) -> string\nfn main() -> unit { string_println(@A@(\"aB\") + @B@(\"cD\")) }\n", "-"),
    ("local", "fn ff(@A@: int32, @B@: int32) -> int32 { @A@ * 10 + @B@ }\nfn main() -> unit { let @A@ = 1; let @B@ = 2; let g = |z: int32| z + @A@ * 10 + @B@; string_println(int32_to_string(ff(@A@, @B@) * 1000 + g(0))) }\n", "-"),
    ("type-parameter", "struct Dd[@A@, @B@] { l: @A@, r: @B@ }\nfn mk[@A@, @B@](x: @A@, y: @B@) -> Dd[@A@, @B@] { Dd { l: x, r: y } }\nfn main() -> unit { let d = mk(1, \"s\"); string_println(int32_to_string(d.l) + d.r) }\n", "-"),
];

fn cap(w: &str) -> String {
    let mut c = w.chars();
    match c.next() {
        Some(f) => f.to_ascii_uppercase().to_string() + c.as_str(),
        None => String::new(),
    }
}

/// (pattern id, sibling of `w`)
fn siblings(w: &str) -> Vec<(&'static str, String)> {
    vec![
        ("w_", format!("{}_", w)),
        ("w__", format!("{}__", w)),
        ("w0", format!("{}0", w)),
        ("w_1", format!("{}_1", w)),
        ("goml_w", format!("goml_{}", w)),
        ("Cap", cap(w)),
        ("_goml_w", format!("_goml_{}", w)),
        ("_w", format!("_{}", w)),
    ]
}

/// word-independent pairs: characters an escape might drop, fold or confuse with its own output
const FOLD_PAIRS: &[(&str, &str, &str)] = &[
    ("a_b/a__b", "a_b", "a__b"),
    ("a_b/a_B", "a_b", "a_B"),
    ("ab/ab_", "ab", "ab_"),
    ("ab/aB", "ab", "aB"),
    ("hex-lookalike", "a_x3a_b", "a_x3ab"),
    ("hex-lookalike-2", "x_x5f_y", "x__y"),
    ("prefix-lookalike", "goml_ab", "ab"),
    ("prefix-lookalike-2", "goml__ab", "goml_ab"),
    ("digits", "a1", "a_1"),
    ("double-underscore-local-shape", "a__1", "a"),
];

fn emit_ident_case(id: &str, kind: &str, pattern: &str, word: &str, an: &str, bn: &str, want: &str, src: &str, dir: &std::path::Path, out: &mut String) {
    let ga = guarded(|| mangle::go_ident(an));
    let gb = guarded(|| mangle::go_ident(bn));
    match util::compile_text(dir, src) {
        Outcome::Ok(c) => {
            let rep = goscope::check(&c.go, relied());
            let fails: Vec<S> = rep.failures.iter().map(|f| l(vec![a(f.kind), a(&f.name)])).collect();
            // identifiers the real Go AST declares in the scope the two names share
            let mut declared: Vec<String> = Vec::new();
            if want == "top" {
                declared = rep.toplevel.iter().map(|(n, _)| n.clone()).collect();
            } else if let Some(sname) = want.strip_prefix("field:") {
                for item in &c.go.toplevels {
                    if let goast::Item::Struct(st) = item {
                        if st.name == sname {
                            declared = st.fields.iter().map(|f| f.name.clone()).collect();
                        }
                    }
                }
            }
            let _ = writeln!(out, "{}\tEXPECT\tnone\t", id);
            let _ = writeln!(out, "{}\tSRC\t{}", id, esc_line(src));
            let _ = writeln!(
                out,
                "{}\tIDENT\t{}\t{}\t{}\t{}\t{}\t{}\t{}\t{}\t{}\t{}\t{}",
                id, kind, pattern, word, an, bn, ga, gb, want, declared.join(" "), rep.shape.join(","), l(fails).to_text()
            );
            let impls = crate::c01::impls_table(&c.genv);
            let _ = writeln!(out, "{}\tSTAGE\tcore\t{}", id, crate::c01::prog(crate::dump::core_file(&c.core), &impls).to_text());
            let _ = writeln!(out, "{}\tSTAGE\tmono\t{}", id, crate::c01::prog(crate::dump::mono_file(&c.mono), &impls).to_text());
            let _ = writeln!(out, "{}\tSTAGE\tgo\t{}", id, crate::godump::gfile(&c.go).to_text());
        }
        Outcome::Err(stage, msgs) => {
            let _ = writeln!(out, "{}\tIDENT\t{}\t{}\t{}\t{}\t{}\t{}\t{}\t{}\t\t\t()", id, kind, pattern, word, an, bn, ga, gb, want);
            let _ = writeln!(out, "{}\tREJECT\t{}\t{}\t{}", id, stage, esc_line(&msgs.join(" | ")), esc_line(src));
        }
        Outcome::Panic(m) => {
            let _ = writeln!(out, "{}\tIDENT\t{}\t{}\t{}\t{}\t{}\t{}\t{}\t{}\t\t\t()", id, kind, pattern, word, an, bn, ga, gb, want);
            let _ = writeln!(out, "{}\tPANIC\t{}\t{}", id, esc_line(&m), esc_line(src));
        }
    }
}

fn ident_cases(args: &util::Args, dir: &std::path::Path, out: &mut String) -> usize {
    let thorough = args.tier == "thorough";
    let mut n = 0;
    let mut words: Vec<&str> = goscope::GO_KEYWORDS.to_vec();
    words.extend(["len", "append", "panic", "println", "print", "any", "nil", "true", "false", "new", "make", "cap", "copy", "error", "iota", "int", "byte", "rune"]);
    for (ki, (kind, tpl, want)) in IDENT_KINDS.iter().enumerate() {
        // control: the same program with two ordinary names
        let src = tpl.replace("@A@", "zqa").replace("@B@", "zqb");
        emit_ident_case(&format!("ident/{}/control/zqa~zqb", kind), kind, "control", "-", "zqa", "zqb", want, &src, dir, out);
        n += 1;
        let (up_a, up_b) = ("Zqa", "Zqb");
        let src = tpl.replace("@A@", up_a).replace("@B@", up_b);
        emit_ident_case(&format!("ident/{}/control/Zqa~Zqb", kind), kind, "control", "-", up_a, up_b, want, &src, dir, out);
        n += 1;
        for (wi, w) in words.iter().enumerate() {
            // an `extern type w` stands for the Go type `pkg.w`: a keyword there is the user's own invalid request
            if *kind == "extern-type" && goscope::GO_KEYWORDS.contains(w) {
                continue;
            }
            for (si, (pat, sib)) in siblings(w).iter().enumerate() {
                // quick: the trailing-underscore sibling for every word, the others in rotation
                if !thorough && si != 0 && (wi + ki + si + args.seed as usize) % 4 != 0 {
                    continue;
                }
                let src = tpl.replace("@A@", w).replace("@B@", sib);
                emit_ident_case(&format!("ident/{}/{}/{}~{}", kind, pat, w, sib), kind, pat, w, w, sib, want, &src, dir, out);
                n += 1;
            }
        }
        for (pat, x, y) in FOLD_PAIRS {
            let src = tpl.replace("@A@", x).replace("@B@", y);
            emit_ident_case(&format!("ident/{}/{}/{}~{}", kind, pat, x, y), kind, "fold", pat, x, y, want, &src, dir, out);
            n += 1;
        }
    }
    n
}

pub fn main_inst(args: &util::Args) {
    util::quiet_panics();
    let _ = std::fs::create_dir_all(&args.out);
    let rel: Vec<String> = args
        .rest
        .iter()
        .position(|x| x == "--relied")
        .and_then(|i| args.rest.get(i + 1))
        .map(|s| s.split(',').map(|x| x.to_string()).collect())
        .unwrap_or_else(|| vec!["any".to_string()]);
    let _ = RELIED.set(rel);
    let dir = util::scratch_dir("c19inst");
    let mut out = String::new();
    let mut n = 0;
    for c in pair_cases() {
        let src = pair_program(&c);
        let id = format!("inst/{}/{}", c.family, c.id);
        emit_instance_case(&format!("{}/orig", id), c.family, "orig", &["Box", "Opt"], &["keep", "first"], &src, &dir, &mut out);
        n += 1;
        if !c.rename.is_empty() {
            let r = rename_idents(&src, c.rename);
            emit_instance_case(&format!("{}/renamed", id), c.family, "renamed", &["Box", "Opt"], &["keep", "first"], &r, &dir, &mut out);
            n += 1;
        }
        // the same pair in the other order: which instance is created last must not matter
        let swapped = PairCase { family: c.family, id: c.id, decls: c.decls, a: Arg { ..c.b }, b: Arg { ..c.a }, rename: c.rename };
        emit_instance_case(&format!("{}/swapped", id), c.family, "swapped", &["Box", "Opt"], &["keep", "first"], &pair_program(&swapped), &dir, &mut out);
        n += 1;
    }
    for c in duo_cases() {
        let src = duo_program(&c);
        let id = format!("inst/{}/{}", c.family, c.id);
        emit_instance_case(&format!("{}/orig", id), c.family, "orig", &["Duo", "Alt"], &["duo"], &src, &dir, &mut out);
        n += 1;
        if !c.rename.is_empty() {
            let r = rename_idents(&src, c.rename);
            emit_instance_case(&format!("{}/renamed", id), c.family, "renamed", &["Duo", "Alt"], &["duo"], &r, &dir, &mut out);
            n += 1;
        }
    }
    let n_ident = ident_cases(args, &dir, &mut out);
    n += n_ident;
    // part E: the instance-name universe (c19univ.rs); its per-type rows go to a file of their own
    let mut univ = String::new();
    let n_univ = crate::c19univ::run(args, &dir, &mut out, &mut univ);
    n += n_univ;
    std::fs::write(args.out.join("c19inst.univ.tsv"), univ).expect("write");
    let _ = std::fs::remove_dir_all(&dir);
    let _ = writeln!(out, "#FEATS\tpair_cases={} duo_cases={} ident_kinds={} ident_programs={} programs={}", pair_cases().len(), duo_cases().len(), IDENT_KINDS.len(), n_ident, n);
    std::fs::write(args.out.join("c19inst.cases.tsv"), out).expect("write");
    println!("c19inst programs={}", n);
}

pub fn main(args: &util::Args) {
    util::quiet_panics();
    let _ = std::fs::create_dir_all(&args.out);
    let rel: Vec<String> = args
        .rest
        .iter()
        .position(|x| x == "--relied")
        .and_then(|i| args.rest.get(i + 1))
        .map(|s| s.split(',').map(|x| x.to_string()).collect())
        .unwrap_or_else(|| vec!["any".to_string()]);
    let _ = RELIED.set(rel);
    let mut stats = String::new();
    if !args.rest.iter().any(|x| x == "--programs-only") {
        let mut out = String::new();
        encoder_cases(args, &mut out, &mut stats);
        std::fs::write(args.out.join("c19.enc.tsv"), out).expect("write");
    }
    if !args.rest.iter().any(|x| x == "--encoders-only") {
        let mut out = String::new();
        program_cases(args, &mut out, &mut stats);
        std::fs::write(args.out.join("c19.prog.tsv"), out).expect("write");
    }
    std::fs::write(args.out.join("c19.stats.txt"), &stats).expect("write");
    print!("{}", stats);
}
