//! C19 — instance-name UNIVERSE hunt (part E of `gv c19inst`).
//!
//! The pair catalogue of `c19.rs` (part C) holds hand-picked pairs of types a lossy spelling might merge.
//! This part does not pick pairs.  It enumerates a universe of source types — every type constructor of
//! the language (tuple, generic application of one and two parameters, `Vec`, `Ref`, array at three
//! lengths, function types of arity 0/1/2, `dyn`) applied one level deep to every atom, two levels deep
//! exhaustively over a two-atom set (quick: a seeded sample of the second level) — and instantiates ONE
//! generic enum, ONE generic struct and ONE generic function at each of them, every type in a program of
//! its own, value-free (`let n: Opt[T] = none();`), through the real pipeline.  The names the REAL
//! `TypeMono` / `spec_name_for` gave are read from the real instance tables and grouped: two distinct
//! types under one name (Mono name, or Go name after the real `go_ident`) is a collision, and the two
//! types are then put into ONE program that goes through every oracle of the pair hunt (`INST` row).
//!
//! The user-declared atoms are adversarial without being picked by hand: for every compound type of the
//! first level the REAL encoders of the compiler (`encode_ty`, `go_type_name_for`, `ty_compact`,
//! `go_ident ∘ ty_compact`) are asked for their spelling, and every spelling that is a legal identifier
//! of the language becomes a declared struct of the universe (`Vec_int32`, `Tuple2_int32_A`, `dynTr`, …):
//! whatever spelling function instance names are built from, a user type spelled like its output for
//! some other type is in the universe.
use crate::rng::Rng;
use crate::sexp::esc_line;
use crate::util::{self, Outcome};
use compiler::go::{goast, mangle};
use compiler::{names, tast};
use std::collections::{BTreeMap, BTreeSet};
use std::fmt::Write as _;
use std::panic::{AssertUnwindSafe, catch_unwind};

#[derive(Clone)]
pub struct UTy {
    /// source text of the type
    pub src: String,
    pub ty: tast::Ty,
    /// outermost constructor, for signatures
    pub shape: &'static str,
    /// user declarations the type needs (names)
    pub uses: BTreeSet<String>,
}

fn atom(src: &str, ty: tast::Ty, shape: &'static str, user: bool) -> UTy {
    let mut uses = BTreeSet::new();
    if user {
        uses.insert(src.trim_start_matches("dyn ").to_string());
    }
    UTy { src: src.to_string(), ty, shape, uses }
}

fn st(n: &str) -> tast::Ty {
    tast::Ty::TStruct { name: n.to_string() }
}

fn union(xs: &[&UTy]) -> BTreeSet<String> {
    let mut s = BTreeSet::new();
    for x in xs {
        s.extend(x.uses.iter().cloned());
    }
    s
}

fn tuple(xs: &[&UTy]) -> UTy {
    UTy {
        src: format!("({})", xs.iter().map(|x| x.src.clone()).collect::<Vec<_>>().join(", ")),
        ty: tast::Ty::TTuple { typs: xs.iter().map(|x| x.ty.clone()).collect() },
        shape: "tuple",
        uses: union(xs),
    }
}

fn app(head: &str, xs: &[&UTy]) -> UTy {
    let mut uses = union(xs);
    uses.insert(head.to_string());
    UTy {
        src: format!("{}[{}]", head, xs.iter().map(|x| x.src.clone()).collect::<Vec<_>>().join(", ")),
        ty: tast::Ty::TApp { ty: Box::new(st(head)), args: xs.iter().map(|x| x.ty.clone()).collect() },
        shape: "app",
        uses,
    }
}

fn vec_of(x: &UTy) -> UTy {
    UTy { src: format!("Vec[{}]", x.src), ty: tast::Ty::TVec { elem: Box::new(x.ty.clone()) }, shape: "vec", uses: x.uses.clone() }
}

fn ref_of(x: &UTy) -> UTy {
    UTy { src: format!("Ref[{}]", x.src), ty: tast::Ty::TRef { elem: Box::new(x.ty.clone()) }, shape: "ref", uses: x.uses.clone() }
}

fn array_of(x: &UTy, len: usize) -> UTy {
    UTy { src: format!("[{}; {}]", x.src, len), ty: tast::Ty::TArray { len, elem: Box::new(x.ty.clone()) }, shape: "array", uses: x.uses.clone() }
}

fn func(ps: &[&UTy], r: &UTy) -> UTy {
    let mut all: Vec<&UTy> = ps.to_vec();
    all.push(r);
    UTy {
        src: format!("({}) -> {}", ps.iter().map(|x| x.src.clone()).collect::<Vec<_>>().join(", "), r.src),
        ty: tast::Ty::TFunc { params: ps.iter().map(|x| x.ty.clone()).collect(), ret_ty: Box::new(r.ty.clone()) },
        shape: "func",
        uses: union(&all),
    }
}

const ARRAY_LENS: [usize; 3] = [1, 2, 12];

/// every constructor applied to every choice of components from `xs` (binary positions: all pairs)
fn level(xs: &[UTy], ternary: bool) -> Vec<UTy> {
    let mut out = Vec::new();
    for x in xs {
        out.push(app("P", &[x]));
        out.push(vec_of(x));
        out.push(ref_of(x));
        for n in ARRAY_LENS {
            out.push(array_of(x, n));
        }
        out.push(func(&[], x));
        for y in xs {
            out.push(tuple(&[x, y]));
            out.push(app("Q", &[x, y]));
            out.push(func(&[x], y));
            if ternary {
                for z in xs {
                    out.push(tuple(&[x, y, z]));
                    out.push(func(&[x, y], z));
                }
            }
        }
    }
    out
}

pub fn is_ident(s: &str) -> bool {
    let mut cs = s.chars();
    match cs.next() {
        // the lexer of the language wants a letter first (`_x` is not an identifier)
        Some(c) if c.is_ascii_alphabetic() => {}
        _ => return false,
    }
    cs.all(|c| c.is_ascii_alphanumeric() || c == '_')
}

/// the spellings the compiler's own encoders give a type: candidates for adversarial user names
pub fn real_spellings(t: &tast::Ty) -> Vec<String> {
    let mut v = Vec::new();
    let mut push = |f: &dyn Fn() -> String| {
        if let Ok(s) = catch_unwind(AssertUnwindSafe(f)) {
            v.push(s);
        }
    };
    push(&|| mangle::encode_ty(t));
    push(&|| goast::go_type_name_for(t));
    push(&|| names::ty_compact(t));
    push(&|| mangle::go_ident(&names::ty_compact(t)));
    v
}

pub const PRIM_WORDS: [&str; 14] = ["unit", "bool", "int8", "int16", "int32", "int64", "uint8", "uint16", "uint32", "uint64", "float32", "float64", "string", "char"];

fn decl_for(name: &str) -> String {
    match name {
        "P" => "struct P[T] { p: T }\n".to_string(),
        "Q" => "struct Q[X, Y] { x: X, y: Y }\n".to_string(),
        "E" => "enum E { E1, E2(int32) }\n".to_string(),
        "Tr" => "trait Tr { fn tr(Self) -> int32; }\nimpl Tr for int32 { fn tr(self: int32) -> int32 { self } }\n".to_string(),
        n => format!("struct {} {{ f: int32 }}\n", n),
    }
}

const PRELUDE: &str = "enum Opt[T] { Som(T), Non }\nstruct Box[T] { value: Opt[T] }\nfn none[T]() -> Opt[T] { Opt::Non }\n";

fn single_program(t: &UTy) -> String {
    let decls: String = t.uses.iter().map(|n| decl_for(n)).collect();
    format!(
        "{decls}{PRELUDE}fn tag(o: Opt[{ty}]) -> string {{ match o {{ Opt::Som(_) => \"some\", Opt::Non => \"none\" }} }}\nfn main() -> unit {{\n  let n: Opt[{ty}] = none();\n  let b: Box[{ty}] = Box {{ value: n }};\n  string_println(tag(b.value))\n}}\n",
        decls = decls,
        PRELUDE = PRELUDE,
        ty = t.src
    )
}

fn pair_program(a: &UTy, b: &UTy) -> String {
    let decls: String = union(&[a, b]).iter().map(|n| decl_for(n)).collect();
    format!(
        "{decls}{PRELUDE}fn tag_a(o: Opt[{ta}]) -> string {{ match o {{ Opt::Som(_) => \"a some\", Opt::Non => \"a none\" }} }}\nfn tag_b(o: Opt[{tb}]) -> string {{ match o {{ Opt::Som(_) => \"b some\", Opt::Non => \"b none\" }} }}\nfn main() -> unit {{\n  let a: Opt[{ta}] = none();\n  let b: Opt[{tb}] = none();\n  let ba: Box[{ta}] = Box {{ value: a }};\n  let bb: Box[{tb}] = Box {{ value: b }};\n  let _ = string_println(tag_a(ba.value));\n  string_println(tag_b(bb.value))\n}}\n",
        decls = decls,
        PRELUDE = PRELUDE,
        ta = a.src,
        tb = b.src
    )
}

/// the universe: (types, number of derived adversarial names, number of level-2 types before sampling)
pub fn universe(seed: u64, thorough: bool) -> (Vec<UTy>, Vec<String>, usize) {
    use tast::Ty::*;
    let base: Vec<UTy> = vec![
        atom("int32", TInt32, "prim", false),
        atom("string", TString, "prim", false),
        atom("bool", TBool, "prim", false),
        atom("unit", TUnit, "prim", false),
        atom("A", st("A"), "struct", true),
        atom("B", st("B"), "struct", true),
        atom("A_B", st("A_B"), "struct", true),
        atom("A__B", st("A__B"), "struct", true),
        atom("a", st("a"), "struct", true),
        atom("E", TEnum { name: "E".into() }, "enum", true),
        atom("dyn Tr", TDyn { trait_name: "Tr".into() }, "dyn", true),
    ];
    let l1 = level(&base, false);
    // adversarial names: what the real encoders answer for the atoms' and the first level's types
    let taken: BTreeSet<String> = ["P", "Q", "E", "Tr", "Opt", "Box", "none", "tag", "main", "Vec", "Ref", "Som", "Non", "E1", "E2"]
        .iter()
        .map(|s| s.to_string())
        .chain(base.iter().flat_map(|b| b.uses.iter().cloned()))
        .chain(PRIM_WORDS.iter().map(|s| s.to_string()))
        .collect();
    let mut derived: BTreeSet<String> = BTreeSet::new();
    // quick tier: the spellings of every constructor over {int32, A, dyn Tr} (+ every atom); thorough: over all atoms
    let dsrc: Vec<UTy> = if thorough { l1.clone() } else { level(&[base[0].clone(), base[4].clone(), base[10].clone()], false) };
    for t in base.iter().chain(dsrc.iter()) {
        for s in real_spellings(&t.ty) {
            if is_ident(&s) && !taken.contains(&s) {
                derived.insert(s);
            }
        }
    }
    let derived: Vec<String> = derived.into_iter().collect();
    let derived_atoms: Vec<UTy> = derived.iter().map(|n| atom(n, st(n), "struct", true)).collect();
    let int32 = base[0].clone();
    let mut all: Vec<UTy> = Vec::new();
    all.extend(base.iter().cloned());
    all.extend(derived_atoms.iter().cloned());
    all.extend(l1.iter().cloned());
    // a derived name next to / inside one constructor (the `(A_B, C)` / `(A, B_C)` family, generated)
    for d in &derived_atoms {
        all.push(tuple(&[d, &int32]));
        all.push(tuple(&[&int32, d]));
        all.push(app("P", &[d]));
    }
    // second level: exhaustive over the first level of a two-atom set, ternary constructors included
    let small: Vec<UTy> = vec![base[0].clone(), base[4].clone()];
    let mut s1 = small.clone();
    s1.extend(level(&small, true));
    let mut l2 = level(&s1, false);
    // ternary tuples / binary function types whose components are atoms or pairs: with the binary ones above these
    // are all groupings of up to six leaves two levels deep (`((a,b),c,d)` next to `((a,b,c),d)`)
    let pairs_and_atoms: Vec<UTy> = s1.iter().filter(|t| t.shape != "tuple" || t.src.matches(',').count() == 1).filter(|t| matches!(t.shape, "tuple" | "prim" | "struct")).cloned().collect();
    for x in &pairs_and_atoms {
        for y in &pairs_and_atoms {
            for z in &pairs_and_atoms {
                l2.push(tuple(&[x, y, z]));
            }
        }
    }
    let n_l2 = l2.len();
    let mut rng = Rng::new(seed ^ 0xC19E);
    if thorough {
        all.extend(l2);
    } else {
        // quick tier: tuples of tuples exhaustively (regrouping), the rest sampled by the seed
        let (keep, rest): (Vec<UTy>, Vec<UTy>) = l2.into_iter().partition(|t| t.shape == "tuple" && t.src.len() <= 36);
        all.extend(keep);
        let want = 260.min(rest.len());
        let mut idx: Vec<usize> = (0..rest.len()).collect();
        for k in 0..want {
            let j = k + rng.below(idx.len() - k);
            idx.swap(k, j);
        }
        for k in 0..want {
            all.push(rest[idx[k]].clone());
        }
    }
    // distinct source texts only
    let mut seen = BTreeSet::new();
    all.retain(|t| seen.insert(t.src.clone()));
    (all, derived, n_l2)
}

fn kids(t: &tast::Ty) -> (&'static str, Vec<&tast::Ty>) {
    use tast::Ty::*;
    match t {
        TTuple { typs } => ("tuple", typs.iter().collect()),
        TApp { ty, args } => ("app", std::iter::once(ty.as_ref()).chain(args.iter()).collect()),
        TArray { elem, .. } => ("array", vec![elem.as_ref()]),
        TVec { elem } => ("vec", vec![elem.as_ref()]),
        TRef { elem } => ("ref", vec![elem.as_ref()]),
        TFunc { params, ret_ty } => ("func", params.iter().chain(std::iter::once(ret_ty.as_ref())).collect()),
        TEnum { .. } => ("enum", vec![]),
        TStruct { .. } => ("struct", vec![]),
        TDyn { .. } => ("dyn", vec![]),
        TParam { .. } => ("param", vec![]),
        TVar(_) => ("var", vec![]),
        _ => ("prim", vec![]),
    }
}

/// the pair of constructors at the place where two types part: descend while the constructor and the
/// number of components agree and exactly one component differs (so `(dyn Tr, int32)` / `(dynTr, int32)`
/// is `dyn~struct`, a regrouped tuple is `tuple~tuple`)
pub fn diff_shape(a: &tast::Ty, b: &tast::Ty) -> String {
    let (sa, ka) = kids(a);
    let (sb, kb) = kids(b);
    if sa == sb && ka.len() == kb.len() && !ka.is_empty() {
        let same_len = match (a, b) {
            (tast::Ty::TArray { len: x, .. }, tast::Ty::TArray { len: y, .. }) => x == y,
            _ => true,
        };
        let d: Vec<usize> = (0..ka.len()).filter(|i| ka[*i] != kb[*i]).collect();
        if same_len && d.len() == 1 {
            return diff_shape(ka[d[0]], kb[d[0]]);
        }
    }
    let mut sh = [sa, sb];
    sh.sort();
    format!("{}~{}", sh[0], sh[1])
}

struct Names {
    ty_names: Vec<String>,
    fn_name: String,
}

fn instance_names(c: &compiler::pipeline::pipeline::Compilation) -> Result<Names, String> {
    let mut ty_names = Vec::new();
    for (pre, keys) in [
        ("Opt__", c.monoenv.mono_enums.keys().map(|k| k.0.clone()).collect::<Vec<_>>()),
        ("Box__", c.monoenv.mono_structs.keys().map(|k| k.0.clone()).collect::<Vec<_>>()),
    ] {
        let v: Vec<String> = keys.into_iter().filter(|n| n.starts_with(pre)).collect();
        if v.len() != 1 {
            return Err(format!("expected one instance {}*, the table holds {:?}", pre, v));
        }
        ty_names.push(v[0].clone());
    }
    let f: Vec<String> = c.mono.toplevels.iter().map(|m| m.name.clone()).filter(|n| n.starts_with("none__")).collect();
    if f.len() != 1 {
        return Err(format!("expected one instance none__*, the Mono file holds {:?}", f));
    }
    Ok(Names { ty_names, fn_name: f[0].clone() })
}

/// returns the number of programs compiled
pub fn run(args: &util::Args, dir: &std::path::Path, cases: &mut String, out: &mut String) -> usize {
    let thorough = args.tier == "thorough";
    let (types, derived, n_l2) = universe(args.seed, thorough);
    let mut n_prog = 0usize;
    let mut ok: Vec<(usize, Names)> = Vec::new();
    let mut rejected: BTreeMap<String, usize> = BTreeMap::new();
    let mut by_shape: BTreeMap<&'static str, usize> = BTreeMap::new();
    for (k, t) in types.iter().enumerate() {
        let src = single_program(t);
        n_prog += 1;
        match util::compile_text(dir, &src) {
            Outcome::Ok(c) => match instance_names(&c) {
                Ok(nm) => {
                    *by_shape.entry(t.shape).or_default() += 1;
                    let _ = writeln!(
                        out,
                        "u{}\tUNIV\t{}\t{}\t{}\t{}\t{}\t{}\t{}\t{}",
                        k,
                        t.shape,
                        esc_line(&t.src),
                        crate::c19::ty_sexp(&t.ty).to_text(),
                        esc_line(&nm.ty_names[0]),
                        esc_line(&nm.ty_names[1]),
                        esc_line(&nm.fn_name),
                        esc_line(&mangle::go_ident(&nm.ty_names[0])),
                        esc_line(&mangle::go_ident(&nm.fn_name))
                    );
                    ok.push((k, nm));
                }
                Err(e) => {
                    let _ = writeln!(out, "u{}\tUNIVBAD\t{}\t{}\t{}\t{}", k, t.shape, esc_line(&t.src), esc_line(&e), esc_line(&src));
                }
            },
            Outcome::Err(stage, msgs) => {
                *rejected.entry(stage.to_string()).or_default() += 1;
                let _ = writeln!(out, "u{}\tUNIVREJ\t{}\t{}\t{}\t{}", k, t.shape, esc_line(&t.src), stage, esc_line(&msgs.join(" | ")));
            }
            Outcome::Panic(m) => {
                let _ = writeln!(out, "u{}\tUNIVPANIC\t{}\t{}\t{}\t{}", k, t.shape, esc_line(&t.src), esc_line(&m), esc_line(&src));
            }
        }
    }
    // group the accepted types by each name they were given
    let mut pairs: Vec<(usize, usize, &'static str)> = Vec::new();
    let mut paired: BTreeSet<(usize, usize)> = BTreeSet::new();
    let mut n_groups: BTreeMap<&'static str, usize> = BTreeMap::new();
    let keyers: [(&'static str, Box<dyn Fn(&Names) -> String>); 5] = [
        ("enum-instance", Box::new(|n: &Names| n.ty_names[0].clone())),
        ("struct-instance", Box::new(|n: &Names| n.ty_names[1].clone())),
        ("fn-instance", Box::new(|n: &Names| n.fn_name.clone())),
        ("go-type", Box::new(|n: &Names| mangle::go_ident(&n.ty_names[0]))),
        ("go-fn", Box::new(|n: &Names| mangle::go_ident(&n.fn_name))),
    ];
    for (what, key) in keyers.iter() {
        let mut groups: BTreeMap<String, Vec<usize>> = BTreeMap::new();
        for (k, nm) in &ok {
            groups.entry(key(nm)).or_default().push(*k);
        }
        for (_, members) in groups {
            if members.len() < 2 {
                continue;
            }
            *n_groups.entry(*what).or_default() += 1;
            let p = (members[0], members[1]);
            if paired.insert(p) {
                pairs.push((p.0, p.1, *what));
            }
        }
    }
    // every collision becomes ONE program holding both types, judged like the pair catalogue; at most a
    // few per pair of shapes (the signature is the pair of shapes)
    let mut per_shape: BTreeMap<String, usize> = BTreeMap::new();
    let mut n_pair_prog = 0;
    for (i, j, what) in &pairs {
        let (a, b) = (&types[*i], &types[*j]);
        let shape = diff_shape(&a.ty, &b.ty);
        let cnt = per_shape.entry(shape.clone()).or_default();
        *cnt += 1;
        if *cnt > 3 {
            continue;
        }
        let id = format!("inst/universe/{}/{}:{}", shape, what, cnt);
        crate::c19::emit_instance_case(&id, "universe", "orig", &["Box", "Opt"], &["none"], &pair_program(a, b), dir, cases);
        let idr = format!("inst/universe/{}/{}:{}r", shape, what, cnt);
        crate::c19::emit_instance_case(&idr, "universe", "swapped", &["Box", "Opt"], &["none"], &pair_program(b, a), dir, cases);
        n_prog += 2;
        n_pair_prog += 2;
    }
    let _ = writeln!(
        out,
        "#UNIV\ttypes={} accepted={} rejected={:?} by_shape={:?} derived_names={} level2_total={} collision_groups={:?} collision_pairs={} pair_programs={}",
        types.len(),
        ok.len(),
        rejected,
        by_shape,
        derived.len(),
        n_l2,
        n_groups,
        pairs.len(),
        n_pair_prog
    );
    let _ = writeln!(out, "#UNIVNAMES\t{}", derived.iter().take(60).cloned().collect::<Vec<_>>().join(" "));
    n_prog
}
