//! C20 — editor queries: crash search over (text × every cursor position) on the real
//! `hover_type` / `dot_completions` / `colon_colon_completions` (+ the wasm-app wrappers),
//! the position-mapping/token-selection tie for the Lean model, hover-vs-TAST agreement and
//! completion validity (every offered item inserted and re-checked by the compiler).
use crate::crash::{self, Guarded, Watch};
use crate::rng::Rng;
use crate::sexp::esc_line;
use crate::util;
use compiler::pipeline::pipeline;
use compiler::query;
use compiler::tast;
use parser::syntax::MySyntaxNode;
use std::collections::{BTreeMap, BTreeSet, HashSet};
use std::fmt::Write as _;
use std::path::{Path, PathBuf};
use std::sync::atomic::{AtomicUsize, Ordering};
use std::sync::{Arc, Mutex};
use std::time::Duration;

// ---------------------------------------------------------------- texts

/// hand-written seeds: every query feature (fields, inherent methods, enum variants, `::`
/// paths, closures, generics, traits, refs, non-ASCII text in strings and comments)
const SEEDS: &[&str] = &[
    "struct Point {\n    x: int32,\n    y: string,\n}\n\nimpl Point {\n    fn new(x: int32) -> Point { Point { x: x, y: \"a\" } }\n    fn getx(self: Point) -> int32 { self.x }\n}\n\nfn main() {\n    let p = Point::new(1);\n    let q = p.x;\n    let r = p.getx();\n    let _ = string_println(int32_to_string(q + r));\n    ()\n}\n",
    "enum Color { Red, Green, Blue(int32) }\n\nfn pick(c: Color) -> int32 {\n    match c {\n        Color::Red => 1,\n        Color::Green => 2,\n        Color::Blue(n) => n,\n    }\n}\n\nfn main() {\n    let a = Color::Blue(3);\n    let b = pick(a);\n    string_println(int32_to_string(b))\n}\n",
    "// héllo → wörld\nfn main() {\n    let s = \"añ→😀z\";\n    let f = |x| x + 1;\n    let t = (true, f(2));\n    let _ = string_println(s);\n    ()\n}\n",
    "struct Box[T] { v: T }\n\nimpl[T] Box[T] {\n    fn get(self: Box[T]) -> T { self.v }\n}\n\nfn id[T](x: T) -> T { x }\n\nfn main() {\n    let b = Box { v: 1 };\n    let c = id(b.get());\n    let d = id(true);\n    string_println(int32_to_string(c))\n}\n",
    "trait Show { fn show(Self) -> string; }\n\nimpl Show for int32 {\n    fn show(self: int32) -> string { int32_to_string(self) }\n}\n\nfn main() {\n    let x = 5;\n    let r = ref(x);\n    let _ = ref_set(r, 6);\n    let y = ref_get(r);\n    string_println(Show::show(y))\n}\n",
    "struct P { a: int32, b: bool }\nfn main() {\n    let p = P { a: 1, b: true };\n    let r = ref(p);\n    let z = if p.b { p.a } else { 0 };\n    let w = while false { () };\n    let arr = [1, 2, 3];\n    string_println(int32_to_string(z))\n}\n",
    "struct P { a: int32, s: string }\nenum Kd { Aa, Bb(int32) }\nfn main() {\n\tlet p = P { a: 1, s: \"é\" };\n    let t = (\"añ→😀\", p.a, p.s); let u = t.1;\n\n    let k = (\"→\", Kd::Bb(2)); let w = p.a;\n    let _ = string_println(\"ü😀\" + p.s); let z = Kd::Aa;\n    ()\n}",
];

struct Text {
    id: String,
    kind: &'static str,
    src: String,
    base: usize,
    /// real location for programs that import sibling packages
    path: Option<PathBuf>,
}

struct PGen {
    rng: Rng,
}

const PRIMS: [(&str, &str); 4] = [("int32", "7"), ("bool", "true"), ("string", "\"s\""), ("int64", "9")];

impl PGen {
    /// small well-typed program from a template family: a struct with 1–3 fields, optional
    /// inherent methods, optional enum + match, a main that uses fields/methods/paths
    fn program(&mut self) -> String {
        let r = &mut self.rng;
        let sname = *r.pick(&["Point", "Acc", "Rec"]);
        let nf = 1 + r.below(3);
        let fnames = ["x", "yy", "count"];
        let mut fields = Vec::new();
        for i in 0..nf {
            let (t, v) = *r.pick(&PRIMS);
            fields.push((fnames[i], t, v));
        }
        let generic = r.chance(1, 4);
        let mut s = String::new();
        if r.chance(1, 3) {
            s.push_str("// ünï → code\n");
        }
        if generic {
            write!(s, "struct {}[T] {{ ", sname).unwrap();
        } else {
            write!(s, "struct {} {{ ", sname).unwrap();
        }
        let multiline = r.chance(1, 2);
        for (n, t, _) in &fields {
            if multiline {
                write!(s, "\n    {}: {},", n, t).unwrap();
            } else {
                write!(s, "{}: {}, ", n, t).unwrap();
            }
        }
        if generic {
            s.push_str(if multiline { "\n    g: T," } else { "g: T, " });
        }
        s.push_str(if multiline { "\n}\n\n" } else { "}\n\n" });
        let sty = if generic { format!("{}[T]", sname) } else { sname.to_string() };
        let methods = r.chance(2, 3);
        let (f0, t0, _) = fields[0];
        if methods {
            if generic {
                write!(s, "impl[T] {} {{\n", sty).unwrap();
            } else {
                write!(s, "impl {} {{\n", sty).unwrap();
            }
            write!(s, "    fn first(self: {}) -> {} {{ self.{} }}\n", sty, t0, f0).unwrap();
            if r.chance(1, 2) {
                write!(s, "    fn same(self: {}, o: {}) -> {} {{ self }}\n", sty, t0, sty).unwrap();
            }
            s.push_str("}\n\n");
        }
        let with_enum = r.chance(1, 2);
        if with_enum {
            s.push_str("enum Kind { Aa, Bb(int32), Cc(bool, int32) }\n\n");
            s.push_str("fn score(k: Kind) -> int32 {\n    match k {\n        Kind::Aa => 0,\n        Kind::Bb(n) => n,\n        Kind::Cc(_, m) => m,\n    }\n}\n\n");
        }
        s.push_str("fn main() {\n");
        let lit: Vec<String> = fields.iter().map(|(n, _, v)| format!("{}: {}", n, v)).collect();
        let glit = if generic { ", g: 1" } else { "" };
        write!(s, "    let p = {} {{ {}{} }};\n", sname, lit.join(", "), glit).unwrap();
        write!(s, "    let a = p.{};\n", f0).unwrap();
        if methods {
            s.push_str("    let b = p.first();\n");
        }
        if with_enum {
            s.push_str("    let k = Kind::Bb(2);\n    let n = score(k);\n");
        }
        if r.chance(1, 2) {
            s.push_str("    let f = |q| q + 1;\n    let m = f(3);\n");
        }
        if r.chance(1, 3) {
            s.push_str("    let t = (a, \"añ😀\");\n");
        }
        s.push_str("    ()\n}\n");
        s
    }
}

/// `let r = W(e)` for every type constructor W around an element `e` whose type is still an
/// inference variable when the type of `r` is recorded (call of a generic function, field
/// access, nullary constructor of a generic enum, empty vec, result of an un-annotated closure,
/// call of a plain function), one and two constructors deep. The element type is fixed later
/// (by a second value unified with the first in an array literal), so the compiler's final type
/// is concrete and the hover has to report exactly that.
fn late_programs() -> Vec<(String, String)> {
    // (name, wrap) — `{}` is the element expression
    let wrappers: [(&str, &str); 9] = [
        ("ref", "ref({})"),
        ("vec", "vec_push(vec_new(), {})"),
        ("array", "[{}]"),
        ("array2", "[{}, {}]"),
        ("tuple", "({}, true)"),
        ("fn", "|u: unit| {}"),
        ("app-enum", "Som({})"),
        ("app-struct", "Bx { v: {} }"),
        ("tuple-left", "(\"s\", {})"),
    ];
    // (name, late expression, same-typed expression that fixes the type)
    let sources: [(&str, &str, &str); 7] = [
        ("generic-call", "idg(1)", "2"),
        ("field", "p.x", "2"),
        ("nullary-ctor", "Non", "Som(2)"),
        ("empty-vec", "vec_new()", "vec_push(vec_new(), 2)"),
        ("closure-result", "f(3)", "2"),
        ("fn-call", "next(1)", "2"),
        ("method-call", "p.getx()", "2"),
    ];
    let prelude = "enum Opt[T] { Non, Som(T) }\nstruct Pt { x: int32, y: bool }\nimpl Pt { fn getx(self: Pt) -> int32 { self.x } }\nstruct Bx[T] { v: T }\nfn idg[T](a: T) -> T { a }\nfn next(n: int32) -> int32 { n + 1 }\n\n";
    let mut out = Vec::new();
    let fill = |w: &str, e: &str| w.replace("{}", e);
    let mut emit = |name: String, late: String, fixed: String| {
        let src = format!(
            "{}fn main() {{\n    let p = Pt {{ x: 1, y: true }};\n    let f = |q| q + 1;\n    let r = {};\n    let k = {};\n    let both = [r, k];\n    let again = r;\n    ()\n}}\n",
            prelude, late, fixed
        );
        out.push((name, src));
    };
    for (wn, w) in wrappers.iter() {
        for (sn, e, fx) in sources.iter() {
            emit(format!("late:{}:{}", wn, sn), fill(w, e), fill(w, fx));
        }
    }
    // two constructors deep (every ordered pair), over three representative sources
    for (wn1, w1) in wrappers.iter() {
        for (wn2, w2) in wrappers.iter() {
            for (sn, e, fx) in [sources[0], sources[2], sources[1]].iter() {
                emit(format!("late:{}>{}:{}", wn1, wn2, sn), fill(w1, &fill(w2, e)), fill(w1, &fill(w2, fx)));
            }
        }
    }
    out
}

/// The same late-resolved values as `late_programs`, but the missing part of the type is supplied by
/// every OTHER kind of later context: the annotation of the `let`, a later call that takes the value
/// as an argument, the declared result type of the enclosing function, the other branch of a later
/// `if`, a later `match` arm. (In `late_programs` it is a second element of an array literal.)
/// Hover-only texts: identifiers and the initialiser expressions themselves.
fn late_fixed_programs() -> Vec<(String, String)> {
    // (name, wrap, type of the wrapped value given the element type)
    let wrappers: [(&str, &str, &str); 9] = [
        ("ref", "ref({})", "Ref[{}]"),
        ("vec", "vec_push(vec_new(), {})", "Vec[{}]"),
        ("array", "[{}]", "[{}; 1]"),
        ("array2", "[{}, {}]", "[{}; 2]"),
        ("tuple", "({}, true)", "({}, bool)"),
        ("fn", "|u: unit| {}", "(unit) -> {}"),
        ("app-enum", "Som({})", "Opt[{}]"),
        ("app-struct", "Bx { v: {} }", "Bx[{}]"),
        ("tuple-left", "(\"s\", {})", "(string, {})"),
    ];
    // (name, late expression, same-typed expression whose type is known at once, the type)
    let sources: [(&str, &str, &str, &str); 7] = [
        ("generic-call", "idg(1)", "2", "int32"),
        ("field", "p.x", "2", "int32"),
        ("nullary-ctor", "Non", "Som(2)", "Opt[int32]"),
        ("empty-vec", "vec_new()", "vec_push(vec_new(), 2)", "Vec[int32]"),
        ("closure-result", "f(3)", "2", "int32"),
        ("fn-call", "next(1)", "2", "int32"),
        ("method-call", "p.getx()", "2", "int32"),
    ];
    let prelude = "enum Opt[T] { Non, Som(T) }\nstruct Pt { x: int32, y: bool }\nimpl Pt { fn getx(self: Pt) -> int32 { self.x } }\nstruct Bx[T] { v: T }\nfn idg[T](a: T) -> T { a }\nfn next(n: int32) -> int32 { n + 1 }\n";
    let fill = |w: &str, e: &str| w.replace("{}", e);
    let mut out = Vec::new();
    for (wn, w, wt) in wrappers.iter() {
        for (sn, e, fx, et) in sources.iter() {
            let (late, fixed, ty) = (fill(w, e), fill(w, fx), fill(wt, et));
            let head = "    let p = Pt { x: 1, y: true };\n    let f = |q| q + 1;\n";
            let bodies: [(&str, String, String); 5] = [
                ("annotation", String::new(), format!("{}    let r: {} = {};\n    let again = r;\n    ()\n", head, ty, late)),
                (
                    "later-argument",
                    format!("fn eat(a: {}) -> unit {{ () }}\n", ty),
                    format!("{}    let r = {};\n    let again = r;\n    let _ = eat(again);\n    ()\n", head, late),
                ),
                (
                    "result-type",
                    format!("fn mk(p: Pt, f: (int32) -> int32) -> {} {{\n    let r = {};\n    let again = r;\n    again\n}}\n", ty, late),
                    format!("{}    let made = mk(p, f);\n    ()\n", head),
                ),
                ("later-branch", String::new(), format!("{}    let r = {};\n    let k = if p.y {{ r }} else {{ {} }};\n    ()\n", head, late, fixed)),
                (
                    "later-match-arm",
                    String::new(),
                    format!("{}    let r = {};\n    let k = match p.y {{\n        true => r,\n        false => {},\n    }};\n    ()\n", head, late, fixed),
                ),
            ];
            for (fname, extra, body) in bodies.iter() {
                out.push((format!("latefix:{}:{}:{}", wn, sn, fname), format!("{}{}\nfn main() {{\n{}}}\n", prelude, extra, body)));
            }
        }
    }
    out
}

fn token_bounds(src: &str) -> Vec<(usize, usize, lexer::TokenKind)> {
    lexer::lex(src).iter().map(|t| (u32::from(t.range.start()) as usize, u32::from(t.range.end()) as usize, t.kind)).collect()
}

const POOL: &[&str] = &[
    ".", "::", "(", ")", "{", "}", "[", "]", ",", ";", ":", "=", "=>", "->", "|", "let", "fn", "match", "if", "else",
    "struct", "enum", "impl", "trait", "x", "Point", "1", "\"s\"", "true", "+", "-", "!", "&&", "import", "\n", " ", "é",
    "self", "while", "return", "_", "\\\\ml\n", "#", "'", "\"",
];

/// editor-like variants of one base program
#[allow(clippy::too_many_arguments)]
fn variants(base_idx: usize, base_id: &str, src: &str, path: &Option<PathBuf>, rng: &mut Rng, max_prefix: usize, n_mut: usize, out: &mut Vec<Text>) {
    out.push(Text { id: format!("{}:full", base_id), kind: "full", src: src.to_string(), base: base_idx, path: path.clone() });
    let toks = token_bounds(src);
    // prefixes at token boundaries (all, or an even sample)
    let mut cuts: Vec<usize> = toks.iter().map(|t| t.1).collect();
    cuts.dedup();
    if cuts.len() > max_prefix {
        let step = cuts.len() as f64 / max_prefix as f64;
        cuts = (0..max_prefix).map(|i| cuts[((i as f64) * step) as usize]).collect();
    }
    for c in &cuts {
        if *c < src.len() {
            out.push(Text { id: format!("{}:pre{}", base_id, c), kind: "prefix-token", src: src[..*c].to_string(), base: base_idx, path: path.clone() });
        }
    }
    // prefixes that end inside a token (on a char boundary, which a &str requires)
    let long: Vec<&(usize, usize, lexer::TokenKind)> = toks.iter().filter(|t| t.1 - t.0 >= 2).collect();
    for _ in 0..(max_prefix / 4).max(2) {
        if long.is_empty() {
            break;
        }
        let t = long[rng.below(long.len())];
        let mut c = t.0 + 1 + rng.below(t.1 - t.0 - 1);
        while !src.is_char_boundary(c) {
            c += 1;
        }
        if c < src.len() {
            out.push(Text { id: format!("{}:mid{}", base_id, c), kind: "prefix-midtoken", src: src[..c].to_string(), base: base_idx, path: path.clone() });
        }
    }
    // token-level mutations
    let sig: Vec<&(usize, usize, lexer::TokenKind)> = toks.iter().filter(|t| !t.2.is_trivia()).collect();
    for m in 0..n_mut {
        if sig.len() < 2 {
            break;
        }
        let i = rng.below(sig.len());
        let (s, e, _) = *sig[i];
        let (what, text) = match rng.below(6) {
            0 => ("delete", format!("{}{}", &src[..s], &src[e..])),
            1 => ("duplicate", format!("{}{}{}", &src[..e], &src[s..e], &src[e..])),
            2 => ("replace", format!("{}{}{}", &src[..s], rng.pick(POOL), &src[e..])),
            3 => ("insert", format!("{}{}{}", &src[..s], rng.pick(POOL), &src[s..])),
            4 => {
                let j = (i + 1).min(sig.len() - 1);
                let (s2, e2, _) = *sig[j];
                if j == i {
                    ("delete", format!("{}{}", &src[..s], &src[e..]))
                } else {
                    ("swap", format!("{}{}{}{}{}", &src[..s], &src[s2..e2], &src[e..s2], &src[s..e], &src[e2..]))
                }
            }
            _ => {
                // what typing a completion trigger looks like: `<ident>.` or `<Ident>::` then nothing
                let trig = if rng.chance(1, 2) { "." } else { "::" };
                ("trigger", format!("{}{}{}", &src[..e], trig, &src[e..]))
            }
        };
        out.push(Text { id: format!("{}:mut{}-{}", base_id, m, what), kind: "mutation", src: text, base: base_idx, path: path.clone() });
    }
}

fn positions(src: &str, rng: &mut Rng, cap: usize) -> Vec<(u32, u32)> {
    let lines: Vec<&str> = src.split('\n').collect();
    let mut v = Vec::new();
    // every (line, col) of the text, one column past each line end, one line past the last
    for (l, line) in lines.iter().enumerate() {
        for c in 0..=(line.len() + 1) {
            v.push((l as u32, c as u32));
        }
    }
    if v.len() > cap {
        // keep a seeded sample of the interior, but always the line ends and the last two lines
        let keep_from = lines.len().saturating_sub(2) as u32;
        let total = v.len();
        let mut kept = Vec::new();
        for (l, c) in v.into_iter() {
            let ll = lines[l as usize].len() as u32;
            if l >= keep_from || c + 2 >= ll || c == 0 || rng.below(total) < cap {
                kept.push((l, c));
            }
        }
        v = kept;
    }
    let n = lines.len() as u32;
    let last = lines.last().map(|l| l.len()).unwrap_or(0) as u32;
    // outside the text
    for p in [
        (n, 0), (n, 1), (n + 1, 0), (n - 1, last + 2), (n - 1, last + 100), (0, u32::MAX), (u32::MAX, 0),
        (u32::MAX, u32::MAX), (n - 1, u32::MAX), (1, u32::MAX), (0, 1 << 31), (n + 7, 3),
    ] {
        v.push(p);
    }
    v
}

// ---------------------------------------------------------------- queries

const OFFSET_ERR: &str = "failed to get offset from line and column";

fn hex(s: &str) -> String {
    let mut o = String::with_capacity(s.len() * 2);
    for b in s.bytes() {
        write!(o, "{:02x}", b).unwrap();
    }
    o
}

/// byte offset the line/column addresses, straight from the `line-index` crate that query.rs uses
fn lib_offset(li: &line_index::LineIndex, line: u32, col: u32) -> Option<u32> {
    // release arithmetic: TextSize + TextSize is a plain u32 add (wraps without overflow checks);
    // the harness is built with the same profile settings so the observable is what ships
    let r = std::panic::catch_unwind(std::panic::AssertUnwindSafe(|| li.offset(line_index::LineCol { line, col })));
    match r {
        Ok(v) => v.map(u32::from),
        Err(_) => Some(u32::MAX), // debug-assertion overflow; reported by the caller as a mismatch
    }
}

fn cst_tokens(src: &str, path: &Path) -> (MySyntaxNode, Vec<(String, u32, u32)>) {
    let result = parser::parse(path, src);
    let root = MySyntaxNode::new_root(result.green_node);
    let toks = root
        .descendants_with_tokens()
        .filter_map(|e| e.into_token())
        .map(|t| (format!("{:?}", t.kind()), u32::from(t.text_range().start()), u32::from(t.text_range().end())))
        .collect();
    (root, toks)
}

/// kinds of the three innermost nodes around the token that starts at `off`
fn cst_context(src: &str, path: &Path, off: u32) -> String {
    let result = parser::parse(path, src);
    let root = MySyntaxNode::new_root(result.green_node);
    if off as usize > src.len() {
        return String::new();
    }
    match root.token_at_offset(off.into()).right_biased() {
        Some(tok) => {
            let mut v = Vec::new();
            let mut cur = tok.parent();
            while let Some(n) = cur {
                if v.len() == 3 {
                    break;
                }
                v.push(format!("{:?}", n.kind()));
                cur = n.parent();
            }
            v.join(">")
        }
        None => String::new(),
    }
}

fn token_index(toks: &[(String, u32, u32)], start: u32, end: u32) -> usize {
    toks.iter().position(|t| t.1 == start && t.2 == end).unwrap_or(usize::MAX)
}

struct Shared {
    lines: Mutex<Vec<String>>,
    out: PathBuf,
}

impl Shared {
    fn push(&self, s: String) {
        self.lines.lock().unwrap().push(s);
    }
    fn flush(&self) {
        let l = self.lines.lock().unwrap();
        let _ = std::fs::create_dir_all(&self.out);
        let _ = std::fs::write(self.out.join("c20.cases.tsv"), l.join("\n") + "\n");
    }
}

fn diag_messages(path: &Path, src: &str) -> Result<Vec<String>, String> {
    match pipeline::typecheck_with_packages_and_results(path, src) {
        Ok((_, _, _, d)) => Ok(d.iter().map(|d| format!("[{}] {}", d.stage().as_str(), norm_digits(d.message()))).collect()),
        Err(e) => Ok(e.diagnostics().iter().map(|d| format!("[{}] {}", d.stage().as_str(), norm_digits(d.message()))).collect()),
    }
}

/// ids printed inside messages (`ExprId { idx: 15 }`) are not part of what is complained about
fn norm_digits(m: &str) -> String {
    let mut o = String::new();
    let mut prev_digit = false;
    for c in m.chars() {
        if c.is_ascii_digit() {
            if !prev_digit {
                o.push('#');
            }
            prev_digit = true;
        } else {
            prev_digit = false;
            o.push(c);
        }
    }
    o
}

fn ident_start(src: &str, off: usize) -> usize {
    let b = src.as_bytes();
    let mut i = off;
    while i > 0 && (b[i - 1].is_ascii_alphanumeric() || b[i - 1] == b'_') {
        i -= 1;
    }
    i
}

const BOGUS: &str = "zzqbogus";

/// messages that mention `name` as a word, with the name blanked
fn mentioning(msgs: &[String], name: &str) -> BTreeSet<String> {
    let mut s = BTreeSet::new();
    let wordc = |c: char| c.is_alphanumeric() || c == '_';
    for m in msgs {
        let mut hit = false;
        let mut out = String::new();
        let mut i = 0;
        while i < m.len() {
            if m[i..].starts_with(name) {
                let before = m[..i].chars().last();
                let after = m[i + name.len()..].chars().next();
                if !before.map(wordc).unwrap_or(false) && !after.map(wordc).unwrap_or(false) {
                    hit = true;
                    out.push_str("<NAME>");
                    i += name.len();
                    continue;
                }
            }
            let c = m[i..].chars().next().unwrap();
            out.push(c);
            i += c.len_utf8();
        }
        if hit {
            s.insert(out);
        }
    }
    s
}

fn mentioning_multi(msgs: &[String], name: &str) -> Vec<String> {
    let mut v = Vec::new();
    for m in msgs {
        for x in mentioning(std::slice::from_ref(m), name) {
            v.push(x);
        }
    }
    v
}

// ---------------------------------------------------------------- line-ending twins

/// a text that means the same program as `src` (same tokens, or one extra statement) written with
/// other line terminators / blank lines / indentation, and where a position of `src` went
struct Twin {
    name: &'static str,
    text: String,
    /// tokens must be the same as in the original (false for the variant that adds a statement)
    same_tokens: bool,
    map: Box<dyn Fn(u32, u32) -> Option<(u32, u32)>>,
}

fn twins(src: &str, all: bool) -> Vec<Twin> {
    let lines: Vec<&str> = src.split('\n').collect();
    let mut out: Vec<Twin> = Vec::new();
    let id = || Box::new(|l: u32, c: u32| Some((l, c))) as Box<dyn Fn(u32, u32) -> Option<(u32, u32)>>;
    // CRLF everywhere
    out.push(Twin { name: "crlf", text: lines.join("\r\n"), same_tokens: true, map: id() });
    // k blank lines on top (LF and CRLF)
    out.push(Twin { name: "blank-lines-top", text: format!("\n\n\n{}", src), same_tokens: true, map: Box::new(|l, c| Some((l + 3, c))) });
    if !all {
        return out;
    }
    // mixed: every other terminator is CRLF
    let mut mixed = String::new();
    for (i, l) in lines.iter().enumerate() {
        mixed.push_str(l);
        if i + 1 < lines.len() {
            mixed.push_str(if i % 2 == 0 { "\r\n" } else { "\n" });
        }
    }
    out.push(Twin { name: "mixed-lf-crlf", text: mixed, same_tokens: true, map: id() });
    out.push(Twin { name: "blank-lines-top-crlf", text: format!("\r\n\r\n{}", lines.join("\r\n")), same_tokens: true, map: Box::new(|l, c| Some((l + 2, c))) });
    // blank lines in the middle: before the last top-level `fn`
    if let Some(j) = lines.iter().rposition(|l| l.starts_with("fn ")) {
        if j > 0 {
            let mut v: Vec<&str> = lines[..j].to_vec();
            v.push("");
            v.push("");
            v.extend_from_slice(&lines[j..]);
            let j = j as u32;
            out.push(Twin { name: "blank-lines-middle", text: v.join("\n"), same_tokens: true, map: Box::new(move |l, c| Some((if l >= j { l + 2 } else { l }, c))) });
        }
    }
    // a lone CR where a blank separates two tokens (not the first line)
    {
        let toks = lexer::lex(src);
        let first_nl = src.find('\n').unwrap_or(src.len());
        if let Some(t) = toks.iter().find(|t| t.kind.is_trivia() && t.text.starts_with(' ') && u32::from(t.range.start()) as usize > first_nl) {
            let at = u32::from(t.range.start()) as usize;
            let text = format!("{}\r{}", &src[..at], &src[at + 1..]);
            out.push(Twin { name: "lone-cr", text, same_tokens: true, map: id() });
        }
    }
    // last line without its newline
    if src.ends_with('\n') && src.len() > 1 {
        out.push(Twin { name: "no-final-newline", text: src[..src.len() - 1].to_string(), same_tokens: true, map: id() });
    }
    // tabs for the first indentation level
    if lines.iter().any(|l| l.starts_with("    ")) {
        let v: Vec<String> = lines.iter().map(|l| if let Some(r) = l.strip_prefix("    ") { format!("\t{}", r) } else { l.to_string() }).collect();
        let indented: Vec<bool> = lines.iter().map(|l| l.starts_with("    ")).collect();
        out.push(Twin {
            name: "tab-indent",
            text: v.join("\n"),
            same_tokens: true,
            map: Box::new(move |l, c| match indented.get(l as usize) {
                Some(true) => if c >= 4 { Some((l, c - 3)) } else { None },
                _ => Some((l, c)),
            }),
        });
    }
    // multi-byte characters on an earlier line
    out.push(Twin { name: "multibyte-line-above", text: format!("// ünï → 😀 code\r\n{}", src), same_tokens: true, map: Box::new(|l, c| Some((l + 1, c))) });
    // multi-byte characters earlier on the same line: an extra statement in front of a `let`
    if let Some(j) = lines.iter().position(|l| l.starts_with("    let ")) {
        let ins = "let _mb = \"é→😀\"; ";
        let mut v: Vec<String> = lines.iter().map(|l| l.to_string()).collect();
        v[j] = format!("    {}{}", ins, &lines[j][4..]);
        let (j, k) = (j as u32, ins.len() as u32);
        out.push(Twin { name: "multibyte-same-line", text: v.join("\n"), same_tokens: false, map: Box::new(move |l, c| if l == j { if c >= 4 { Some((l, c + k)) } else { None } } else { Some((l, c)) }) });
    }
    out
}

fn sig_tokens(src: &str) -> Vec<(lexer::TokenKind, String)> {
    lexer::lex(src).iter().filter(|t| !t.kind.is_trivia()).map(|t| (t.kind, t.text.to_string())).collect()
}

/// what the three queries answer at one position, in a form that does not depend on byte offsets
fn answers(th: usize, key: crash::Key, watch: &Watch, path: &Path, src: &str, l: u32, c: u32) -> [String; 3] {
    let h = match watch.guarded(th, key, || query::hover_type(path, src, l, c)) {
        Guarded::Done(Ok(s)) => format!("ok:{}", s.split_whitespace().collect::<Vec<_>>().join(" ")),
        Guarded::Done(Err(e)) => format!("err:{}", e.chars().filter(|ch| !ch.is_ascii_digit()).take(40).collect::<String>()),
        Guarded::Panic(p) => format!("panic:{}", crash::site_of(&p)),
    };
    let d = match watch.guarded(th, key, || query::dot_completions(path, src, l, c)) {
        Guarded::Done(Some(items)) => items.iter().map(|i| format!("{}:{:?}", i.name, i.kind)).collect::<Vec<_>>().join(","),
        Guarded::Done(None) => "-".into(),
        Guarded::Panic(p) => format!("panic:{}", crash::site_of(&p)),
    };
    let k = match watch.guarded(th, key, || query::colon_colon_completions(path, src, l, c)) {
        Guarded::Done(Some(items)) => items.iter().map(|i| format!("{}:{:?}", i.name, i.kind)).collect::<Vec<_>>().join(","),
        Guarded::Done(None) => "-".into(),
        Guarded::Panic(p) => format!("panic:{}", crash::site_of(&p)),
    };
    [h, d, k]
}

/// positions worth asking about: both ends of identifiers, right after `.` and `::`
fn twin_positions(src: &str, rng: &mut Rng, cap: usize) -> Vec<(u32, u32)> {
    let mut trig = Vec::new();
    let mut idents = Vec::new();
    for t in lexer::lex(src).iter() {
        let (s, e) = (u32::from(t.range.start()), u32::from(t.range.end()));
        if t.text == "." || t.text == "::" {
            trig.push(e);
        } else if t.text.chars().next().map(|c| c.is_ascii_alphabetic() || c == '_').unwrap_or(false) && !t.kind.is_trivia() {
            idents.push(s);
            idents.push(e);
        }
    }
    let mut offs: Vec<u32> = trig;
    let room = cap.saturating_sub(offs.len().min(cap / 2));
    offs.truncate(cap / 2);
    if idents.len() > room {
        let total = idents.len();
        idents.retain(|_| rng.below(total) < room);
    }
    offs.extend(idents);
    offs.sort();
    offs.dedup();
    offs.into_iter().map(|o| line_col_of(src, o)).collect()
}

/// (start, end, node kind, type, name as the TAST spells it; "" for expression entries)
pub(crate) fn collect_tast(file: &tast::File) -> Vec<(u32, u32, &'static str, String, String)> {
    fn pat(p: &tast::Pat, out: &mut Vec<(u32, u32, &'static str, String, String)>) {
        match p {
            tast::Pat::PVar { name, ty, astptr: Some(ptr) } => {
                let r = ptr.text_range();
                out.push((r.start().into(), r.end().into(), "binder", ty.to_pretty(80), name.clone()));
            }
            tast::Pat::PConstr { args, .. } => args.iter().for_each(|a| pat(a, out)),
            tast::Pat::PTuple { items, .. } => items.iter().for_each(|a| pat(a, out)),
            _ => {}
        }
    }
    /// the initialiser `e` of a `let` and the sub-expressions reached from it through forms whose TAST
    /// children are the CST children one to one (call / constructor arguments, tuple and array items,
    /// operands); entry = "<path>\u{1}<type>", path = steps `<tag><index>` resolved by `expr_node_for`
    fn sub_exprs(e: &tast::Expr, path: String, depth: usize, at: (u32, u32), out: &mut Vec<(u32, u32, &'static str, String, String)>) {
        use tast::Expr::*;
        let e: &tast::Expr = match e {
            EToDyn { expr: inner, .. } => inner,
            v => v,
        };
        out.push((at.0, at.1, "let-value", format!("{}\u{1}{}", path, e.get_ty().to_pretty(80)), String::new()));
        if depth >= 4 {
            return;
        }
        let (tag, kids): (char, Vec<&tast::Expr>) = match e {
            ECall { func, args, .. } if matches!(&**func, EVar { .. }) => ('c', args.iter().collect()),
            EConstr { args, .. } => ('c', args.iter().collect()),
            ETuple { items, .. } => ('t', items.iter().collect()),
            EArray { items, .. } => ('a', items.iter().collect()),
            EBinary { lhs, rhs, .. } => ('b', vec![&**lhs, &**rhs]),
            EUnary { expr, .. } => ('u', vec![&**expr]),
            _ => return,
        };
        let n = kids.len();
        for (i, k) in kids.into_iter().enumerate() {
            sub_exprs(k, format!("{}/{}{}.{}", path, tag, i, n), depth + 1, at, out);
        }
    }
    fn expr(e: &tast::Expr, out: &mut Vec<(u32, u32, &'static str, String, String)>) {
        use tast::Expr::*;
        match e {
            EVar { name, ty, astptr: Some(ptr) } => {
                let r = ptr.text_range();
                out.push((r.start().into(), r.end().into(), "var", ty.to_pretty(80), name.clone()));
            }
            EVar { .. } | EPrim { .. } | ETraitMethod { .. } | EDynTraitMethod { .. } | EInherentMethod { .. } => {}
            EConstr { args, .. } => args.iter().for_each(|a| expr(a, out)),
            ETuple { items, .. } | EArray { items, .. } => items.iter().for_each(|a| expr(a, out)),
            EClosure { params, body, .. } => {
                for p in params {
                    if let Some(ptr) = &p.astptr {
                        let r = ptr.text_range();
                        out.push((r.start().into(), r.end().into(), "closure-param", p.ty.to_pretty(80), p.name.clone()));
                    }
                }
                expr(body, out)
            }
            ELet { pat: p, value, .. } => {
                pat(p, out);
                // the initialiser of a `let` with a variable binder: the TAST has no pointer for most
                // expression kinds, but the binder has one, and the initialiser is its sibling in the CST
                if let tast::Pat::PVar { astptr: Some(ptr), .. } = p {
                    let r = ptr.text_range();
                    sub_exprs(value, String::new(), 0, (r.start().into(), r.end().into()), out);
                }
                expr(value, out)
            }
            EBlock { exprs, .. } => exprs.iter().for_each(|a| expr(a, out)),
            EMatch { expr: s, arms, astptr, ty } => {
                if let Some(ptr) = astptr {
                    let r = ptr.text_range();
                    out.push((r.start().into(), r.end().into(), "expr-node", ty.to_pretty(80), String::new()));
                }
                expr(s, out);
                for a in arms {
                    pat(&a.pat, out);
                    expr(&a.body, out);
                }
            }
            EIf { cond, then_branch, else_branch, .. } => {
                expr(cond, out);
                expr(then_branch, out);
                expr(else_branch, out)
            }
            EWhile { cond, body, .. } => {
                expr(cond, out);
                expr(body, out)
            }
            EGo { expr: x, .. } | EUnary { expr: x, .. } | EProj { tuple: x, .. } | EToDyn { expr: x, .. } => expr(x, out),
            EField { expr: x, astptr, ty, .. } => {
                if let Some(ptr) = astptr {
                    let r = ptr.text_range();
                    out.push((r.start().into(), r.end().into(), "expr-node", ty.to_pretty(80), String::new()));
                }
                expr(x, out)
            }
            ECall { func, args, .. } => {
                expr(func, out);
                args.iter().for_each(|a| expr(a, out))
            }
            EBinary { lhs, rhs, .. } => {
                expr(lhs, out);
                expr(rhs, out)
            }
        }
    }
    let mut out = Vec::new();
    for it in &file.toplevels {
        match it {
            tast::Item::Fn(f) => expr(&f.body, &mut out),
            tast::Item::ImplBlock(b) => b.methods.iter().for_each(|m| expr(&m.body, &mut out)),
            _ => {}
        }
    }
    out
}

/// The CST expression a TAST entry of `collect_tast` stands for. `let_value`: `(s, e)` is the range of a
/// variable binder and the expression is the initialiser of its `let`; otherwise `(s, e)` is the range
/// of the expression itself. Parentheses are looked through (they have no node of their own after lowering).
fn expr_node_for(root: &MySyntaxNode, s: u32, e: u32, let_value: bool, path: &str) -> Option<MySyntaxNode> {
    use cst::cst::CstNode;
    use parser::syntax::MySyntaxKind;
    let len: u32 = root.text_range().end().into();
    if s >= e || e > len {
        return None;
    }
    let range = rowan::TextRange::new(s.into(), e.into());
    let start = match root.covering_element(range) {
        rowan::NodeOrToken::Node(n) => n,
        rowan::NodeOrToken::Token(t) => t.parent()?,
    };
    let mut node = if let_value {
        let pat = start.ancestors().find(|n| n.text_range() == range && n.kind() == MySyntaxKind::PATTERN_VARIABLE)?;
        let stmt = pat.parent().filter(|p| p.kind() == MySyntaxKind::STMT_LET)?;
        stmt.children().filter(|c| cst::nodes::Expr::can_cast(c.kind())).last()?
    } else {
        start.ancestors().find(|n| n.text_range() == range && cst::nodes::Expr::can_cast(n.kind()))?
    };
    let unparen = |mut node: MySyntaxNode| -> Option<MySyntaxNode> {
        while node.kind() == MySyntaxKind::EXPR_PAREN {
            node = node.children().find(|c| cst::nodes::Expr::can_cast(c.kind()))?;
        }
        Some(node)
    };
    node = unparen(node)?;
    // every step checks the kind of the CST node and the number of its children: a form the two trees
    // do not share one to one ends the descent
    for step in path.split('/').filter(|x| !x.is_empty()) {
        let tag = step.chars().next()?;
        let (i, n) = step[1..].split_once('.')?;
        let (i, n): (usize, usize) = (i.parse().ok()?, n.parse().ok()?);
        let kids: Vec<MySyntaxNode> = match (tag, node.kind()) {
            ('c', MySyntaxKind::EXPR_CALL) => {
                let mut ch = node.children();
                let callee = ch.next()?;
                let list = ch.next().filter(|c| c.kind() == MySyntaxKind::ARG_LIST)?;
                if callee.kind() != MySyntaxKind::EXPR_IDENT || ch.next().is_some() {
                    return None;
                }
                let mut v = Vec::new();
                for a in list.children() {
                    if a.kind() != MySyntaxKind::ARG || a.children().count() != 1 {
                        return None;
                    }
                    v.push(a.children().next()?);
                }
                v
            }
            ('t', MySyntaxKind::EXPR_TUPLE) | ('a', MySyntaxKind::EXPR_ARRAY_LITERAL) | ('u', MySyntaxKind::EXPR_PREFIX) => node.children().collect(),
            ('b', MySyntaxKind::EXPR_BINARY) => {
                if node.children_with_tokens().filter_map(|x| x.into_token()).any(|t| t.kind() == MySyntaxKind::Dot) {
                    return None;
                }
                node.children().collect()
            }
            _ => return None,
        };
        if kids.len() != n {
            return None;
        }
        let k = kids.into_iter().nth(i)?;
        if !cst::nodes::Expr::can_cast(k.kind()) {
            return None;
        }
        node = unparen(k)?;
    }
    Some(node)
}

/// The tokens of an expression node on which a hover is, by the query's own rule (nearest enclosing CST
/// expression), a hover on that expression itself: its own tokens and the delimiters kept by its list
/// children (`(`, `,`, `)` of a call, braces of a struct literal / match, bars of a closure), each with
/// a cursor offset at which the query selects that very token (strictly inside it, or on its first
/// byte when the token before it is not an identifier that ends there).
fn head_tokens(node: &MySyntaxNode) -> Vec<(u32, String)> {
    use parser::syntax::MySyntaxKind as K;
    let mut out = Vec::new();
    let mut visit = |tok: parser::syntax::MySyntaxToken| {
        if matches!(tok.kind(), K::Whitespace | K::Comment | K::Error) {
            return;
        }
        let (s, e): (u32, u32) = (tok.text_range().start().into(), tok.text_range().end().into());
        let off = if e - s >= 2 && tok.text().is_char_boundary(1) {
            Some(s + 1)
        } else {
            match tok.prev_token() {
                Some(p) if p.kind() == K::Ident => None,
                _ => Some(s),
            }
        };
        if let Some(off) = off {
            out.push((off, tok.text().to_string()));
        }
    };
    for ch in node.children_with_tokens() {
        match ch {
            rowan::NodeOrToken::Token(t) => visit(t),
            rowan::NodeOrToken::Node(n) => {
                if matches!(n.kind(), K::ARG_LIST | K::STRUCT_LITERAL_FIELD_LIST | K::CLOSURE_PARAM_LIST | K::MATCH_ARM_LIST) {
                    for t in n.children_with_tokens().filter_map(|x| x.into_token()) {
                        visit(t);
                    }
                }
            }
        }
    }
    // first, last and one in the middle are enough per expression
    if out.len() > 3 {
        out = vec![out[0].clone(), out[out.len() / 2].clone(), out[out.len() - 1].clone()];
    }
    out
}

fn line_col_of(src: &str, off: u32) -> (u32, u32) {
    let before = &src.as_bytes()[..off as usize];
    let line = before.iter().filter(|b| **b == b'\n').count() as u32;
    let start = before.iter().rposition(|b| *b == b'\n').map(|i| i + 1).unwrap_or(0);
    (line, off - start as u32)
}

#[derive(Default)]
struct Tally {
    calls: usize,
    hover_ok: usize,
    hover_err: BTreeMap<String, usize>,
    dot_some: usize,
    dot_items: usize,
    cc_some: usize,
    cc_items: usize,
    wasm_calls: usize,
    panics: usize,
}

#[allow(clippy::too_many_arguments)]
#[allow(clippy::too_many_arguments)]
fn run_text(th: usize, ti: usize, t: &Text, dir: &Path, watch: &Watch, sh: &Shared, seed: u64, tie: bool, pos_cap: usize, hov_cap: usize, twin_mode: u8) {
    let path = t.path.clone().unwrap_or_else(|| dir.join("main.gom"));
    let src = t.src.as_str();
    let mut rng = Rng::new(seed ^ (ti as u64).wrapping_mul(0x9E37));
    let hover_only = t.kind == "hover-corpus" || t.kind == "hover-late";
    let poss = if hover_only { Vec::new() } else { positions(src, &mut rng, pos_cap) };
    let li = line_index::LineIndex::new(src);
    let mut tally = Tally::default();
    let mut seen_panic: HashSet<(u8, String)> = HashSet::new();
    let mut tie_pos = String::new();
    let (root, toks) = if tie { cst_tokens(src, &path) } else { (MySyntaxNode::new_root(rowan::GreenNode::new(rowan::SyntaxKind(0), [])), vec![]) };
    let mut unground: Vec<(u32, u32, String)> = Vec::new();
    let mut completions: Vec<(u8, u32, u32, Vec<(String, String)>)> = Vec::new();
    let mut seen_completion: HashSet<(u8, usize, Vec<(String, String)>)> = HashSet::new();
    let mut record_panic = |q: u8, qn: &str, l: u32, c: u32, p: crash::PanicInfo, tally: &mut Tally| {
        tally.panics += 1;
        let site = crash::site_of(&p);
        if seen_panic.insert((q, site.clone())) {
            sh.push(format!(
                "P\t{}\t{}\t{}\t{}\t{}\t{}\t{}:{}\t{}",
                t.id, qn, l, c, site, esc_line(&p.msg), crash::short_file(&p.file), p.line, esc_line(src)
            ));
        }
    };
    for (pi, &(l, c)) in poss.iter().enumerate() {
        let key = |q: u64| [ti as u64, l as u64, c as u64, q];
        // hover
        tally.calls += 1;
        let hov = watch.guarded(th, key(0), || query::hover_type(&path, src, l, c));
        let mut hover_offset_none = "?";
        let (mut dot_some, mut cc_some) = ("0", "0");
        match hov {
            Guarded::Done(Ok(h)) => {
                tally.hover_ok += 1;
                hover_offset_none = "0";
                // an inference variable in the answer: fine while the text has errors, never in an accepted program
                if h.contains("TypeVar(") && unground.len() < 4 {
                    unground.push((l, c, h));
                }
            }
            Guarded::Done(Err(e)) => {
                hover_offset_none = if e == OFFSET_ERR { "1" } else { "0" };
                let class = if e == OFFSET_ERR || e == "no type information found" { e } else { e.chars().take(40).collect() };
                *tally.hover_err.entry(class).or_default() += 1;
            }
            Guarded::Panic(p) => record_panic(0, "hover_type", l, c, p, &mut tally),
        }
        // dot completions
        tally.calls += 1;
        match watch.guarded(th, key(1), || query::dot_completions(&path, src, l, c)) {
            Guarded::Done(Some(items)) => {
                dot_some = "1";
                tally.dot_some += 1;
                tally.dot_items += items.len();
                if !items.is_empty() {
                    let v: Vec<(String, String)> = items.iter().map(|i| (i.name.clone(), format!("{:?}", i.kind))).collect();
                    let off = lib_offset(&li, l, c).unwrap_or(0) as usize;
                    if seen_completion.insert((1, off, v.clone())) {
                        completions.push((1, l, c, v));
                    }
                }
            }
            Guarded::Done(None) => {}
            Guarded::Panic(p) => record_panic(1, "dot_completions", l, c, p, &mut tally),
        }
        // :: completions
        tally.calls += 1;
        match watch.guarded(th, key(2), || query::colon_colon_completions(&path, src, l, c)) {
            Guarded::Done(Some(items)) => {
                cc_some = "1";
                tally.cc_some += 1;
                tally.cc_items += items.len();
                if !items.is_empty() {
                    let v: Vec<(String, String)> = items.iter().map(|i| (i.name.clone(), format!("{:?}", i.kind))).collect();
                    let off = lib_offset(&li, l, c).unwrap_or(0) as usize;
                    if seen_completion.insert((2, off, v.clone())) {
                        completions.push((2, l, c, v));
                    }
                }
            }
            Guarded::Done(None) => {}
            Guarded::Panic(p) => record_panic(2, "colon_colon_completions", l, c, p, &mut tally),
        }
        // wasm-app wrappers (what the playground calls): every 4th position and every outside position
        if pi % 4 == 0 || pi + 12 >= poss.len() {
            tally.wasm_calls += 3;
            if let Guarded::Panic(p) = watch.guarded(th, key(3), || wasm_app::hover(src, l, c)) {
                record_panic(3, "wasm_app::hover", l, c, p, &mut tally)
            }
            if let Guarded::Panic(p) = watch.guarded(th, key(4), || wasm_app::dot_completions(src, l, c)) {
                record_panic(4, "wasm_app::dot_completions", l, c, p, &mut tally)
            }
            if let Guarded::Panic(p) = watch.guarded(th, key(5), || wasm_app::colon_colon_completions(src, l, c)) {
                record_panic(5, "wasm_app::colon_colon_completions", l, c, p, &mut tally)
            }
        }
        if tie {
            // observable position mapping and rowan's token selection for the model tie
            let raw = lib_offset(&li, l, c);
            let tok = match raw {
                Some(o) if (o as usize) <= src.len() => {
                    let r = std::panic::catch_unwind(std::panic::AssertUnwindSafe(|| root.token_at_offset(o.into())));
                    match r {
                        Ok(rowan::TokenAtOffset::None) => "N".to_string(),
                        Ok(rowan::TokenAtOffset::Single(x)) => {
                            format!("S{}", token_index(&toks, x.text_range().start().into(), x.text_range().end().into()))
                        }
                        Ok(rowan::TokenAtOffset::Between(x, y)) => format!(
                            "B{}/{}",
                            token_index(&toks, x.text_range().start().into(), x.text_range().end().into()),
                            token_index(&toks, y.text_range().start().into(), y.text_range().end().into())
                        ),
                        Err(_) => "PANIC".to_string(),
                    }
                }
                _ => "-".to_string(),
            };
            let raws = raw.map(|o| o.to_string()).unwrap_or_else(|| "none".to_string());
            write!(tie_pos, "{},{},{},{},{},{},{} ", l, c, raws, hover_offset_none, tok, dot_some, cc_some).unwrap();
        }
    }
    // completion validity: insert every offered item and ask the compiler
    for (q, l, c, items) in &completions {
        let Some(off) = lib_offset(&li, *l, *c).map(|o| o as usize) else { continue };
        if off > src.len() || !src.is_char_boundary(off) {
            continue;
        }
        // the accepted item replaces the word under the cursor (prefix and any identifier
        // characters to its right), which is what an editor's default word range does
        let start = ident_start(src, off);
        let mut end = off;
        while end < src.len() && (src.as_bytes()[end].is_ascii_alphanumeric() || src.as_bytes()[end] == b'_') {
            end += 1;
        }
        let build = |name: &str, kind: &str| {
            let called = src[end..].trim_start().starts_with('(');
            let call = if *q == 1 && kind == "Method" && !called { "()" } else { "" };
            format!("{}{}{}{}", &src[..start], name, call, &src[end..])
        };
        // a name that cannot exist, inserted the same way, calibrates what "does not exist"
        // looks like in this context (per item kind); messages already present in the text
        // before the insertion are not the completion's doing
        let blank = |m: Vec<String>, name: &str| -> Vec<String> { mentioning_multi(&m, name) };
        let orig_msgs = match watch.guarded(th, [ti as u64, *l as u64, *c as u64, 7], || diag_messages(&path, src)) {
            Guarded::Done(Ok(m)) => m,
            _ => Vec::new(),
        };
        let mut bases: BTreeMap<String, (BTreeSet<String>, bool)> = BTreeMap::new();
        for (name, kind) in items {
            // `p.x` followed (even across a line break) by `(` is parsed as a call of `x`
            let next_is_call = src[end..].trim_start().starts_with('(');
            if *q == 1 && kind == "Field" && next_is_call {
                sh.push(format!("CMP\t{}\tdot\t{}\t{}\t{}\t{}\tskip:field-before-call\t\t", t.id, l, c, name, kind));
                continue;
            }
            // `p.x::` (a mutation put `::` behind the word) is not a field access whatever `x` is:
            // the parser reads a method path; the complaint is about the text, not about the item
            if *q == 1 && kind == "Field" && src[end..].trim_start().starts_with("::") {
                sh.push(format!("CMP\t{}\tdot\t{}\t{}\t{}\t{}\tskip:field-before-colon-colon\t\t", t.id, l, c, name, kind));
                continue;
            }
            if !bases.contains_key(kind) {
                // a text with typer errors of its own is inconclusive: lookups on the receiver can fail
                // because its type is already broken, whatever name is inserted
                let b = match watch.guarded(th, [ti as u64, *l as u64, *c as u64, 8], || diag_messages(&path, &build(BOGUS, kind))) {
                    Guarded::Done(Ok(m)) => {
                        let unrelated = m.iter().any(|x| x.starts_with("[typer]") && mentioning(std::slice::from_ref(x), BOGUS).is_empty());
                        (blank(m, BOGUS).into_iter().collect(), unrelated)
                    }
                    _ => (BTreeSet::new(), true),
                };
                bases.insert(kind.clone(), b);
            }
            let (base, unrelated_typer_errors) = &bases[kind];
            let text = build(name, kind);
            let verdict = match watch.guarded(th, [ti as u64, *l as u64, *c as u64, 9], || diag_messages(&path, &text)) {
                Guarded::Done(Ok(m)) => {
                    let mut before = blank(orig_msgs.clone(), name);
                    let mut bad: Vec<String> = Vec::new();
                    for x in blank(m, name) {
                        if let Some(i) = before.iter().position(|y| *y == x) {
                            before.swap_remove(i);
                        } else if base.contains(&x) {
                            bad.push(x);
                        }
                    }
                    if bad.is_empty() {
                        "ok".to_string()
                    } else if *unrelated_typer_errors {
                        format!("skip:inconclusive-text-has-other-type-errors:{}", esc_line(&bad.join(" | ")))
                    } else {
                        format!("unresolved:{}", esc_line(&bad.join(" | ")))
                    }
                }
                Guarded::Done(Err(e)) => format!("error:{}", esc_line(&e)),
                Guarded::Panic(p) => format!("panic:{}", crash::site_of(&p)),
            };
            let ictx = if verdict == "ok" { String::new() } else { cst_context(&text, &path, start as u32) };
            sh.push(format!(
                "CMP\t{}\t{}\t{}\t{}\t{}\t{}\t{}\t{}\t{}\t{}",
                t.id,
                if *q == 1 { "dot" } else { "colon" },
                l,
                c,
                name,
                kind,
                verdict,
                esc_line(&base.iter().cloned().collect::<Vec<_>>().join(" | ")),
                esc_line(&text),
                ictx
            ));
        }
    }
    // hover never shows an inference variable at ANY position of a program the compiler accepts (whatever
    // token the cursor is on: the compiler's types of an accepted program are all ground, C03)
    if !unground.is_empty() && t.path.is_none() {
        let accepted = matches!(
            watch.guarded(th, [ti as u64, 0, 0, 16], || pipeline::compile(&path, src).is_ok()),
            Guarded::Done(true)
        );
        if accepted {
            for (l, c, h) in &unground {
                let off = lib_offset(&li, *l, *c).unwrap_or(0);
                sh.push(format!("HVG\t{}\t{}\t{}\t{}\t{}\t{}", t.id, l, c, esc_line(h), cst_context(src, &path, off), esc_line(src)));
            }
        }
    }
    // hover agreement on programs the compiler accepts
    let mut hov_n = 0;
    if (t.kind == "full" || t.kind == "mutation" || hover_only) && t.path.is_none() {
        if let Guarded::Done(Ok(comp)) = watch.guarded(th, [ti as u64, 0, 0, 10], || pipeline::compile(&path, src)) {
            let mut seen = HashSet::new();
            let mut nodes: Vec<(u32, u32, &'static str, String, String)> = Vec::new();
            // hover on an EXPRESSION that is not an identifier: (token offset, node kind, TAST type, token text)
            let mut heads: Vec<(u32, String, String, String)> = Vec::new();
            let mut seen_head = HashSet::new();
            let hroot = MySyntaxNode::new_root(parser::parse(&path, src).green_node);
            for (s, e, kind, ty, _name) in collect_tast(&comp.tast) {
                if kind == "let-value" || kind == "expr-node" {
                    let (path, ty) = match ty.split_once('\u{1}') {
                        Some((p, t)) => (p.to_string(), t.to_string()),
                        None => (String::new(), ty),
                    };
                    if let Some(node) = expr_node_for(&hroot, s, e, kind == "let-value", &path) {
                        let kind = if path.is_empty() { kind } else { "let-sub" };
                        for (off, text) in head_tokens(&node) {
                            if seen_head.insert(off) {
                                heads.push((off, format!("{}:{:?}", kind, node.kind()), ty.clone(), text));
                            }
                        }
                    }
                    continue;
                }
                if (e as usize) > src.len() || !seen.insert((s, e)) {
                    continue;
                }
                // only nodes that are an identifier in the text (derive-generated code points at the attribute)
                let word = src[s as usize..e as usize].trim_end();
                if word.is_empty() || !word.bytes().all(|b| b.is_ascii_alphanumeric() || b == b'_') || word.as_bytes()[0].is_ascii_digit() {
                    continue;
                }
                nodes.push((s, e, kind, ty, word.to_string()));
            }
            // long programs: every identifier whose type has a type constructor in it (up to 6 per
            // distinct node kind + type), and a seeded sample of the identifiers of plain type
            if nodes.len() > hov_cap {
                let mut per_type: std::collections::HashMap<(&'static str, String), usize> = std::collections::HashMap::new();
                let total = nodes.len();
                let mut kept = Vec::new();
                for n in nodes.into_iter() {
                    let compound = n.3.contains('[') || n.3.contains('(') || n.3.contains("->") || n.3.contains("dyn ");
                    if compound {
                        let c = per_type.entry((n.2, n.3.clone())).or_default();
                        *c += 1;
                        if *c <= 6 {
                            kept.push(n);
                        }
                    } else if rng.below(total) < hov_cap {
                        kept.push(n);
                    }
                }
                nodes = kept;
            }
            // long programs: up to 4 tokens per distinct expression kind + type, compound types first
            if heads.len() > hov_cap {
                let mut per: std::collections::HashMap<(String, String), usize> = std::collections::HashMap::new();
                heads.retain(|h| {
                    let c = per.entry((h.1.clone(), h.2.clone())).or_default();
                    *c += 1;
                    *c <= 4
                });
                heads.sort_by_key(|h| !(h.2.contains('[') || h.2.contains('(') || h.2.contains("->")));
                heads.truncate(hov_cap);
            }
            for (off, kind, ty, word) in heads {
                let (l, c) = line_col_of(src, off);
                let got = match watch.guarded(th, [ti as u64, l as u64, c as u64, 15], || query::hover_type(&path, src, l, c)) {
                    Guarded::Done(Ok(s)) => format!("ok:{}", s),
                    Guarded::Done(Err(e)) => format!("err:{}", e),
                    Guarded::Panic(p) => format!("panic:{}", crash::site_of(&p)),
                };
                hov_n += 1;
                let agrees = got == format!("ok:{}", ty);
                sh.push(format!(
                    "HOV\t{}\t{}\t{}\t{}\t{}\t{}\t{}\t{}\t{}\t{}",
                    t.id, off, l, c, kind, esc_line(&word), esc_line(&ty), esc_line(&got),
                    if agrees { String::new() } else { cst_context(src, &path, off) },
                    if agrees { String::new() } else { esc_line(src) }
                ));
            }
            for (s, _e, kind, ty, word) in nodes {
                let word = word.as_str();
                let e = s + word.len() as u32;
                let ctx = cst_context(src, &path, s);
                // cursor on the first byte of the identifier and on its last byte
                for off in [s, if e > s + 1 { e - 1 } else { s }] {
                    let (l, c) = line_col_of(src, off);
                    let got = match watch.guarded(th, [ti as u64, l as u64, c as u64, 11], || query::hover_type(&path, src, l, c)) {
                        Guarded::Done(Ok(s)) => format!("ok:{}", s),
                        Guarded::Done(Err(e)) => format!("err:{}", e),
                        Guarded::Panic(p) => format!("panic:{}", crash::site_of(&p)),
                    };
                    hov_n += 1;
                    // the text is only needed for a replay: leave it out when hover and TAST agree literally
                    let agrees = got == format!("ok:{}", ty);
                    sh.push(format!(
                        "HOV\t{}\t{}\t{}\t{}\t{}\t{}\t{}\t{}\t{}\t{}",
                        t.id, off, l, c, kind, esc_line(word), esc_line(&ty), esc_line(&got), ctx, if agrees { String::new() } else { esc_line(src) }
                    ));
                    if e <= s + 1 {
                        break;
                    }
                }
            }
        }
    }
    // line-ending twins: the same program with other terminators / blank lines / indentation must
    // get the same answers at the corresponding positions (independent of the Lean model)
    let mut twin_n = 0;
    if twin_mode > 0 && t.path.is_none() && src.len() < 20_000 {
        let base_tokens = sig_tokens(src);
        let accepted = matches!(watch.guarded(th, [ti as u64, 0, 0, 12], || pipeline::compile(&path, src).is_ok()), Guarded::Done(true));
        let poss2 = twin_positions(src, &mut rng, if hover_only { 24 } else { 60 });
        let mut base_ans: Vec<[String; 3]> = Vec::new();
        for (l, c) in &poss2 {
            base_ans.push(answers(th, [ti as u64, *l as u64, *c as u64, 13], watch, &path, src, *l, *c));
        }
        for tw in twins(src, twin_mode > 1) {
            if tw.same_tokens {
                if sig_tokens(&tw.text) != base_tokens {
                    continue;
                }
            } else {
                let ok2 = matches!(watch.guarded(th, [ti as u64, 0, 0, 12], || pipeline::compile(&path, &tw.text).is_ok()), Guarded::Done(true));
                if !accepted || !ok2 {
                    continue;
                }
            }
            for ((l, c), a) in poss2.iter().zip(base_ans.iter()) {
                let Some((l2, c2)) = (tw.map)(*l, *c) else { continue };
                let b = answers(th, [ti as u64, l2 as u64, c2 as u64, 14], watch, &path, &tw.text, l2, c2);
                twin_n += 1;
                for (qi, qn) in ["hover", "dot", "colon"].iter().enumerate() {
                    if a[qi] != b[qi] {
                        sh.push(format!(
                            "TWN\t{}\t{}\t{}\t{}\t{}\t{}\t{}\t{}\t{}\t{}\t{}",
                            t.id, tw.name, qn, l, c, l2, c2, esc_line(&a[qi]), esc_line(&b[qi]), if accepted { "accepted" } else { "rejected" }, esc_line(&tw.text)
                        ));
                    }
                }
            }
        }
    }
    if tie {
        let tk: Vec<String> = toks.iter().map(|t| format!("{}:{}", t.0, t.2 - t.1)).collect();
        sh.push(format!("OFF\t{}\t{}\t{}\t{}", t.id, hex(src), tk.join(" "), tie_pos.trim_end()));
    }
    let errs: Vec<String> = tally.hover_err.iter().map(|(k, v)| format!("{}={}", k.replace(' ', "_"), v)).collect();
    sh.push(format!(
        "T\t{}\t{}\tbase={} len={} lines={} nonascii={} positions={} calls={} wasm_calls={} hover_ok={} dot_some={} dot_items={} cc_some={} cc_items={} hov_checked={} twin_checked={} panics={}\t{}",
        t.id,
        t.kind,
        t.base,
        src.len(),
        src.split('\n').count(),
        !src.is_ascii(),
        poss.len(),
        tally.calls,
        tally.wasm_calls,
        tally.hover_ok,
        tally.dot_some,
        tally.dot_items,
        tally.cc_some,
        tally.cc_items,
        hov_n,
        twin_n,
        tally.panics,
        errs.join(" ")
    ));
}

pub fn main(args: &util::Args) {
    crash::install_hook();
    let thorough = args.tier == "thorough";
    let root_dir = util::scratch_dir("c20");
    // the wasm wrappers use the relative path "dummy": make the cwd an empty directory
    let cwd = root_dir.join("cwd");
    let _ = std::fs::create_dir_all(&cwd);
    let _ = std::env::set_current_dir(&cwd);
    let mut rng = Rng::new(args.seed);
    let mut texts: Vec<Text> = Vec::new();
    let mut bases: Vec<(String, String, Option<PathBuf>)> = Vec::new();
    if let Some(f) = args.rest.iter().position(|a| a == "--file").and_then(|i| args.rest.get(i + 1)) {
        let src = std::fs::read_to_string(f).expect("read --file");
        texts.push(Text { id: "replay".into(), kind: "full", src, base: 0, path: None });
    } else {
        if let Ok(rd) = std::fs::read_dir(util::verif_root().join("corpus/C20")) {
            let mut ps: Vec<_> = rd.filter_map(|e| e.ok().map(|e| e.path())).collect();
            ps.sort();
            for p in ps {
                if let Ok(s) = std::fs::read_to_string(&p) {
                    bases.push((format!("corpus:{}", p.file_name().unwrap().to_string_lossy()), s, None));
                }
            }
        }
        for (i, s) in SEEDS.iter().enumerate() {
            bases.push((format!("seed{}", i), s.to_string(), None));
        }
        let ngen = args.n.unwrap_or(if thorough { 60 } else { 10 });
        for i in 0..ngen {
            let mut g = PGen { rng: rng.fork(i as u64) };
            bases.push((format!("gen{}:{}", args.seed, i), g.program(), None));
        }
        // token soup: what a file looks like while it is being pasted together
        for i in 0..(if thorough { 200 } else { 40 }) {
            let mut r = rng.fork(50_000 + i as u64);
            let n = 3 + r.below(25);
            let mut s = String::new();
            for _ in 0..n {
                s.push_str(*r.pick(POOL));
                if r.chance(2, 3) {
                    s.push(' ');
                }
            }
            bases.push((format!("soup{}:{}", args.seed, i), s, None));
        }
        let n_small = bases.len();
        let limit = if thorough { 5000 } else { 900 };
        for d in util::corpus_pipeline_dirs() {
            if let Ok(s) = std::fs::read_to_string(d.join("main.gom")) {
                if s.len() <= limit {
                    bases.push((format!("repo:{}", d.file_name().unwrap().to_string_lossy()), s, None));
                }
            }
        }
        // multi-package projects at their real location (the queries discover the sibling packages)
        if let Ok(rd) = std::fs::read_dir(util::repo_root().join("crates/compiler/src/tests/package")) {
            let mut ps: Vec<_> = rd.filter_map(|e| e.ok().map(|e| e.path())).filter(|p| p.join("main.gom").exists()).collect();
            ps.sort();
            for p in ps.into_iter().take(if thorough { 8 } else { 3 }) {
                if let Ok(s) = std::fs::read_to_string(p.join("main.gom")) {
                    bases.push((format!("pkg:{}", p.file_name().unwrap().to_string_lossy()), s, Some(p.join("main.gom"))));
                }
            }
        }
        for (bi, (id, src, path)) in bases.iter().enumerate() {
            let small = bi < n_small;
            let (max_prefix, n_mut) = match (small, thorough) {
                (true, false) => (400, 24),
                (true, true) => (400, 80),
                (false, false) => (10, 6),
                (false, true) => (60, 30),
            };
            let mut r = rng.fork(1000 + bi as u64);
            variants(bi, id, src, path, &mut r, max_prefix, n_mut, &mut texts);
        }
    }
    // the same text reached by two routes (e.g. two prefixes of one-token soups) is explored once
    {
        let mut seen: HashSet<(String, Option<PathBuf>)> = HashSet::new();
        texts.retain(|t| seen.insert((if t.kind == "hover-corpus" { format!("\u{0}hover\u{0}{}", t.src) } else { t.src.clone() }, t.path.clone())));
    }
    if !args.rest.iter().any(|a| a == "--file") {
        let nb = bases.len();
        for (k, (id, src)) in late_programs().into_iter().enumerate() {
            texts.push(Text { id, kind: "full", src, base: nb + k, path: None });
        }
        // calls of every function / method of the REAL initial environment with every argument count 0..declared+2
        // (harness/src/arity.rs), and the text as it looks while the call is being typed (`name(` at the end):
        // position sweep of the three queries only (these texts are ill-typed on purpose)
        for (k, c) in crate::arity::catalogue(false).into_iter().enumerate() {
            if !c.kind.starts_with("builtin") || !c.tag.ends_with("ctx=let") || !c.tag.contains("args=typed") {
                continue;
            }
            if c.given == 0 {
                if let Some(open) = c.src.find("let a = ").and_then(|p| c.src[p..].find("()").map(|q| p + q)) {
                    texts.push(Text { id: format!("arity:{}:typing", c.tag), kind: "arity", src: c.src[..open + 1].to_string(), base: nb + 10_000 + k, path: None });
                }
            }
            texts.push(Text { id: format!("arity:{}", c.tag), kind: "arity", src: c.src, base: nb + 10_000 + k, path: None });
        }
        // the oracles themselves (hover = TAST, completion validity, position sweep) on CRLF / mixed texts
        let mut k = 0;
        for (bi, (id, src, path)) in bases.iter().enumerate() {
            if path.is_some() || id.starts_with("soup") || !src.contains('\n') {
                continue;
            }
            let lines: Vec<&str> = src.split('\n').collect();
            texts.push(Text { id: format!("{}:crlf", id), kind: "full", src: lines.join("\r\n"), base: bi, path: None });
            if id.starts_with("seed") || id.starts_with("corpus") {
                let mut mixed = String::from("\r\n");
                for (i, l) in lines.iter().enumerate() {
                    mixed.push_str(l);
                    if i + 1 < lines.len() {
                        mixed.push_str(if i % 2 == 0 { "\r\n" } else { "\n" });
                    }
                }
                texts.push(Text { id: format!("{}:mixed", id), kind: "full", src: mixed, base: bi, path: None });
            }
            k += 1;
        }
        for (j, (id, src)) in late_programs().into_iter().enumerate() {
            if j % 4 == 0 {
                texts.push(Text { id: format!("{}:crlf", id), kind: "full", src: src.replace('\n', "\r\n"), base: nb + j, path: None });
            }
        }
        let _ = k;
        // late-resolved values whose type is completed by an annotation / a later argument / the result type /
        // a later branch: hover agreement only (identifiers and initialiser expressions)
        for (id, src) in late_fixed_programs() {
            texts.push(Text { id, kind: "hover-late", src, base: 0, path: None });
        }
        // hover agreement over EVERY pipeline corpus program, whatever its size (no position sweep)
        for d in util::corpus_pipeline_dirs() {
            if let Ok(s) = std::fs::read_to_string(d.join("main.gom")) {
                texts.push(Text { id: format!("hovercorpus:{}", d.file_name().unwrap().to_string_lossy()), kind: "hover-corpus", src: s, base: 0, path: None });
            }
        }
    }
    // development aid: `--only <id-prefix>` runs the texts of one family
    if let Some(pref) = args.rest.iter().position(|a| a == "--only").and_then(|i| args.rest.get(i + 1)) {
        texts.retain(|t| t.id.starts_with(pref.as_str()));
    }
    // the long hover-only texts first, so that they do not form the tail of the run
    texts.sort_by_key(|t| if t.kind == "hover-corpus" { (0, usize::MAX - t.src.len()) } else { (1, 0) });
    let sh = Arc::new(Shared { lines: Mutex::new(Vec::new()), out: args.out.clone() });
    let nthreads = std::thread::available_parallelism().map(|n| n.get()).unwrap_or(4).min(16);
    let texts = Arc::new(texts);
    let sh2 = sh.clone();
    let texts2 = texts.clone();
    let watch = Watch::start(
        nthreads,
        Duration::from_secs(5),
        Box::new(move |k| {
            let t = &texts2[k[0] as usize];
            sh2.push(format!("HANG\t{}\tquery={}\t{}\t{}\t{}", t.id, k[3], k[1], k[2], esc_line(&t.src)));
            sh2.flush();
        }),
    );
    let next = Arc::new(AtomicUsize::new(0));
    let pos_cap = if thorough { 4000 } else { 1200 };
    let hov_cap = if thorough { 3000 } else { 250 };
    // the model tie is run on every small text (≤ 400 bytes) and on a sample of the rest
    std::thread::scope(|s| {
        for th in 0..nthreads {
            let texts = texts.clone();
            let sh = sh.clone();
            let watch = watch.clone();
            let next = next.clone();
            let dir = root_dir.join(format!("t{}", th));
            let seed = args.seed;
            s.spawn(move || {
                let _ = std::fs::create_dir_all(&dir);
                watch.register(th);
                loop {
                    let i = next.fetch_add(1, Ordering::SeqCst);
                    if i >= texts.len() {
                        break;
                    }
                    let t = &texts[i];
                    let tie = t.src.len() <= 400 || i % 7 == 0;
                    // every text that feeds the hover / completion oracles also runs as line-ending twins:
                    // all variants for whole programs, CRLF + blank lines for mutations and for the
                    // prefixes that end in a completion trigger
                    let twin_mode = match t.kind {
                        "full" => 2,
                        "hover-corpus" => if t.src.len() > 4000 { 1 } else { 2 },
                        "hover-late" => 0,
                        "mutation" => 1,
                        _ => if t.src.trim_end().ends_with('.') || t.src.trim_end().ends_with("::") { 1 } else { 0 },
                    };
                    run_text(th, i, t, &dir, &watch, &sh, seed, tie && t.kind != "hover-corpus" && t.kind != "hover-late", pos_cap, hov_cap, twin_mode);
                }
            });
        }
    });
    sh.push(format!("#BASES\t{}", bases.len()));
    sh.flush();
    let _ = std::fs::remove_dir_all(&root_dir);
}
