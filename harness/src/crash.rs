//! Shared crash-search plumbing (C04, C20): a panic hook that records the panic *site*
//! (source file + enclosing function, line numbers dropped), `guarded` = `catch_unwind`
//! around one call with a per-thread "what am I running" slot, and a watchdog thread that
//! turns a call running longer than the limit into a `HANG` record and ends the process
//! (a hung thread cannot be killed; the caller's results so far are flushed first).
use std::cell::RefCell;
use std::panic::{AssertUnwindSafe, catch_unwind};
use std::sync::atomic::{AtomicBool, AtomicU64, Ordering};
use std::sync::{Arc, Mutex};
use std::time::{Duration, Instant};

#[derive(Clone, Debug, Default)]
pub struct PanicInfo {
    pub file: String,
    pub line: u32,
    pub msg: String,
}

thread_local! {
    static LAST: RefCell<Option<PanicInfo>> = const { RefCell::new(None) };
}

pub fn install_hook() {
    std::panic::set_hook(Box::new(|info| {
        let (file, line) = info.location().map(|l| (l.file().to_string(), l.line())).unwrap_or_default();
        let msg = if let Some(s) = info.payload().downcast_ref::<&str>() {
            s.to_string()
        } else if let Some(s) = info.payload().downcast_ref::<String>() {
            s.clone()
        } else {
            "<non-string panic>".to_string()
        };
        LAST.with(|l| *l.borrow_mut() = Some(PanicInfo { file, line, msg }));
    }));
}

/// strip everything up to the crate directory so a site does not depend on where the
/// checkout lives: `…/crates/compiler/src/mono.rs` → `compiler/src/mono.rs`,
/// `…/registry/src/<idx>/rowan-0.16.1/src/api.rs` → `rowan-0.16.1/src/api.rs`
pub fn short_file(file: &str) -> String {
    if let Some(i) = file.find("/crates/") {
        return file[i + 8..].to_string();
    }
    if let Some(i) = file.find("/registry/src/") {
        let rest = &file[i + 14..];
        if let Some(j) = rest.find('/') {
            return rest[j + 1..].to_string();
        }
    }
    if let Some(i) = file.find("/library/") {
        return format!("rust{}", &file[i..]);
    }
    file.to_string()
}

fn fn_name_on(line: &str) -> Option<String> {
    let t = line.trim_start();
    let mut rest = t;
    loop {
        let mut progressed = false;
        for kw in ["pub(crate) ", "pub(super) ", "pub ", "const ", "async ", "unsafe ", "extern \"C\" "] {
            if let Some(r) = rest.strip_prefix(kw) {
                rest = r;
                progressed = true;
            }
        }
        if !progressed {
            break;
        }
    }
    let r = rest.strip_prefix("fn ")?;
    let name: String = r.chars().take_while(|c| c.is_alphanumeric() || *c == '_').collect();
    if name.is_empty() { None } else { Some(name) }
}

/// name of the function whose body contains `line`, for rustfmt-formatted sources: the nearest
/// preceding `fn` header that is indented less than the line and whose body has not been closed
/// in between (a `}` line at the header's indentation or less)
pub fn enclosing_fn(file: &str, line: u32) -> String {
    let Ok(text) = std::fs::read_to_string(file) else { return "?".to_string() };
    let lines: Vec<&str> = text.lines().collect();
    if lines.is_empty() {
        return "?".to_string();
    }
    let idx = (line as usize).saturating_sub(1).min(lines.len() - 1);
    let indent = |s: &str| s.len() - s.trim_start().len();
    if let Some(n) = fn_name_on(lines[idx]) {
        return n;
    }
    let own = if lines[idx].trim().is_empty() { usize::MAX } else { indent(lines[idx]) };
    let mut closed_at = usize::MAX; // smallest indentation of a closing-brace line seen so far
    let mut i = idx;
    while i > 0 {
        i -= 1;
        let l = lines[i];
        if l.trim().is_empty() {
            continue;
        }
        let ind = indent(l);
        if let Some(n) = fn_name_on(l) {
            if ind < own && closed_at > ind {
                return n;
            }
        }
        if l.trim_start().starts_with('}') && !l.contains('{') {
            closed_at = closed_at.min(ind);
        }
    }
    "?".to_string()
}

pub fn site_of(p: &PanicInfo) -> String {
    format!("{}::{}", short_file(&p.file), enclosing_fn(&p.file, p.line))
}

pub enum Guarded<T> {
    Done(T),
    Panic(PanicInfo),
}

pub type Key = [u64; 4];

struct Slot {
    what: Key,
    since: Option<Instant>,
    /// CPU time of the process (clock ticks) when the call started — used instead of wall time
    /// when the process runs its cases on one thread, so that a loaded machine cannot fake a hang
    since_cpu: u64,
    /// kernel thread id of the worker that owns the slot (0 = not registered)
    tid: u64,
}

/// CPU ticks of one thread of this process
fn thread_cpu_ticks(tid: u64) -> u64 {
    let Ok(s) = std::fs::read_to_string(format!("/proc/self/task/{}/stat", tid)) else { return 0 };
    let Some(i) = s.rfind(')') else { return 0 };
    let f: Vec<&str> = s[i + 1..].split_whitespace().collect();
    let g = |k: usize| f.get(k).and_then(|x| x.parse::<u64>().ok()).unwrap_or(0);
    g(11) + g(12)
}

/// user + system CPU time of this process in clock ticks (100 per second on Linux)
pub fn proc_cpu_ticks() -> u64 {
    let Ok(s) = std::fs::read_to_string("/proc/self/stat") else { return 0 };
    let Some(i) = s.rfind(')') else { return 0 };
    let f: Vec<&str> = s[i + 1..].split_whitespace().collect();
    // after the command name: state is field 0, utime field 11, stime field 12
    let g = |k: usize| f.get(k).and_then(|x| x.parse::<u64>().ok()).unwrap_or(0);
    g(11) + g(12)
}

pub struct Watch {
    cpu: bool,
    slots: Arc<Vec<Mutex<Slot>>>,
    pub hung: Arc<AtomicBool>,
    pub calls: AtomicU64,
}

impl Watch {
    /// `on_hang(what)` runs on the watchdog thread when a guarded call exceeds `limit`;
    /// it must flush whatever the caller wants to keep; the process then exits with code 0
    /// (the HANG record in the output is what the check reports)
    pub fn start(threads: usize, limit: Duration, on_hang: Box<dyn Fn(Key) + Send>) -> Arc<Watch> {
        Self::start_mode(threads, limit, false, on_hang)
    }

    /// `cpu = true`: the limit is CPU time of the process (single-threaded case runners)
    pub fn start_mode(threads: usize, limit: Duration, cpu: bool, on_hang: Box<dyn Fn(Key) + Send>) -> Arc<Watch> {
        let slots = Arc::new((0..threads).map(|_| Mutex::new(Slot { what: [0; 4], since: None, since_cpu: 0, tid: 0 })).collect::<Vec<_>>());
        let w = Arc::new(Watch { cpu, slots: slots.clone(), hung: Arc::new(AtomicBool::new(false)), calls: AtomicU64::new(0) });
        let hung = w.hung.clone();
        std::thread::spawn(move || {
            loop {
                std::thread::sleep(Duration::from_millis(100));
                let mut found = None;
                let now_cpu = if cpu { proc_cpu_ticks() } else { 0 };
                let mut suspects: Vec<(usize, Key, Instant, u64)> = Vec::new();
                for (i, sl) in slots.iter().enumerate() {
                    let sl = sl.lock().unwrap();
                    if let Some(t) = sl.since {
                        if cpu {
                            // 100 ticks per second; wall time must have passed as well
                            if t.elapsed() > limit && now_cpu.saturating_sub(sl.since_cpu) > limit.as_secs() * 100 {
                                found = Some(sl.what);
                            }
                        } else if t.elapsed() > limit {
                            suspects.push((i, sl.what, t, sl.tid));
                        }
                    }
                }
                // wall-clock mode (many worker threads): a call that exceeded the limit is a hang if its
                // thread is burning CPU, or if it is still in the same call after 12 × the limit; a thread
                // that was merely descheduled on a loaded machine is left alone
                for (i, what, t0, tid) in suspects {
                    if tid == 0 || t0.elapsed() > limit * 12 {
                        found = Some(what);
                        break;
                    }
                    let c0 = thread_cpu_ticks(tid);
                    std::thread::sleep(Duration::from_millis(1500));
                    let c1 = thread_cpu_ticks(tid);
                    let same = slots[i].lock().unwrap().since == Some(t0);
                    if same && c1.saturating_sub(c0) >= 100 && t0.elapsed() > limit {
                        // ≥ 1 s of CPU in the last 1.5 s and the limit long gone: busy, not waiting
                        if thread_cpu_ticks(tid).saturating_sub(c0) >= 100 {
                            found = Some(what);
                            break;
                        }
                    }
                }
                if let Some(what) = found {
                    hung.store(true, Ordering::SeqCst);
                    on_hang(what);
                    std::process::exit(0);
                }
            }
        });
        w
    }

    /// called once by every worker thread: lets the watchdog look at the thread's own CPU time
    pub fn register(&self, thread: usize) {
        if let Ok(s) = std::fs::read_to_string("/proc/thread-self/stat") {
            if let Some(tid) = s.split_whitespace().next().and_then(|x| x.parse::<u64>().ok()) {
                self.slots[thread].lock().unwrap().tid = tid;
            }
        }
    }

    pub fn guarded<T>(&self, thread: usize, what: Key, f: impl FnOnce() -> T) -> Guarded<T> {
        {
            let mut s = self.slots[thread].lock().unwrap();
            s.what = what;
            s.since = Some(Instant::now());
            if self.cpu {
                s.since_cpu = proc_cpu_ticks();
            }
        }
        self.calls.fetch_add(1, Ordering::Relaxed);
        LAST.with(|l| *l.borrow_mut() = None);
        let r = catch_unwind(AssertUnwindSafe(f));
        self.slots[thread].lock().unwrap().since = None;
        match r {
            Ok(v) => Guarded::Done(v),
            Err(p) => {
                let info = LAST.with(|l| l.borrow_mut().take()).unwrap_or_else(|| PanicInfo {
                    file: "?".into(),
                    line: 0,
                    msg: crate::util::panic_message(p),
                });
                Guarded::Panic(info)
            }
        }
    }
}

/// Greedy delta-debugging of a text: drop chunks of lines, then chunks of tokens, as long as
/// `still_fails` holds; at most `budget` predicate calls.
pub fn shrink_text(src: &str, still_fails: &mut dyn FnMut(&str) -> bool, budget: usize) -> String {
    let mut best = src.to_string();
    let mut calls = 0usize;
    // lines
    let mut chunk = best.lines().count().max(1) / 2;
    while chunk >= 1 && calls < budget {
        let mut i = 0;
        loop {
            let lines: Vec<&str> = best.lines().collect();
            if i >= lines.len() || calls >= budget {
                break;
            }
            let j = (i + chunk).min(lines.len());
            let cand: String = lines[..i].iter().chain(lines[j..].iter()).map(|l| format!("{}\n", l)).collect();
            calls += 1;
            if cand.len() < best.len() && still_fails(&cand) {
                best = cand;
            } else {
                i += chunk;
            }
        }
        chunk /= 2;
    }
    // tokens
    let mut chunk = 16usize;
    while chunk >= 1 && calls < budget {
        let mut i = 0;
        loop {
            let toks: Vec<(usize, usize)> = lexer::lex(&best)
                .iter()
                .filter(|t| !t.kind.is_trivia())
                .map(|t| (u32::from(t.range.start()) as usize, u32::from(t.range.end()) as usize))
                .collect();
            if i >= toks.len() || calls >= budget {
                break;
            }
            let j = (i + chunk).min(toks.len());
            let cand = format!("{}{}", &best[..toks[i].0], &best[toks[j - 1].1..]);
            calls += 1;
            if still_fails(&cand) {
                best = cand;
            } else {
                i += chunk.max(1);
            }
        }
        chunk /= 2;
    }
    best
}
