//! DCE (shared by C02 and C09): run the REAL `compiler::go::dce::eliminate_dead_vars` on Go ASTs
//! that are decoded from S-expressions, and print input and output for the Lean model / oracles.
//!
//! `go_file` runs DCE internally, so a pre-DCE AST of a real compile is not observable.  Inputs:
//!   refeed  — the (post-DCE) AST of every corpus / generated program, fed again (idempotence);
//!   mutate  — those ASTs with dead declarations, dead stores, effectful / failing dead
//!             initialisers, declare-then-assign pairs, unused imports and unreachable functions
//!             injected at random positions;
//!   synth   — directly generated files over every `Stmt` form (nested if / switch / type switch /
//!             for-break, shadowing, self-referential assignments, block expressions).
//! One TSV line per case: `id  CASE  stream  tags  input-sexp  output-sexp`.
use crate::godump;
use crate::rng::Rng;
use crate::sexp::{S, a, l, n, tagged};
use crate::util::{self, Outcome};
use compiler::go::goast::*;
use compiler::go::goty::GoType;
use std::collections::BTreeMap;
use std::fmt::Write as _;
use std::panic::{AssertUnwindSafe, catch_unwind};

// ------------------------------------------------------------------ S-expression reader
pub fn parse_sexp(text: &str) -> Option<S> {
    let cs: Vec<char> = text.chars().collect();
    let mut i = 0usize;
    let r = parse_one(&cs, &mut i)?;
    skip_ws(&cs, &mut i);
    if i == cs.len() { Some(r) } else { None }
}

fn skip_ws(cs: &[char], i: &mut usize) {
    while *i < cs.len() && (cs[*i] == ' ' || cs[*i] == '\t' || cs[*i] == '\n' || cs[*i] == '\r') {
        *i += 1;
    }
}

fn parse_one(cs: &[char], i: &mut usize) -> Option<S> {
    skip_ws(cs, i);
    if *i >= cs.len() {
        return None;
    }
    match cs[*i] {
        '(' => {
            *i += 1;
            let mut items = Vec::new();
            loop {
                skip_ws(cs, i);
                if *i >= cs.len() {
                    return None;
                }
                if cs[*i] == ')' {
                    *i += 1;
                    return Some(S::L(items));
                }
                items.push(parse_one(cs, i)?);
            }
        }
        ')' => None,
        '"' => {
            *i += 1;
            let mut buf = String::new();
            loop {
                if *i >= cs.len() {
                    return None;
                }
                let c = cs[*i];
                *i += 1;
                match c {
                    '"' => return Some(S::A(buf)),
                    '\\' => {
                        if *i >= cs.len() {
                            return None;
                        }
                        let d = cs[*i];
                        *i += 1;
                        buf.push(match d {
                            'n' => '\n',
                            't' => '\t',
                            'r' => '\r',
                            other => other,
                        });
                    }
                    other => buf.push(other),
                }
            }
        }
        _ => {
            let mut buf = String::new();
            while *i < cs.len() && !matches!(cs[*i], ' ' | '\t' | '\n' | '\r' | '(' | ')') {
                buf.push(cs[*i]);
                *i += 1;
            }
            Some(S::A(buf))
        }
    }
}

// ------------------------------------------------------------------ decoder (inverse of godump.rs)
fn atom(s: &S) -> Option<&str> {
    match s {
        S::A(x) => Some(x.as_str()),
        _ => None,
    }
}
fn list(s: &S) -> Option<&[S]> {
    match s {
        S::L(x) => Some(x.as_slice()),
        _ => None,
    }
}
fn head(s: &S) -> Option<(&str, &[S])> {
    let v = list(s)?;
    let (h, rest) = v.split_first()?;
    Some((atom(h)?, rest))
}

pub fn dty(s: &S) -> Option<GoType> {
    if let Some(x) = atom(s) {
        return Some(match x {
            "void" => GoType::TVoid,
            "unit" => GoType::TUnit,
            "bool" => GoType::TBool,
            "i8" => GoType::TInt8,
            "i16" => GoType::TInt16,
            "i32" => GoType::TInt32,
            "i64" => GoType::TInt64,
            "u8" => GoType::TUint8,
            "u16" => GoType::TUint16,
            "u32" => GoType::TUint32,
            "u64" => GoType::TUint64,
            "f32" => GoType::TFloat32,
            "f64" => GoType::TFloat64,
            "string" => GoType::TString,
            _ => return None,
        });
    }
    let (h, r) = head(s)?;
    Some(match (h, r) {
        ("struct", [name, fields @ ..]) => GoType::TStruct {
            name: atom(name)?.to_string(),
            fields: fields.iter().map(dparam).collect::<Option<Vec<_>>>()?,
        },
        ("ptr", [t]) => GoType::TPointer { elem: Box::new(dty(t)?) },
        ("fn", [ps, r]) => GoType::TFunc {
            params: list(ps)?.iter().map(dty).collect::<Option<Vec<_>>>()?,
            ret_ty: Box::new(dty(r)?),
        },
        ("name", [x]) => GoType::TName { name: atom(x)?.to_string() },
        ("array", [k, t]) => GoType::TArray { len: atom(k)?.parse().ok()?, elem: Box::new(dty(t)?) },
        ("slice", [t]) => GoType::TSlice { elem: Box::new(dty(t)?) },
        _ => return None,
    })
}

fn dparam(s: &S) -> Option<(String, GoType)> {
    match list(s)? {
        [x, t] => Some((atom(x)?.to_string(), dty(t)?)),
        _ => None,
    }
}

fn dunop(x: &str) -> Option<GoUnaryOp> {
    Some(match x {
        "neg" => GoUnaryOp::Neg,
        "not" => GoUnaryOp::Not,
        "addr" => GoUnaryOp::AddrOf,
        "deref" => GoUnaryOp::Deref,
        _ => return None,
    })
}

fn dbinop(x: &str) -> Option<GoBinaryOp> {
    Some(match x {
        "add" => GoBinaryOp::Add,
        "sub" => GoBinaryOp::Sub,
        "mul" => GoBinaryOp::Mul,
        "div" => GoBinaryOp::Div,
        "less" => GoBinaryOp::Less,
        "greater" => GoBinaryOp::Greater,
        "less_eq" => GoBinaryOp::LessEq,
        "greater_eq" => GoBinaryOp::GreaterEq,
        "eq" => GoBinaryOp::Eq,
        "not_eq" => GoBinaryOp::NotEq,
        "and" => GoBinaryOp::And,
        "or" => GoBinaryOp::Or,
        _ => return None,
    })
}

pub fn dexpr(s: &S) -> Option<Expr> {
    let (h, r) = head(s)?;
    Some(match (h, r) {
        ("nil", [t]) => Expr::Nil { ty: dty(t)? },
        ("voidv", [t]) => Expr::Void { ty: dty(t)? },
        ("unitv", [t]) => Expr::Unit { ty: dty(t)? },
        ("var", [x, t]) => Expr::Var { name: atom(x)?.to_string(), ty: dty(t)? },
        ("bool", [b]) => Expr::Bool { value: atom(b)? == "true", ty: GoType::TBool },
        ("int", [v, t]) => Expr::Int { value: atom(v)?.to_string(), ty: dty(t)? },
        ("float", [v, t]) => Expr::Float { value: f64::from_bits(atom(v)?.parse().ok()?), ty: dty(t)? },
        ("str", [v]) => Expr::String { value: atom(v)?.to_string(), ty: GoType::TString },
        ("call", [t, f, args @ ..]) => Expr::Call {
            ty: dty(t)?,
            func: Box::new(dexpr(f)?),
            args: args.iter().map(dexpr).collect::<Option<Vec<_>>>()?,
        },
        ("un", [op, t, e]) => Expr::UnaryOp { op: dunop(atom(op)?)?, ty: dty(t)?, expr: Box::new(dexpr(e)?) },
        ("bin", [op, t, x, y]) => Expr::BinaryOp {
            op: dbinop(atom(op)?)?,
            ty: dty(t)?,
            lhs: Box::new(dexpr(x)?),
            rhs: Box::new(dexpr(y)?),
        },
        ("field", [f, t, o]) => Expr::FieldAccess { field: atom(f)?.to_string(), ty: dty(t)?, obj: Box::new(dexpr(o)?) },
        ("index", [t, x, i]) => Expr::Index { ty: dty(t)?, array: Box::new(dexpr(x)?), index: Box::new(dexpr(i)?) },
        ("cast", [t, e]) => Expr::Cast { ty: dty(t)?, expr: Box::new(dexpr(e)?) },
        ("slit", [t, fs @ ..]) => Expr::StructLiteral {
            ty: dty(t)?,
            fields: fs
                .iter()
                .map(|f| match list(f)? {
                    [x, e] => Some((atom(x)?.to_string(), dexpr(e)?)),
                    _ => None,
                })
                .collect::<Option<Vec<_>>>()?,
        },
        ("alit", [t, es @ ..]) => Expr::ArrayLiteral { ty: dty(t)?, elems: es.iter().map(dexpr).collect::<Option<Vec<_>>>()? },
        ("blocke", [t, ss, e]) => Expr::Block {
            ty: dty(t)?,
            stmts: dblock(ss)?.stmts,
            expr: match atom(e) {
                Some("none") => None,
                _ => Some(Box::new(dexpr(e)?)),
            },
        },
        _ => return None,
    })
}

fn dopt_expr(s: &S) -> Option<Option<Expr>> {
    match atom(s) {
        Some("none") => Some(None),
        _ => Some(Some(dexpr(s)?)),
    }
}

pub fn dblock(s: &S) -> Option<Block> {
    Some(Block { stmts: list(s)?.iter().map(dstmt).collect::<Option<Vec<_>>>()? })
}

fn dopt_block(s: &S) -> Option<Option<Block>> {
    match atom(s) {
        Some("none") => Some(None),
        _ => Some(Some(dblock(s)?)),
    }
}

pub fn dstmt(s: &S) -> Option<Stmt> {
    let (h, r) = head(s)?;
    Some(match (h, r) {
        ("expr", [e]) => Stmt::Expr(dexpr(e)?),
        ("go", [e]) => Stmt::Go { call: dexpr(e)? },
        ("vardecl", [x, t, v]) => Stmt::VarDecl { name: atom(x)?.to_string(), ty: dty(t)?, value: dopt_expr(v)? },
        ("assign", [x, v]) => Stmt::Assignment { name: atom(x)?.to_string(), value: dexpr(v)? },
        ("fassign", [t, v]) => Stmt::FieldAssign { target: dexpr(t)?, value: dexpr(v)? },
        ("passign", [p, v]) => Stmt::PointerAssign { pointer: dexpr(p)?, value: dexpr(v)? },
        ("iassign", [x, i, v]) => Stmt::IndexAssign { array: dexpr(x)?, index: dexpr(i)?, value: dexpr(v)? },
        ("return", [e]) => Stmt::Return { expr: dopt_expr(e)? },
        ("if", [c, t, e]) => Stmt::If { cond: dexpr(c)?, then: dblock(t)?, else_: dopt_block(e)? },
        ("loop", [b]) => Stmt::Loop { body: dblock(b)? },
        ("break", []) => Stmt::Break,
        ("switch", [e, cases, d]) => Stmt::SwitchExpr {
            expr: dexpr(e)?,
            cases: list(cases)?
                .iter()
                .map(|c| match list(c)? {
                    [v, b] => Some((dexpr(v)?, dblock(b)?)),
                    _ => None,
                })
                .collect::<Option<Vec<_>>>()?,
            default: dopt_block(d)?,
        },
        ("tswitch", [b, e, cases, d]) => Stmt::SwitchType {
            bind: match atom(b)? {
                "_" => None,
                x => Some(x.to_string()),
            },
            expr: dexpr(e)?,
            cases: list(cases)?
                .iter()
                .map(|c| match list(c)? {
                    [t, b] => Some((dty(t)?, dblock(b)?)),
                    _ => None,
                })
                .collect::<Option<Vec<_>>>()?,
            default: dopt_block(d)?,
        },
        _ => return None,
    })
}

fn dparams(s: &S) -> Option<Vec<(String, GoType)>> {
    list(s)?.iter().map(dparam).collect()
}

fn dopt_ty(s: &S) -> Option<Option<GoType>> {
    match atom(s) {
        Some("none") => Some(None),
        _ => Some(Some(dty(s)?)),
    }
}

pub fn ditem(s: &S) -> Option<Item> {
    let (h, r) = head(s)?;
    Some(match (h, r) {
        ("package", [x]) => Item::Package(Package { name: atom(x)?.to_string() }),
        ("import", specs) => Item::Import(ImportDecl {
            specs: specs
                .iter()
                .map(|sp| match list(sp)? {
                    [al, p] => Some(ImportSpec {
                        alias: match atom(al)? {
                            "-" => None,
                            x => Some(x.to_string()),
                        },
                        path: atom(p)?.to_string(),
                    }),
                    _ => None,
                })
                .collect::<Option<Vec<_>>>()?,
        }),
        ("interface", [x, ms]) => Item::Interface(Interface {
            name: atom(x)?.to_string(),
            methods: list(ms)?
                .iter()
                .map(|m| match list(m)? {
                    [mn, ps, rt] => Some(MethodElem { name: atom(mn)?.to_string(), params: dparams(ps)?, ret: dopt_ty(rt)? }),
                    _ => None,
                })
                .collect::<Option<Vec<_>>>()?,
        }),
        ("structdef", [x, fs, ms]) => Item::Struct(Struct {
            name: atom(x)?.to_string(),
            fields: list(fs)?
                .iter()
                .map(|f| dparam(f).map(|(name, ty)| Field { name, ty }))
                .collect::<Option<Vec<_>>>()?,
            methods: list(ms)?
                .iter()
                .map(|m| match head(m)? {
                    ("method", [rn, rt, mn, ps, b]) => Some(Method {
                        receiver: Receiver { name: atom(rn)?.to_string(), ty: dty(rt)? },
                        name: atom(mn)?.to_string(),
                        params: dparams(ps)?,
                        body: dblock(b)?,
                    }),
                    _ => None,
                })
                .collect::<Option<Vec<_>>>()?,
        }),
        ("alias", [x, t]) => Item::TypeAlias(TypeAlias { name: atom(x)?.to_string(), ty: dty(t)? }),
        ("func", [x, ps, rt, b]) => {
            Item::Fn(Fn { name: atom(x)?.to_string(), params: dparams(ps)?, ret_ty: dopt_ty(rt)?, body: dblock(b)? })
        }
        _ => return None,
    })
}

pub fn dfile(s: &S) -> Option<File> {
    let (h, r) = head(s)?;
    if h != "gofile" {
        return None;
    }
    Some(File { toplevels: r.iter().map(ditem).collect::<Option<Vec<_>>>()? })
}

// ------------------------------------------------------------------ S-expression builders
fn ti32() -> S {
    a("i32")
}
fn var(x: &str, t: S) -> S {
    tagged("var", vec![a(x), t])
}
fn int(v: i64) -> S {
    tagged("int", vec![n(v), ti32()])
}
fn strlit(v: &str) -> S {
    tagged("str", vec![S::A(v.to_string())])
}
fn bin(op: &str, t: S, x: S, y: S) -> S {
    tagged("bin", vec![a(op), t, x, y])
}
fn call(t: S, f: S, args: Vec<S>) -> S {
    let mut v = vec![t, f];
    v.extend(args);
    tagged("call", v)
}
fn fnty(ps: Vec<S>, r: S) -> S {
    tagged("fn", vec![l(ps), r])
}
fn vardecl(x: &str, t: S, v: Option<S>) -> S {
    tagged("vardecl", vec![a(x), t, v.unwrap_or_else(|| a("none"))])
}
fn assign(x: &str, v: S) -> S {
    tagged("assign", vec![a(x), v])
}
fn expr_stmt(e: S) -> S {
    tagged("expr", vec![e])
}
fn ret(e: Option<S>) -> S {
    tagged("return", vec![e.unwrap_or_else(|| a("none"))])
}
fn ifs(c: S, t: Vec<S>, e: Option<Vec<S>>) -> S {
    tagged("if", vec![c, l(t), e.map(l).unwrap_or_else(|| a("none"))])
}
/// `dce_probe("…")`: a call with an observable effect (prints its argument), result `struct{}`
fn probe_call(msg: &str) -> S {
    call(a("unit"), var("dce_probe", fnty(vec![a("string")], a("unit"))), vec![strlit(msg)])
}
/// `dce_show(x)`: prints an int32
fn show_call(e: S) -> S {
    call(a("unit"), var("dce_show", fnty(vec![ti32()], a("unit"))), vec![e])
}
fn probe_items() -> Vec<S> {
    let println = |arg: S| {
        expr_stmt(call(a("void"), var("fmt.Println", fnty(vec![a("string")], a("void"))), vec![arg]))
    };
    vec![
        tagged(
            "func",
            vec![
                a("dce_probe"),
                l(vec![l(vec![a("s"), a("string")])]),
                a("unit"),
                l(vec![println(var("s", a("string"))), ret(Some(tagged("unitv", vec![a("unit")])))]),
            ],
        ),
        tagged(
            "func",
            vec![
                a("dce_show"),
                l(vec![l(vec![a("x"), ti32()])]),
                a("unit"),
                l(vec![
                    println(call(
                        a("string"),
                        var("fmt.Sprintf", fnty(vec![a("string"), ti32()], a("string"))),
                        vec![strlit("%d"), var("x", ti32())],
                    )),
                    ret(Some(tagged("unitv", vec![a("unit")]))),
                ]),
            ],
        ),
    ]
}

// ------------------------------------------------------------------ mutation of real ASTs
struct Mut<'a> {
    rng: &'a mut Rng,
    /// struct-typed locals in scope: (name, type, first field, its type)
    structs: Vec<(String, S, String, S)>,
    k: usize,
    tags: BTreeMap<&'static str, usize>,
    budget: usize,
}

impl Mut<'_> {
    fn fresh(&mut self, p: &str) -> String {
        self.k += 1;
        format!("{}_{}", p, self.k)
    }
    fn tag(&mut self, t: &'static str) {
        *self.tags.entry(t).or_default() += 1;
    }

    /// statements to insert at one position; `ints` are the int32 variables visible there
    fn injection(&mut self, ints: &[String]) -> Vec<S> {
        let pick_int = |rng: &mut Rng| -> Option<String> { if ints.is_empty() { None } else { Some(rng.pick(ints).clone()) } };
        if !self.structs.is_empty() && self.rng.chance(1, 4) {
            // `var dead T = x.f`: what an unused tuple component / struct field looks like before DCE
            self.tag("dead-field-projection");
            let (x, t, f, ft) = self.rng.pick(&self.structs).clone();
            return vec![vardecl(&self.fresh("dead"), ft.clone(), Some(tagged("field", vec![a(&f), ft, var(&x, t)])))];
        }
        match self.rng.below(12) {
            0 => {
                self.tag("dead-pure-literal");
                vec![vardecl(&self.fresh("dead"), ti32(), Some(int(7)))]
            }
            1 => {
                self.tag("dead-pure-arith");
                let x = pick_int(self.rng).map(|x| var(&x, ti32())).unwrap_or_else(|| int(2));
                vec![vardecl(&self.fresh("dead"), ti32(), Some(bin("add", ti32(), x, int(1))))]
            }
            2 => {
                self.tag("dead-call-init");
                let d = self.fresh("dead");
                vec![vardecl(&d, a("unit"), Some(probe_call(&format!("init {}", d))))]
            }
            3 => {
                self.tag("dead-div-by-zero");
                let z = self.fresh("zdead");
                let d = self.fresh("dead");
                vec![
                    vardecl(&z, ti32(), Some(int(0))),
                    vardecl(&d, ti32(), Some(bin("div", ti32(), int(1), var(&z, ti32())))),
                ]
            }
            4 => {
                self.tag("dead-index-out-of-range");
                let arr = self.fresh("adead");
                let i = self.fresh("idead");
                let d = self.fresh("dead");
                let at = tagged("array", vec![n(3), ti32()]);
                vec![
                    vardecl(&arr, at.clone(), Some(tagged("alit", vec![at.clone(), int(1), int(2), int(3)]))),
                    vardecl(&i, ti32(), Some(int(5))),
                    vardecl(&d, ti32(), Some(tagged("index", vec![ti32(), var(&arr, at), var(&i, ti32())]))),
                ]
            }
            5 => {
                self.tag("dead-div-nonzero");
                let z = self.fresh("zdead");
                let d = self.fresh("dead");
                vec![
                    vardecl(&z, ti32(), Some(int(3))),
                    vardecl(&d, ti32(), Some(bin("div", ti32(), int(7), var(&z, ti32())))),
                ]
            }
            6 => {
                self.tag("declare-then-dead-store");
                let d = self.fresh("dead");
                vec![vardecl(&d, ti32(), None), assign(&d, int(5))]
            }
            7 => {
                self.tag("declare-call-then-live-store");
                let d = self.fresh("dlive");
                vec![
                    vardecl(&d, a("unit"), Some(probe_call(&format!("first {}", d)))),
                    assign(&d, probe_call(&format!("second {}", d))),
                    vardecl(&self.fresh("dead"), a("unit"), Some(var(&d, a("unit")))),
                    expr_stmt(call(a("unit"), var("dce_keep_unit", fnty(vec![a("unit")], a("unit"))), vec![var(&d, a("unit"))])),
                ]
            }
            8 => {
                self.tag("live-int-shown");
                let d = self.fresh("shown");
                let x = pick_int(self.rng).map(|x| var(&x, ti32())).unwrap_or_else(|| int(4));
                vec![vardecl(&d, ti32(), Some(bin("mul", ti32(), x, int(3)))), expr_stmt(show_call(var(&d, ti32())))]
            }
            9 => {
                self.tag("dead-builtin-call");
                let s = self.fresh("sdead");
                let st = tagged("slice", vec![ti32()]);
                vec![
                    vardecl(&s, st.clone(), Some(tagged("nil", vec![st.clone()]))),
                    vardecl(
                        &self.fresh("dead"),
                        st.clone(),
                        Some(call(st.clone(), var("append", fnty(vec![st.clone(), ti32()], st.clone())), vec![var(&s, st.clone()), int(1)])),
                    ),
                    vardecl(
                        &self.fresh("dead"),
                        ti32(),
                        Some(call(
                            ti32(),
                            var("int32", fnty(vec![ti32()], ti32())),
                            vec![call(ti32(), var("len", fnty(vec![st.clone()], ti32())), vec![var(&s, st)])],
                        )),
                    ),
                ]
            }
            10 => {
                self.tag("dead-in-branch");
                let d = self.fresh("dead");
                let c = pick_int(self.rng).map(|x| bin("less", a("bool"), var(&x, ti32()), int(1000))).unwrap_or_else(|| tagged("bool", vec![a("true")]));
                vec![ifs(
                    c,
                    vec![vardecl(&d, ti32(), Some(int(1))), expr_stmt(probe_call("then"))],
                    Some(vec![vardecl(&self.fresh("dead"), a("unit"), Some(probe_call("else")))]),
                )]
            }
            _ => {
                self.tag("dead-store-to-fresh-live-var");
                let d = self.fresh("dlive");
                vec![
                    vardecl(&d, ti32(), Some(int(1))),
                    assign(&d, int(2)),
                    assign(&d, int(3)),
                    expr_stmt(show_call(var(&d, ti32()))),
                    assign(&d, int(4)),
                ]
            }
        }
    }

    fn block(&mut self, stmts: &[S], ints: &mut Vec<String>, p: u64) -> Vec<S> {
        let mut out = Vec::new();
        let base = ints.len();
        let sbase = self.structs.len();
        for st in stmts {
            if self.budget > 0 && self.rng.chance(p, 100) {
                self.budget -= 1;
                out.extend(self.injection(ints));
            }
            // never insert after a terminating statement: Go rejects nothing there, but keep the
            // program's shape (and `missing return` analysis) intact
            out.push(self.stmt(st, ints, p));
            if let Some(("vardecl", [x, t, _])) = head(st) {
                if atom(t) == Some("i32") {
                    ints.push(atom(x).unwrap_or("").to_string());
                }
                if let Some(("struct", [_, f0, ..])) = head(t) {
                    if let Some([fname, fty]) = list(f0) {
                        self.structs.push((atom(x).unwrap_or("").to_string(), t.clone(), atom(fname).unwrap_or("").to_string(), fty.clone()));
                    }
                }
            }
        }
        ints.truncate(base);
        self.structs.truncate(sbase);
        out
    }

    fn opt_block(&mut self, b: &S, ints: &mut Vec<String>, p: u64) -> S {
        match list(b) {
            Some(ss) => l(self.block(ss, ints, p)),
            None => b.clone(),
        }
    }

    fn stmt(&mut self, st: &S, ints: &mut Vec<String>, p: u64) -> S {
        match head(st) {
            Some(("if", [c, t, e])) => tagged("if", vec![c.clone(), self.opt_block(t, ints, p), self.opt_block(e, ints, p)]),
            Some(("loop", [b])) => tagged("loop", vec![self.opt_block(b, ints, p)]),
            Some(("switch", [e, cases, d])) => {
                let cs = list(cases)
                    .unwrap_or(&[])
                    .iter()
                    .map(|c| match list(c) {
                        Some([v, b]) => l(vec![v.clone(), self.opt_block(b, ints, p)]),
                        _ => c.clone(),
                    })
                    .collect();
                tagged("switch", vec![e.clone(), l(cs), self.opt_block(d, ints, p)])
            }
            Some(("tswitch", [b, e, cases, d])) => {
                let cs = list(cases)
                    .unwrap_or(&[])
                    .iter()
                    .map(|c| match list(c) {
                        Some([t, body]) => l(vec![t.clone(), self.opt_block(body, ints, p)]),
                        _ => c.clone(),
                    })
                    .collect();
                tagged("tswitch", vec![b.clone(), e.clone(), l(cs), self.opt_block(d, ints, p)])
            }
            _ => st.clone(),
        }
    }
}

/// `dce_keep_unit(u)`: a live use of a `struct{}` value
fn keep_unit_item() -> S {
    tagged(
        "func",
        vec![
            a("dce_keep_unit"),
            l(vec![l(vec![a("u"), a("unit")])]),
            a("unit"),
            l(vec![ret(Some(var("u", a("unit"))))]),
        ],
    )
}

fn mutate_file(file: &S, rng: &mut Rng) -> (S, String) {
    let Some(("gofile", items)) = head(file) else { return (file.clone(), String::new()) };
    let mut m = Mut { rng, structs: Vec::new(), k: 0, tags: BTreeMap::new(), budget: 6 };
    let mut out: Vec<S> = Vec::new();
    let has_fmt = items.iter().any(|it| match head(it) {
        Some(("import", specs)) => specs.iter().any(|sp| matches!(list(sp), Some([_, p]) if atom(p) == Some("fmt"))),
        _ => false,
    });
    let user_fns: Vec<usize> = items.iter().enumerate().filter(|(_, it)| matches!(head(it), Some(("func", _)))).map(|(i, _)| i).collect();
    let mut seen_import = false;
    for (i, it) in items.iter().enumerate() {
        match head(it) {
            Some(("import", specs)) => {
                seen_import = true;
                let mut sp: Vec<S> = specs.to_vec();
                if !has_fmt {
                    sp.push(l(vec![a("-"), a("fmt")]));
                }
                if m.rng.chance(1, 2) {
                    m.tag("unused-import");
                    sp.push(l(vec![a("-"), a("os")]));
                }
                if m.rng.chance(1, 3) {
                    m.tag("unused-import-aliased");
                    sp.push(l(vec![a("str"), a("strings")]));
                }
                if m.rng.chance(1, 3) {
                    m.tag("unused-import-nested-path");
                    sp.insert(0, l(vec![a("-"), a("math/rand")]));
                }
                out.push(tagged("import", sp));
            }
            Some(("func", [name, ps, rt, body])) => {
                // mutate user functions and main0 with a higher rate than runtime helpers
                let p = if user_fns.len() <= 4 || m.rng.chance(1, 2) { 25 } else { 0 };
                let mut ints: Vec<String> = list(ps)
                    .unwrap_or(&[])
                    .iter()
                    .filter_map(|q| match list(q) {
                        Some([x, t]) if atom(t) == Some("i32") => atom(x).map(|s| s.to_string()),
                        _ => None,
                    })
                    .collect();
                let stmts = list(body).unwrap_or(&[]);
                // keep a trailing `return` last: only insert before existing statements
                let body2 = if p > 0 && atom(name) != Some("main") { m.block(stmts, &mut ints, p) } else { stmts.to_vec() };
                out.push(tagged("func", vec![name.clone(), ps.clone(), rt.clone(), l(body2)]));
                let _ = i;
            }
            _ => out.push(it.clone()),
        }
    }
    if !seen_import {
        let pos = if matches!(out.first().and_then(head), Some(("package", _))) { 1 } else { 0 };
        let mut sp = vec![l(vec![a("-"), a("fmt")])];
        if m.rng.chance(1, 2) {
            m.tag("unused-import");
            sp.push(l(vec![a("-"), a("os")]));
        }
        out.insert(pos, tagged("import", sp));
    }
    out.extend(probe_items());
    out.push(keep_unit_item());
    // unreachable functions: a chain, one referenced only from a dead initialiser
    if m.rng.chance(2, 3) {
        m.tag("unreachable-fn-chain");
        let f1 = m.fresh("dead_fn");
        let f2 = m.fresh("dead_fn");
        let unit_fn = |name: &str, body: Vec<S>| tagged("func", vec![a(name), l(vec![]), a("unit"), l(body)]);
        out.push(unit_fn(&f1, vec![ret(Some(call(a("unit"), var(&f2, fnty(vec![], a("unit"))), vec![])))]));
        out.push(unit_fn(&f2, vec![ret(Some(probe_call("never")))]));
    }
    (tagged("gofile", out), m.tags.iter().map(|(k, v)| format!("{}={}", k, v)).collect::<Vec<_>>().join(" "))
}

// ------------------------------------------------------------------ synthetic files over every Stmt form
#[derive(Clone, Copy, PartialEq)]
enum Ty {
    Int,
    Bool,
    Unit,
    Arr,
    Ptr,
    Iface,
    Pair,
}

fn tys(t: Ty) -> S {
    match t {
        Ty::Int => ti32(),
        Ty::Bool => a("bool"),
        Ty::Unit => a("unit"),
        Ty::Arr => tagged("array", vec![n(3), ti32()]),
        Ty::Ptr => tagged("ptr", vec![tagged("name", vec![a("Cell")])]),
        Ty::Iface => tagged("name", vec![a("Shape")]),
        Ty::Pair => tagged("name", vec![a("Pair")]),
    }
}

struct Synth<'a> {
    rng: &'a mut Rng,
    k: usize,
    scope: Vec<(String, Ty)>,
    tags: BTreeMap<&'static str, usize>,
    /// allow the shapes outside the contract of the preservation theorem
    wild: bool,
    /// user functions (with an effect) named like Go builtins / conversions / runtime helpers
    shadow: Vec<String>,
}

impl Synth<'_> {
    fn fresh(&mut self, p: &str) -> String {
        self.k += 1;
        format!("{}{}", p, self.k)
    }
    fn tag(&mut self, t: &'static str) {
        *self.tags.entry(t).or_default() += 1;
    }
    fn vars_of(&self, t: Ty) -> Vec<String> {
        self.scope.iter().filter(|(_, u)| *u == t).map(|(x, _)| x.clone()).collect()
    }
    fn pick_var(&mut self, t: Ty) -> Option<String> {
        // loop counters (`cntN`) are only touched by the loop skeleton, so loops terminate
        let v: Vec<String> = self.vars_of(t).into_iter().filter(|x| !x.starts_with("cnt")).collect();
        if v.is_empty() { None } else { Some(self.rng.pick(&v).clone()) }
    }

    fn int_expr(&mut self, depth: usize) -> S {
        let c = self.rng.below(if depth == 0 { 3 } else { 11 });
        match c {
            0 => int(self.rng.below(5) as i64),
            1 | 2 => match self.pick_var(Ty::Int) {
                Some(x) => var(&x, ti32()),
                None => int(1 + self.rng.below(4) as i64),
            },
            3 => bin("add", ti32(), self.int_expr(depth - 1), self.int_expr(depth - 1)),
            4 => bin("mul", ti32(), self.int_expr(depth - 1), int(2)),
            5 => {
                self.tag("expr-div");
                bin("div", ti32(), self.int_expr(depth - 1), self.int_expr(depth - 1))
            }
            6 => match self.pick_var(Ty::Arr) {
                Some(arr) => {
                    self.tag("expr-index");
                    tagged("index", vec![ti32(), var(&arr, tys(Ty::Arr)), self.int_expr(depth - 1)])
                }
                None => int(3),
            },
            7 => {
                if !self.shadow.is_empty() && self.rng.chance(2, 3) {
                    self.tag("expr-call-shadowing-builtin");
                    let f = self.rng.pick(&self.shadow).clone();
                    call(ti32(), var(&f, fnty(vec![ti32()], ti32())), vec![self.int_expr(depth - 1)])
                } else {
                    self.tag("expr-call");
                    call(ti32(), var("bump", fnty(vec![ti32()], ti32())), vec![self.int_expr(depth - 1)])
                }
            }
            8 => match self.pick_var(Ty::Ptr) {
                Some(p) => {
                    self.tag("expr-ptr-field");
                    tagged("field", vec![a("value"), ti32(), var(&p, tys(Ty::Ptr))])
                }
                None => tagged("un", vec![a("neg"), ti32(), self.int_expr(depth - 1)]),
            },
            9 => match self.pick_var(Ty::Pair) {
                Some(p) => {
                    self.tag("expr-struct-field");
                    tagged("field", vec![a("_0"), ti32(), var(&p, tys(Ty::Pair))])
                }
                None => int(9),
            },
            _ => {
                if self.wild && self.rng.chance(1, 3) {
                    self.tag("expr-block");
                    let t = self.fresh("bt");
                    tagged(
                        "blocke",
                        vec![ti32(), l(vec![vardecl(&t, ti32(), Some(self.int_expr(0))), vardecl(&self.fresh("bd"), ti32(), Some(int(1)))]), var(&t, ti32())],
                    )
                } else {
                    self.tag("expr-conversion");
                    call(ti32(), var("int32", fnty(vec![ti32()], ti32())), vec![self.int_expr(depth - 1)])
                }
            }
        }
    }

    fn bool_expr(&mut self, depth: usize) -> S {
        match self.rng.below(5) {
            0 => match self.pick_var(Ty::Bool) {
                Some(x) => var(&x, a("bool")),
                None => tagged("bool", vec![a("true")]),
            },
            1 => bin("less", a("bool"), self.int_expr(depth), self.int_expr(depth)),
            2 => bin("eq", a("bool"), self.int_expr(depth), int(self.rng.below(3) as i64)),
            3 => tagged("un", vec![a("not"), a("bool"), bin("greater", a("bool"), self.int_expr(depth), int(2))]),
            _ => bin(
                if self.rng.chance(1, 2) { "and" } else { "or" },
                a("bool"),
                bin("less", a("bool"), self.int_expr(depth), int(3)),
                bin("less", a("bool"), int(0), self.int_expr(depth)),
            ),
        }
    }

    fn expr_of(&mut self, t: Ty, depth: usize) -> S {
        match t {
            Ty::Int => self.int_expr(depth),
            Ty::Bool => self.bool_expr(depth.min(1)),
            Ty::Unit => {
                if self.rng.chance(1, 2) {
                    probe_call(&format!("p{}", self.rng.below(100)))
                } else {
                    tagged("unitv", vec![a("unit")])
                }
            }
            Ty::Arr => tagged("alit", vec![tys(Ty::Arr), self.int_expr(0), int(2), self.int_expr(0)]),
            Ty::Ptr => tagged(
                "un",
                vec![a("addr"), tys(Ty::Ptr), tagged("slit", vec![tagged("name", vec![a("Cell")]), l(vec![a("value"), self.int_expr(0)])])],
            ),
            Ty::Iface => {
                if self.rng.chance(1, 2) {
                    tagged("slit", vec![tagged("name", vec![a("Circle")]), l(vec![a("_0"), self.int_expr(0)])])
                } else {
                    tagged("slit", vec![tagged("name", vec![a("Square")])])
                }
            }
            Ty::Pair => tagged("slit", vec![tagged("name", vec![a("Pair")]), l(vec![a("_0"), self.int_expr(0)]), l(vec![a("_1"), self.int_expr(0)])]),
        }
    }

    fn any_ty(&mut self) -> Ty {
        *self.rng.pick(&[Ty::Int, Ty::Int, Ty::Int, Ty::Bool, Ty::Unit, Ty::Arr, Ty::Ptr, Ty::Iface, Ty::Pair])
    }

    fn block(&mut self, depth: usize, in_loop: bool, len: usize) -> Vec<S> {
        let base = self.scope.len();
        let mut out = Vec::new();
        for _ in 0..len {
            out.extend(self.stmt(depth, in_loop));
        }
        self.scope.truncate(base);
        out
    }

    fn stmt(&mut self, depth: usize, in_loop: bool) -> Vec<S> {
        let c = self.rng.below(if depth == 0 { 12 } else { 20 });
        match c {
            0..=3 => {
                // declaration: fresh name, or (wild) a name already in scope (shadowing)
                let t = self.any_ty();
                let name = if self.wild && !self.scope.is_empty() && self.rng.chance(1, 8) {
                    self.tag("decl-shadowing");
                    let i = self.rng.below(self.scope.len());
                    self.scope[i].0.clone()
                } else {
                    self.fresh("v")
                };
                let init = if self.rng.chance(1, 6) {
                    self.tag("decl-no-init");
                    None
                } else {
                    Some(self.expr_of(t, 2))
                };
                self.tag("decl");
                let s = vardecl(&name, tys(t), init);
                self.scope.retain(|(x, _)| *x != name);
                self.scope.push((name, t));
                vec![s]
            }
            4 | 5 => {
                // assignment to a variable in scope
                let t = self.any_ty();
                match self.pick_var(t) {
                    Some(x) => {
                        let v = if t == Ty::Int && self.wild && self.rng.chance(1, 4) {
                            self.tag("assign-self-referential");
                            bin("add", ti32(), var(&x, ti32()), int(1))
                        } else {
                            self.expr_of(t, 1)
                        };
                        self.tag("assign");
                        vec![assign(&x, v)]
                    }
                    None => vec![expr_stmt(probe_call("noassign"))],
                }
            }
            6 | 7 => match self.pick_var(Ty::Int) {
                Some(x) => {
                    self.tag("show");
                    vec![expr_stmt(show_call(var(&x, ti32())))]
                }
                None => vec![expr_stmt(probe_call("noshow"))],
            },
            8 => {
                if !self.shadow.is_empty() && self.rng.chance(1, 2) {
                    self.tag("stmt-call-shadowing-builtin");
                    let f = self.rng.pick(&self.shadow).clone();
                    vec![expr_stmt(call(ti32(), var(&f, fnty(vec![ti32()], ti32())), vec![self.int_expr(0)]))]
                } else {
                    self.tag("effect-call");
                    vec![expr_stmt(probe_call(&format!("e{}", self.rng.below(100))))]
                }
            }
            9 => match self.pick_var(Ty::Arr) {
                Some(x) => {
                    self.tag("index-assign");
                    vec![tagged("iassign", vec![var(&x, tys(Ty::Arr)), self.int_expr(0), self.int_expr(1)])]
                }
                None => vec![],
            },
            10 => match self.pick_var(Ty::Ptr) {
                Some(p) => {
                    if self.rng.chance(1, 2) {
                        self.tag("field-assign");
                        vec![tagged("fassign", vec![tagged("field", vec![a("value"), ti32(), var(&p, tys(Ty::Ptr))]), self.int_expr(1)])]
                    } else {
                        self.tag("pointer-assign");
                        vec![tagged(
                            "passign",
                            vec![var(&p, tys(Ty::Ptr)), tagged("slit", vec![tagged("name", vec![a("Cell")]), l(vec![a("value"), self.int_expr(1)])])],
                        )]
                    }
                }
                None => vec![],
            },
            11 => match self.pick_var(Ty::Pair) {
                Some(p) => {
                    self.tag("field-assign-struct");
                    vec![tagged("fassign", vec![tagged("field", vec![a("_1"), ti32(), var(&p, tys(Ty::Pair))]), self.int_expr(1)])]
                }
                None => vec![],
            },
            12 | 13 => {
                self.tag("if");
                let c = self.bool_expr(1);
                let t = { let k = 1 + self.rng.below(3); self.block(depth - 1, in_loop, k) };
                let e = if self.rng.chance(2, 3) { Some({ let k = 1 + self.rng.below(3); self.block(depth - 1, in_loop, k) }) } else { None };
                vec![ifs(c, t, e)]
            }
            14 => {
                self.tag("switch");
                let e = self.int_expr(1);
                let ncase = 1 + self.rng.below(3);
                let mut cases = Vec::new();
                for i in 0..ncase {
                    let v = if self.rng.chance(1, 4) { self.int_expr(1) } else { int(i as i64) };
                    let b = { let k = 1 + self.rng.below(2); self.block(depth - 1, in_loop, k) };
                    cases.push(l(vec![v, l(b)]));
                }
                let d = if self.rng.chance(1, 2) { l({ let k = 1 + self.rng.below(2); self.block(depth - 1, in_loop, k) }) } else { a("none") };
                vec![tagged("switch", vec![e, l(cases), d])]
            }
            15 | 16 => match self.pick_var(Ty::Iface) {
                Some(x) => {
                    self.tag("type-switch");
                    let mut cases = Vec::new();
                    let bound = self.rng.chance(3, 4);
                    for vname in ["Circle", "Square"] {
                        let base = self.scope.len();
                        let mut b = Vec::new();
                        if bound && vname == "Circle" && self.rng.chance(1, 2) {
                            self.tag("type-switch-binder-used");
                            let r = self.fresh("r");
                            b.push(vardecl(
                                &r,
                                ti32(),
                                Some(tagged("field", vec![a("_0"), ti32(), tagged("cast", vec![tagged("name", vec![a("Circle")]), var(&x, tys(Ty::Iface))])])),
                            ));
                            self.scope.push((r, Ty::Int));
                        }
                        b.extend({ let k = 1 + self.rng.below(2); self.block(depth - 1, in_loop, k) });
                        self.scope.truncate(base);
                        cases.push(l(vec![tagged("name", vec![a(vname)]), l(b)]));
                    }
                    let d = if self.rng.chance(1, 3) { l(self.block(depth - 1, in_loop, 1)) } else { a("none") };
                    vec![tagged("tswitch", vec![a(if bound { x.as_str() } else { "_" }), var(&x, tys(Ty::Iface)), l(cases), d])]
                }
                None => vec![],
            },
            17 | 18 => {
                // `for { …; *p = *p + 1 … if p.value >= k { break }; … }` — terminates by a cell counter
                self.tag("loop");
                let p = self.fresh("cnt");
                let cell = tagged("name", vec![a("Cell")]);
                let pv = || tagged("field", vec![a("value"), ti32(), var(&p, tys(Ty::Ptr))]);
                let mut out = vec![vardecl(
                    &p,
                    tys(Ty::Ptr),
                    Some(tagged("un", vec![a("addr"), tys(Ty::Ptr), tagged("slit", vec![cell.clone(), l(vec![a("value"), int(0)])])])),
                )];
                self.scope.push((p.clone(), Ty::Ptr));
                let base = self.scope.len();
                let mut body = Vec::new();
                let pre = self.rng.below(3);
                for _ in 0..pre {
                    body.extend(self.stmt(depth - 1, true));
                }
                body.push(ifs(bin("greater_eq", a("bool"), pv(), int(1 + self.rng.below(3) as i64)), vec![tagged("break", vec![])], None));
                // `*cnt = Cell{value: cnt.value + 1}`: a store through the pointer, not to the variable
                body.push(tagged(
                    "passign",
                    vec![var(&p, tys(Ty::Ptr)), tagged("slit", vec![cell.clone(), l(vec![a("value"), bin("add", ti32(), pv(), int(1))])])],
                ));
                let post = self.rng.below(3);
                for _ in 0..post {
                    body.extend(self.stmt(depth - 1, true));
                }
                if self.wild && self.rng.chance(1, 3) {
                    // loop-carried plain variable: read at the top of the next iteration, written here
                    if let Some(x) = self.vars_of(Ty::Int).into_iter().next() {
                        self.tag("loop-carried-assign");
                        body.insert(0, expr_stmt(show_call(var(&x, ti32()))));
                        body.push(assign(&x, bin("add", ti32(), pv(), int(10))));
                    }
                }
                self.scope.truncate(base);
                out.push(tagged("loop", vec![l(body)]));
                out
            }
            _ => {
                if in_loop && self.rng.chance(1, 2) {
                    self.tag("break");
                    vec![ifs(self.bool_expr(0), vec![tagged("break", vec![])], None)]
                } else {
                    self.tag("go");
                    vec![tagged("go", vec![probe_call("spawned")])]
                }
            }
        }
    }

    fn file(&mut self) -> S {
        let cell = tagged("name", vec![a("Cell")]);
        let shape_m = |recv: &str| {
            tagged("method", vec![a("_"), tagged("name", vec![a(recv)]), a("isShape"), l(vec![]), l(vec![])])
        };
        let mut items = vec![
            tagged("package", vec![a("main")]),
            tagged("import", {
                let mut sp = vec![l(vec![a("-"), a("fmt")])];
                if self.rng.chance(1, 2) {
                    self.tag("unused-import");
                    sp.push(l(vec![a("-"), a("os")]));
                }
                if self.rng.chance(1, 4) {
                    self.tag("unused-import-aliased");
                    sp.push(l(vec![a("tm"), a("time")]));
                }
                sp
            }),
            tagged("structdef", vec![a("Cell"), l(vec![l(vec![a("value"), ti32()])]), l(vec![])]),
            tagged("structdef", vec![a("Pair"), l(vec![l(vec![a("_0"), ti32()]), l(vec![a("_1"), ti32()])]), l(vec![])]),
            tagged("interface", vec![a("Shape"), l(vec![l(vec![a("isShape"), l(vec![]), a("none")])])]),
            tagged("structdef", vec![a("Circle"), l(vec![l(vec![a("_0"), ti32()])]), l(vec![shape_m("Circle")])]),
            tagged("structdef", vec![a("Square"), l(vec![]), l(vec![shape_m("Square")])]),
        ];
        let _ = cell;
        items.extend(probe_items());
        // bump(x): prints and returns x + 1 — a call with a value and an effect
        items.push(tagged(
            "func",
            vec![
                a("bump"),
                l(vec![l(vec![a("x"), ti32()])]),
                ti32(),
                l(vec![expr_stmt(probe_call("bump")), ret(Some(bin("add", ti32(), var("x", ti32()), int(1))))]),
            ],
        ));
        // effectful user functions whose names are Go builtins, conversions or runtime helpers
        for name in self.shadow.clone() {
            items.push(tagged(
                "func",
                vec![
                    a(&name),
                    l(vec![l(vec![a("x"), ti32()])]),
                    ti32(),
                    l(vec![expr_stmt(probe_call(&format!("<{}>", name))), ret(Some(bin("add", ti32(), var("x", ti32()), int(1))))]),
                ],
            ));
        }
        let nfn = 1 + self.rng.below(2);
        let mut names = Vec::new();
        for i in 0..nfn {
            let name = if i == 0 { "main0".to_string() } else { format!("helper{}", i) };
            self.scope.clear();
            let mut params = Vec::new();
            if i > 0 {
                self.scope.push(("a".to_string(), Ty::Int));
                params.push(l(vec![a("a"), ti32()]));
            }
            let rv = self.fresh("ret");
            let mut body = vec![vardecl(&rv, a("unit"), None)];
            self.scope.push((rv.clone(), Ty::Unit));
            let len = 3 + self.rng.below(6);
            body.extend(self.block(3, false, len));
            if i == 0 && nfn > 1 && self.rng.chance(2, 3) {
                body.push(expr_stmt(call(a("unit"), var("helper1", fnty(vec![ti32()], a("unit"))), vec![int(2)])));
            }
            body.push(ret(Some(var(&rv, a("unit")))));
            names.push(name.clone());
            items.push(tagged("func", vec![a(name), l(params), a("unit"), l(body)]));
        }
        items.push(tagged(
            "func",
            vec![a("main"), l(vec![]), a("none"), l(vec![expr_stmt(call(a("void"), var("main0", fnty(vec![], a("void"))), vec![]))])],
        ));
        tagged("gofile", items)
    }
}

// ------------------------------------------------------------------ driver
fn unesc_line(s: &str) -> String {
    let mut out = String::new();
    let mut it = s.chars();
    while let Some(c) = it.next() {
        if c == '\\' {
            match it.next() {
                Some('n') => out.push('\n'),
                Some('t') => out.push('\t'),
                Some('r') => out.push('\r'),
                Some(o) => out.push(o),
                None => {}
            }
        } else {
            out.push(c);
        }
    }
    out
}

fn run_real(input: &S) -> Result<S, String> {
    let Some(file) = dfile(input) else { return Err("decode".into()) };
    // the decoder is validated on every case: dump(decode(s)) must be s again
    let back = godump::gfile(&file);
    if back != *input {
        return Err("roundtrip".into());
    }
    match catch_unwind(AssertUnwindSafe(|| compiler::go::dce::eliminate_dead_vars(file))) {
        Ok(out) => Ok(godump::gfile(&out)),
        Err(p) => Err(format!("panic {}", util::panic_message(p))),
    }
}

fn emit(out: &mut String, id: &str, stream: &str, tags: &str, input: &S) {
    match run_real(input) {
        Ok(o) => writeln!(out, "{}\tCASE\t{}\t{}\t{}\t{}", id, stream, tags, input.to_text(), o.to_text()).unwrap(),
        Err(e) => writeln!(out, "{}\tFAIL\t{}\t{}\t{}\t{}", id, stream, tags, input.to_text(), crate::sexp::esc_line(&e)).unwrap(),
    }
}

pub fn main(args: &util::Args) {
    util::quiet_panics();
    let mut out = String::new();
    // `gv dce replay <file>`: lines `id<TAB>stream<TAB>input-sexp`, run through the real DCE again
    if args.rest.first().map(|s| s.as_str()) == Some("replay") {
        let text = std::fs::read_to_string(&args.rest[1]).expect("replay file");
        for line in text.lines() {
            let f: Vec<&str> = line.split('\t').collect();
            if f.len() < 3 {
                continue;
            }
            if f[1] == "SRC" {
                // recompile the recorded source with the compiler under test and re-feed its output
                let src = unesc_line(f[2]);
                let dir = util::scratch_dir("dcer");
                writeln!(out, "{}\tSRC\t{}", f[0], f[2]).unwrap();
                if let Outcome::Ok(c) = util::compile_text(&dir, &src) {
                    emit(&mut out, &format!("{}|refeed", f[0]), "refeed", "", &godump::gfile(&c.go));
                }
                let _ = std::fs::remove_dir_all(&dir);
                continue;
            }
            match parse_sexp(f[2]) {
                Some(s) => emit(&mut out, f[0], f[1], "replay", &s),
                None => writeln!(out, "{}\tFAIL\t{}\treplay\t{}\tparse", f[0], f[1], f[2]).unwrap(),
            }
        }
        let _ = std::fs::create_dir_all(&args.out);
        std::fs::write(args.out.join("dce.cases.tsv"), out).unwrap();
        return;
    }
    let thorough = args.tier == "thorough";
    let mut sources: Vec<(String, S, String)> = Vec::new();
    // corpus programs (single-file pipeline programs)
    for d in util::corpus_pipeline_dirs() {
        let path = d.join("main.gom");
        let Ok(src) = std::fs::read_to_string(&path) else { continue };
        let id = format!("repo:{}", d.file_name().unwrap().to_string_lossy());
        if let Outcome::Ok(c) = util::compile_path(&path, &src) {
            sources.push((id, godump::gfile(&c.go), src));
        }
    }
    // minimised witnesses kept under corpus/DCE, corpus/C02, corpus/C09
    // (+ the coverage witnesses `corpus/C01/cov-*.gom`: shapes no generator produced, tools/coverage_audit.py)
    for sub in ["DCE", "C02", "C09", "C01"] {
        let Ok(rd) = std::fs::read_dir(util::verif_root().join("corpus").join(sub)) else { continue };
        let mut files: Vec<_> = rd.filter_map(|e| e.ok().map(|e| e.path())).filter(|p| p.extension().is_some_and(|x| x == "gom")).filter(|p| sub != "C01" || p.file_name().is_some_and(|n| n.to_string_lossy().starts_with("cov-"))).collect();
        files.sort();
        let dir = util::scratch_dir("dcec");
        for f in files {
            let Ok(src) = std::fs::read_to_string(&f) else { continue };
            let id = format!("corpus:{}/{}", sub, f.file_name().unwrap().to_string_lossy());
            if let Outcome::Ok(c) = util::compile_text(&dir, &src) {
                // whole-pipeline oracle for the DCE witnesses: the ANF the backend starts from against the
                // Go it emits (the C02 / C09 witnesses carry their owners' known findings)
                if sub == "DCE" {
                    let impls = crate::c01::impls_table(&c.genv);
                    writeln!(out, "{}\tSTAGE\tanf\t{}", id, crate::c01::prog(crate::dump::anf_file(&c.anf), &impls).to_text()).unwrap();
                    writeln!(out, "{}\tSTAGE\tgo\t{}", id, godump::gfile(&c.go).to_text()).unwrap();
                }
                sources.push((id, godump::gfile(&c.go), src));
            }
        }
        let _ = std::fs::remove_dir_all(&dir);
    }
    // generated programs (G-prog)
    let ngen = args.n.unwrap_or(if thorough { 600 } else { 80 });
    let dir = util::scratch_dir("dce");
    for i in 0..ngen {
        let mut root = Rng::new(args.seed);
        let mut rng = root.fork(i as u64);
        let cfg = crate::progen::Cfg {
            closure_flows: false,
            traits: i % 3 != 0,
            generics: i % 2 == 0,
            go_stmt: i % 7 == 3,
            max_depth: 1 + i % 3,
            effects: true,
            wildcard_arrays: false,
            nested_patterns: i % 4 == 1,
            cov_shapes: i % 6 == 4,
            ..Default::default()
        };
        let (src, _) = crate::progen::gen_program(&mut rng, cfg);
        if let Outcome::Ok(c) = util::compile_text(&dir, &src) {
            sources.push((format!("gen:{}:{}", args.seed, i), godump::gfile(&c.go), src));
        }
    }
    let _ = std::fs::remove_dir_all(&dir);

    let nmut = if thorough { 6 } else { 2 };
    for (id, s, src) in &sources {
        writeln!(out, "{}\tSRC\t{}", id, crate::sexp::esc_line(src)).unwrap();
        emit(&mut out, &format!("{}|refeed", id), "refeed", "", s);
        for k in 0..nmut {
            let mut root = Rng::new(args.seed ^ 0x5eed_dce);
            let mut h: u64 = 1469598103934665603;
            for b in id.bytes() {
                h = (h ^ b as u64).wrapping_mul(1099511628211);
            }
            let mut rng = root.fork(h ^ (k as u64) << 40);
            let (m, tags) = mutate_file(s, &mut rng);
            emit(&mut out, &format!("{}|mut{}", id, k), "mutate", &tags, &m);
        }
    }
    // names a user function can collide with: the callee table of dce.rs (read from its source),
    // Go's predeclared functions, and the runtime helpers of a real compile
    let mut shadow_names: Vec<String> = Vec::new();
    if let Ok(text) = std::fs::read_to_string(util::repo_root().join("crates/compiler/src/go/dce.rs")) {
        if let Some(pos) = text.find("const VALUE_ONLY_CALLEES") {
            if let Some(end) = text[pos..].find("];") {
                let body = &text[pos..pos + end];
                let mut rest = &body[body.find("= [").map(|i| i + 3).unwrap_or(0)..];
                while let Some(q) = rest.find('"') {
                    let r2 = &rest[q + 1..];
                    let Some(e) = r2.find('"') else { break };
                    shadow_names.push(r2[..e].to_string());
                    rest = &r2[e + 1..];
                }
            }
        }
    }
    for n in crate::goscope::GO_PREDECLARED.iter().skip(26) {
        shadow_names.push(n.to_string());
    }
    if let Some((_, s0, _)) = sources.first() {
        if let Some(("gofile", items)) = head(s0) {
            for it in items {
                if let Some(("func", [name, ..])) = head(it) {
                    shadow_names.push(atom(name).unwrap_or("").to_string());
                }
            }
        }
    }
    shadow_names.retain(|n| !["", "main", "main0", "panic", "dce_probe", "dce_show", "bump", "dce_keep_unit"].contains(&n.as_str()) && !n.starts_with("helper"));
    shadow_names.sort();
    shadow_names.dedup();
    writeln!(out, "#SHADOW\t{}", shadow_names.join(" ")).unwrap();
    let nsynth = if thorough { 4000 } else { 500 };
    for i in 0..nsynth {
        let mut root = Rng::new(args.seed ^ 0xdce_5);
        let mut rng = root.fork(i as u64);
        let wild = i % 4 == 3;
        // every fifth file defines effectful functions named like builtins (a sample of the name table)
        let shadow: Vec<String> = if i % 5 == 4 {
            let k = 3 + rng.below(4);
            (0..k).map(|_| rng.pick(&shadow_names).clone()).collect::<std::collections::BTreeSet<_>>().into_iter().collect()
        } else {
            Vec::new()
        };
        let mut g = Synth { rng: &mut rng, k: 0, scope: Vec::new(), tags: BTreeMap::new(), wild, shadow };
        let f = g.file();
        let tags = g.tags.iter().map(|(k, v)| format!("{}={}", k, v)).collect::<Vec<_>>().join(" ");
        emit(&mut out, &format!("synth:{}:{}{}", args.seed, i, if wild { ":wild" } else { "" }), "synth", &tags, &f);
    }
    let _ = std::fs::create_dir_all(&args.out);
    std::fs::write(args.out.join("dce.cases.tsv"), out).unwrap();
}
