//! `gv c02deftypes`: the definition-only type catalogue.
//!
//! The Go back end declares helper types on demand: a `TupleN_…` struct per tuple type, a `ref_…_x` struct per
//! `Ref` type, array helpers, a `dyn__Tr` / `dyn__Tr_vtable` pair per trait object type, one Go type per
//! monomorphic instance of a generic struct / enum.  "On demand" is decided by COLLECTORS that walk the program
//! (`collect_runtime_types`, `collect_dyn_requirements` in go/compile.rs).  A collector that walks less than the
//! emitter prints yields Go that names a type it never declares.  So: every KIND of type whose Go spelling names
//! a declaration (and every nesting of one kind inside another) × every PLACE where a type can be written
//! without any function signature or body mentioning it (payload of a variant nobody builds or matches, field of
//! a struct nobody builds, argument of a generic instance, a trait method signature, an extern signature, a
//! definition in another file / another package) — one WELL-typed program per (kind, place), compiled by the
//! real pipeline; the real Go AST is dumped in the row format of `gv c01`, so that `Go.Check` judges it (every
//! named type declared exactly once) and the printed text is parsed back.  No model of the compiler is involved.
//! The shapes are those of `c13.rs::emission_definition_only_projects()` (which pins their output ORDER), one
//! member at a time, so that a failing cell names the kind and the place.
use crate::util::{self, Outcome};
use std::fmt::Write as _;

/// items every program declares (constant, so that a kind spells the same type at every place); nothing here
/// mentions a catalogue type in a function signature or body
pub const PRELUDE: &str = "struct Plain { v: int32 }\n\nenum Col { Red, Green(int32) }\n\ntrait Tr { fn m(Self) -> int32; }\n\nimpl Tr for int32 { fn m(self: int32) -> int32 { self + 1 } }\n\ntrait Tq { fn q(Self, string) -> string; }\n\ntrait Tw { fn w(Self, (int8, uint8), dyn Tq) -> Ref[bool]; }\n\nenum Opt[T] { Nothing, Just(T) }\n\nstruct Pair[A, B] { fst: A, snd: B }\n\n";

/// the extern type of the catalogue (bound to its Go package by the extern function that returns it); declared only by
/// the programs whose kind mentions it
pub const PRELUDE_EXTERN: &str = "extern type Dur\n\nextern \"go\" \"time\" \"Duration\" mk_dur(x: int32) -> Dur\n\n";

/// (kind id, class of the Go declaration its spelling needs, the type as written); the first three are controls
pub const BASE_KINDS: &[(&str, &str, &str)] = &[
    ("prim", "control", "int32"),
    ("user-struct", "control", "Plain"),
    ("user-enum", "control", "Col"),
    ("tuple", "tuple-struct", "(int32, string)"),
    ("array", "array-helpers", "[int32; 3]"),
    ("ref", "ref-struct", "Ref[int32]"),
    ("vec", "slice", "Vec[int32]"),
    ("dyn-implemented-trait", "dyn-struct", "dyn Tr"),
    ("dyn-unimplemented-trait", "dyn-struct", "dyn Tq"),
    ("dyn-trait-with-rich-signature", "dyn-struct", "dyn Tw"),
    ("function-type", "func", "(int32) -> string"),
    ("generic-enum-instance", "generic-instance", "Opt[int64]"),
    ("generic-struct-instance", "generic-instance", "Pair[int32, string]"),
    ("extern-type", "alias", "Dur"),
];

/// (wrapper id, the type with `@K@` for the wrapped kind): every kind nested inside every other
pub const WRAPPERS: &[(&str, &str)] = &[
    ("tuple-of", "(@K@, int32)"),
    ("array-of", "[@K@; 2]"),
    ("ref-of", "Ref[@K@]"),
    ("vec-of", "Vec[@K@]"),
    ("fn-param", "(@K@) -> int32"),
    ("fn-result", "(int32) -> @K@"),
    ("generic-enum-arg", "Opt[@K@]"),
    ("generic-struct-arg", "Pair[bool, @K@]"),
    ("deep-vec-ref-tuple", "Vec[Ref[(@K@, bool)]]"),
    ("deep-instance-of-vec", "Opt[Vec[@K@]]"),
    ("deep-fn-to-tuple-of-array", "(int32) -> (@K@, [@K@; 2])"),
];

/// (place id, files of the project with `@T@` for the type and `@PRE@` for the prelude; the first file is the
/// entry `main.gom`).  Every program prints `ok`.  `mentioned-by-a-function` is the control place.
pub const PLACES: &[(&str, &[(&str, &str)])] = &[
    ("variant-payload", &[("main.gom", "@PRE@enum Slot { Empty, Full(@T@) }\n\nfn empty() -> Slot { Slot::Empty }\n\nfn main() -> unit {\n    let s = empty();\n    let _ = s;\n    string_println(\"ok\")\n}\n")]),
    ("variant-payload-declared-first", &[("main.gom", "@PRE@enum Slot { Full(bool, @T@), Empty }\n\nfn main() -> unit {\n    let s = Slot::Empty;\n    let f = || s;\n    let _ = f();\n    string_println(\"ok\")\n}\n")]),
    ("unbuilt-struct-field", &[("main.gom", "@PRE@struct Holder { tag: int32, f: @T@ }\n\nfn main() -> unit {\n    string_println(\"ok\")\n}\n")]),
    ("struct-behind-unused-variant", &[("main.gom", "@PRE@struct Holder { tag: int32, f: @T@ }\n\nenum Slot { Full(Holder), Empty }\n\nfn empty() -> Slot { Slot::Empty }\n\nfn main() -> unit {\n    let s = empty();\n    let _ = s;\n    string_println(\"ok\")\n}\n")]),
    ("struct-passed-never-built", &[("main.gom", "@PRE@struct Holder { tag: int32, f: @T@ }\n\nfn tag_of(h: Holder) -> int32 { h.tag }\n\nfn main() -> unit {\n    string_println(\"ok\")\n}\n")]),
    ("generic-enum-instance-argument", &[("main.gom", "@PRE@enum Maybe[T] { Nope, Yes(T) }\n\nstruct Slots { p: Maybe[@T@] }\n\nfn empty() -> Slots { Slots { p: Maybe::Nope } }\n\nfn main() -> unit {\n    let s = empty();\n    let _ = s;\n    string_println(\"ok\")\n}\n")]),
    ("generic-instance-by-annotation", &[("main.gom", "@PRE@enum Maybe[T] { Nope, Yes(T) }\n\nfn keep[B](x: B) -> int32 { 1 }\n\nfn main() -> unit {\n    let l: Maybe[@T@] = Maybe::Nope;\n    let _ = keep(l);\n    string_println(\"ok\")\n}\n")]),
    ("generic-struct-instance-field", &[("main.gom", "@PRE@enum Maybe[T] { Nope, Yes(T) }\n\nstruct Cell[T] { tag: int32, slot: Maybe[T] }\n\nfn fresh[T](tag: int32) -> Cell[T] { Cell { tag: tag, slot: Maybe::Nope } }\n\nfn main() -> unit {\n    let c: Cell[@T@] = fresh(1);\n    let _ = c.tag;\n    string_println(\"ok\")\n}\n")]),
    ("generic-two-parameters", &[("main.gom", "@PRE@enum Either[A, B] { L(A), Neither, R(B) }\n\nfn main() -> unit {\n    let e: Either[int32, @T@] = Either::Neither;\n    let f = || e;\n    let _ = f();\n    string_println(\"ok\")\n}\n")]),
    ("fixed-field-of-generic-instance", &[("main.gom", "@PRE@struct Boxed[T] { v: T, extra: @T@ }\n\nfn size_of(b: Boxed[int32]) -> int32 { 1 }\n\nfn main() -> unit {\n    string_println(\"ok\")\n}\n")]),
    ("trait-method-parameter", &[("main.gom", "@PRE@trait Carrier { fn carry(Self, @T@) -> int32; }\n\nfn probe(c: dyn Carrier) -> int32 { 1 }\n\nfn main() -> unit {\n    string_println(\"ok\")\n}\n")]),
    ("trait-method-result", &[("main.gom", "@PRE@trait Carrier { fn give(Self) -> @T@; }\n\nfn probe(c: dyn Carrier) -> int32 { 1 }\n\nfn main() -> unit {\n    string_println(\"ok\")\n}\n")]),
    ("trait-method-behind-variant", &[("main.gom", "@PRE@trait Carrier { fn carry(Self, @T@) -> int32; }\n\nenum Slot { Empty, Full(dyn Carrier) }\n\nfn empty() -> Slot { Slot::Empty }\n\nfn main() -> unit {\n    let s = empty();\n    let _ = s;\n    string_println(\"ok\")\n}\n")]),
    ("extern-signature", &[("main.gom", "@PRE@extern \"go\" \"fmt\" \"Sprint\" shout(x: @T@) -> string\n\nfn main() -> unit {\n    string_println(\"ok\")\n}\n")]),
    ("second-file", &[("main.gom", "package Main\n\nfn main() -> unit {\n    let s = empty();\n    let _ = s;\n    string_println(\"ok\")\n}\n"), ("two.gom", "package Main\n\n@PRE@enum Slot { Empty, Full(@T@) }\n\nfn empty() -> Slot { Slot::Empty }\n")]),
    ("other-package-variant", &[("main.gom", "package Main\nimport Lib\n\nfn main() -> unit {\n    let s = Lib::empty();\n    let _ = s;\n    string_println(\"ok\")\n}\n"), ("Lib/lib.gom", "package Lib\n\n@PRE@enum Slot { Empty, Full(@T@) }\n\nfn empty() -> Slot { Slot::Empty }\n")]),
    ("other-package-unbuilt-struct", &[("main.gom", "package Main\nimport Lib\n\nfn main() -> unit {\n    let _ = Lib::ping();\n    string_println(\"ok\")\n}\n"), ("Lib/lib.gom", "package Lib\n\n@PRE@struct Holder { tag: int32, f: @T@ }\n\nfn ping() -> int32 { 1 }\n")]),
    ("mentioned-by-a-function", &[("main.gom", "@PRE@enum Slot { Empty, Full(@T@) }\n\nfn see(s: Slot) -> int32 {\n    match s {\n        Slot::Empty => 0,\n        Slot::Full(x) => {\n            let _ = x;\n            1\n        }\n    }\n}\n\nfn main() -> unit {\n    let _ = see(Slot::Empty);\n    string_println(\"ok\")\n}\n")]),
];

pub struct Case {
    pub id: String,
    pub kind: String,
    pub class: &'static str,
    pub place: &'static str,
    pub ty: String,
    pub files: Vec<(String, String)>,
}

/// every (kind, place) cell; `thorough`: all of them, otherwise every base kind at every place and every nested
/// kind at three places chosen by the seed (all places are visited over `PLACES.len() / 3` consecutive seeds)
pub fn catalogue(seed: u64, thorough: bool) -> Vec<Case> {
    let mut kinds: Vec<(String, &'static str, String, bool)> = BASE_KINDS.iter().map(|(k, c, t)| (k.to_string(), *c, t.to_string(), true)).collect();
    for (wi, (w, tpl)) in WRAPPERS.iter().enumerate() {
        for (bi, (k, c, t)) in BASE_KINDS.iter().enumerate() {
            if *c == "control" && (wi + bi) % 3 != 0 {
                continue;
            }
            kinds.push((format!("{}:{}", w, k), *c, tpl.replace("@K@", t), false));
        }
    }
    let mut v = Vec::new();
    for (ki, (kind, class, ty, base)) in kinds.iter().enumerate() {
        let pre = if ty.contains("Dur") { format!("{}{}", PRELUDE, PRELUDE_EXTERN) } else { PRELUDE.to_string() };
        for (pi, (place, files)) in PLACES.iter().enumerate() {
            let pick = (pi + ki * 5 + (seed as usize) * 3) % PLACES.len() < 3;
            if !(thorough || *base || pick) {
                continue;
            }
            v.push(Case {
                id: format!("deftype:{}:{}", kind, place),
                kind: kind.clone(),
                class,
                place,
                ty: ty.clone(),
                files: files.iter().map(|(rel, text)| (rel.to_string(), text.replace("@PRE@", &pre).replace("@T@", ty))).collect(),
            });
        }
    }
    v
}

fn emit(case: &Case, outcome: Outcome, all_src: &str, out: &mut String) {
    let id = &case.id;
    let _ = writeln!(out, "{}\tDEFTYPE\t{}\t{}\t{}\t{}", id, case.kind, case.class, case.place, case.ty);
    match outcome {
        Outcome::Ok(c) => {
            let _ = writeln!(out, "{}\tEXPECT\tout\t{}", id, crate::sexp::esc_line("ok\n"));
            let _ = writeln!(out, "{}\tSRC\t{}", id, crate::sexp::esc_line(all_src));
            // the Go AST `Go.Check` judges, and the printer tie (what the user's `go build` reads is the printed text)
            let _ = writeln!(out, "{}\tSTAGE\tgo\t{}", id, crate::godump::gfile(&c.go).to_text());
            let text = c.go.to_pretty(&c.goenv, 120);
            let erased = crate::goparse::erase_file(&c.go);
            let verdict = match crate::goparse::parse_go(&text) {
                Ok(parsed) if parsed == erased => "ok".to_string(),
                Ok(parsed) => format!("diff\t{}", crate::sexp::esc_line(&format!("{:?}", crate::goparse::first_diff(&erased, &parsed, &mut Vec::new())))),
                Err(e) => format!("parse-error\t{}", crate::sexp::esc_line(&e)),
            };
            let _ = writeln!(out, "{}\tPPRINT\t{}", id, verdict);
        }
        Outcome::Err(stage, msgs) => {
            let _ = writeln!(out, "{}\tREJECT\t{}\t{}\t{}", id, stage, crate::sexp::esc_line(&msgs.join(" | ")), crate::sexp::esc_line(all_src));
        }
        Outcome::Panic(m) => {
            let _ = writeln!(out, "{}\tPANIC\t{}\t{}", id, crate::sexp::esc_line(&m), crate::sexp::esc_line(all_src));
        }
    }
}

pub fn main(args: &util::Args) {
    util::quiet_panics();
    let _ = std::fs::create_dir_all(&args.out);
    let only: Option<&String> = args.rest.iter().position(|x| x == "--only").and_then(|i| args.rest.get(i + 1));
    let base = util::scratch_dir("c02deftypes");
    let mut out = String::new();
    let cases = catalogue(args.seed, args.tier == "thorough");
    let mut n = 0usize;
    for case in &cases {
        if only.is_some_and(|o| !case.id.contains(o.as_str())) {
            continue;
        }
        let root = base.join("p");
        let entry = crate::namecat::write_project(&root, &case.files);
        let all: String = if case.files.len() == 1 {
            case.files[0].1.clone()
        } else {
            case.files.iter().map(|(r, t)| format!("//// file: {}\n{}", r, t)).collect::<Vec<_>>().join("")
        };
        emit(case, util::compile_path(&entry, &case.files[0].1), &all, &mut out);
        n += 1;
    }
    let _ = std::fs::remove_dir_all(&base);
    let n_kinds = cases.iter().map(|c| c.kind.as_str()).collect::<std::collections::BTreeSet<_>>().len();
    let _ = writeln!(out, "#FEATS\tdefinition-only type catalogue: {} kinds ({} base x {} nestings) x {} places, {} programs this run", n_kinds, BASE_KINDS.len(), WRAPPERS.len(), PLACES.len(), n);
    std::fs::write(args.out.join("c02deftypes.cases.tsv"), out).unwrap();
    println!("c02deftypes: {} programs, {} kinds, {} places", n, n_kinds, PLACES.len());
}
