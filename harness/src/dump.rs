//! S-expression serialisers for the IRs (one unified expression language on the Lean side).
use crate::sexp::{S, a, l, n, tagged};
use compiler::common::{Constructor, Prim};
use compiler::tast::{ClosureParam, Ty};
use compiler::{anf, core, lift, mono};

pub fn ty(t: &Ty) -> S {
    match t {
        Ty::TVar(v) => tagged("tvar", vec![n(format!("{:?}", v).chars().filter(|c| c.is_ascii_digit()).collect::<String>())]),
        Ty::TUnit => a("unit"),
        Ty::TBool => a("bool"),
        Ty::TInt8 => a("i8"),
        Ty::TInt16 => a("i16"),
        Ty::TInt32 => a("i32"),
        Ty::TInt64 => a("i64"),
        Ty::TUint8 => a("u8"),
        Ty::TUint16 => a("u16"),
        Ty::TUint32 => a("u32"),
        Ty::TUint64 => a("u64"),
        Ty::TFloat32 => a("f32"),
        Ty::TFloat64 => a("f64"),
        Ty::TString => a("string"),
        Ty::TTuple { typs } => tagged("tuple", typs.iter().map(ty).collect()),
        Ty::TEnum { name } => tagged("enum", vec![a(name)]),
        Ty::TStruct { name } => tagged("struct", vec![a(name)]),
        Ty::TDyn { trait_name } => tagged("dyn", vec![a(trait_name)]),
        Ty::TApp { ty: t, args } => {
            let mut v = vec![ty(t)];
            v.extend(args.iter().map(ty));
            tagged("app", v)
        }
        Ty::TArray { len, elem } => tagged("array", vec![n(len), ty(elem)]),
        Ty::TVec { elem } => tagged("vec", vec![ty(elem)]),
        Ty::TRef { elem } => tagged("ref", vec![ty(elem)]),
        Ty::TParam { name } => tagged("param", vec![a(name)]),
        Ty::TFunc { params, ret_ty } => tagged("fn", vec![l(params.iter().map(ty).collect()), ty(ret_ty)]),
    }
}

pub fn prim(p: &Prim) -> S {
    match p {
        Prim::Unit { .. } => tagged("unit", vec![]),
        Prim::Bool { value } => tagged("bool", vec![a(if *value { "true" } else { "false" })]),
        Prim::Int8 { value } => tagged("int", vec![a("i8"), n(value)]),
        Prim::Int16 { value } => tagged("int", vec![a("i16"), n(value)]),
        Prim::Int32 { value } => tagged("int", vec![a("i32"), n(value)]),
        Prim::Int64 { value } => tagged("int", vec![a("i64"), n(value)]),
        Prim::UInt8 { value } => tagged("int", vec![a("u8"), n(value)]),
        Prim::UInt16 { value } => tagged("int", vec![a("u16"), n(value)]),
        Prim::UInt32 { value } => tagged("int", vec![a("u32"), n(value)]),
        Prim::UInt64 { value } => tagged("int", vec![a("u64"), n(value)]),
        Prim::Float32 { value } => tagged("float", vec![a("f32"), n((*value as f64).to_bits())]),
        Prim::Float64 { value } => tagged("float", vec![a("f64"), n(value.to_bits())]),
        Prim::String { value } => tagged("str", vec![S::A(value.clone())]),
    }
}

pub fn ctor(c: &Constructor) -> S {
    match c {
        Constructor::Enum(e) => tagged("ce", vec![a(&e.type_name.0), a(&e.variant.0), n(e.index)]),
        Constructor::Struct(s) => tagged("cs", vec![a(&s.type_name.0)]),
    }
}

fn cparams(ps: &[ClosureParam]) -> S {
    l(ps.iter().map(|p| l(vec![a(&p.name), ty(&p.ty)])).collect())
}

fn bop(op: common_defs::BinaryOp) -> S {
    a(op.method_name())
}
fn uop(op: common_defs::UnaryOp) -> S {
    a(op.method_name())
}

macro_rules! dump_expr {
    ($fname:ident, $E:ident, $modname:ident, [$($extra:tt)*]) => {
        pub fn $fname(e: &$modname::$E) -> S {
            use $modname::$E as E;
            match e {
                E::EVar { name, ty: t } => tagged("var", vec![a(name), ty(t)]),
                E::EPrim { value, .. } => tagged("prim", vec![prim(value)]),
                E::EConstr { constructor, args, ty: t } => {
                    let mut v = vec![ctor(constructor), ty(t)];
                    v.extend(args.iter().map($fname));
                    tagged("constr", v)
                }
                E::ETuple { items, ty: t } => {
                    let mut v = vec![ty(t)];
                    v.extend(items.iter().map($fname));
                    tagged("tuple", v)
                }
                E::EArray { items, ty: t } => {
                    let mut v = vec![ty(t)];
                    v.extend(items.iter().map($fname));
                    tagged("array", v)
                }
                E::ELet { name, value, body, .. } => tagged("let", vec![a(name), $fname(value), $fname(body)]),
                E::EMatch { expr, arms, default, ty: t } => tagged(
                    "match",
                    vec![
                        ty(t),
                        $fname(expr),
                        tagged("arms", arms.iter().map(|arm| tagged("arm", vec![$fname(&arm.lhs), $fname(&arm.body)])).collect()),
                        match default {
                            Some(d) => $fname(d),
                            None => a("none"),
                        },
                    ],
                ),
                E::EIf { cond, then_branch, else_branch, .. } => {
                    tagged("if", vec![$fname(cond), $fname(then_branch), $fname(else_branch)])
                }
                E::EWhile { cond, body, .. } => tagged("while", vec![$fname(cond), $fname(body)]),
                E::EGo { expr, .. } => tagged("go", vec![$fname(expr)]),
                E::EConstrGet { expr, constructor, field_index, ty: t } => {
                    tagged("cget", vec![ctor(constructor), n(field_index), ty(t), $fname(expr)])
                }
                E::EUnary { op, expr, ty: t } => tagged("un", vec![uop(*op), ty(t), $fname(expr)]),
                E::EBinary { op, lhs, rhs, ty: t } => tagged("bin", vec![bop(*op), ty(t), $fname(lhs), $fname(rhs)]),
                E::ECall { func, args, ty: t } => {
                    let mut v = vec![ty(t), $fname(func)];
                    v.extend(args.iter().map($fname));
                    tagged("call", v)
                }
                E::EToDyn { trait_name, for_ty, expr, ty: t } => {
                    tagged("todyn", vec![a(&trait_name.0), ty(for_ty), ty(t), $fname(expr)])
                }
                E::EDynCall { trait_name, method_name, receiver, args, ty: t } => {
                    let mut v = vec![a(&trait_name.0), a(&method_name.0), ty(t), $fname(receiver)];
                    v.extend(args.iter().map($fname));
                    tagged("dyncall", v)
                }
                E::EProj { tuple, index, ty: t } => tagged("proj", vec![n(index), ty(t), $fname(tuple)]),
                $($extra)*
            }
        }
    };
}

dump_expr!(core_expr, Expr, core, [
    E::EClosure { params, body, ty: t } => tagged("closure", vec![ty(t), cparams(params), core_expr(body)]),
    E::ETraitCall { trait_name, method_name, receiver, args, ty: t } => {
        let mut v = vec![a(&trait_name.0), a(&method_name.0), ty(t), core_expr(receiver)];
        v.extend(args.iter().map(core_expr));
        tagged("traitcall", v)
    }
]);
dump_expr!(mono_expr, MonoExpr, mono, [
    E::EClosure { params, body, ty: t } => tagged("closure", vec![ty(t), cparams(params), mono_expr(body)]),
]);
dump_expr!(lift_expr, LiftExpr, lift, []);

fn params(ps: &[(String, Ty)]) -> S {
    l(ps.iter().map(|(p, t)| l(vec![a(p), ty(t)])).collect())
}

pub fn core_file(f: &core::File) -> S {
    tagged(
        "file",
        f.toplevels
            .iter()
            .map(|f| tagged("fn", vec![a(&f.name), l(f.generics.iter().map(a).collect()), params(&f.params), ty(&f.ret_ty), core_expr(&f.body)]))
            .collect(),
    )
}
pub fn mono_file(f: &mono::MonoFile) -> S {
    tagged(
        "file",
        f.toplevels
            .iter()
            .map(|f| tagged("fn", vec![a(&f.name), l(vec![]), params(&f.params), ty(&f.ret_ty), mono_expr(&f.body)]))
            .collect(),
    )
}
pub fn lift_file(f: &lift::LiftFile) -> S {
    tagged(
        "file",
        f.toplevels
            .iter()
            .map(|f| tagged("fn", vec![a(&f.name), l(vec![]), params(&f.params), ty(&f.ret_ty), lift_expr(&f.body)]))
            .collect(),
    )
}

// ---------------------------------------------------------------- ANF

pub fn imm(i: &anf::ImmExpr) -> S {
    match i {
        anf::ImmExpr::ImmVar { name, ty: t } => tagged("var", vec![a(name), ty(t)]),
        anf::ImmExpr::ImmPrim { value, .. } => tagged("prim", vec![prim(value)]),
        anf::ImmExpr::ImmTag { index, ty: t } => tagged("tag", vec![n(index), ty(t)]),
    }
}

pub fn cexpr(c: &anf::CExpr) -> S {
    use anf::CExpr as C;
    match c {
        C::CImm { imm: i } => imm(i),
        C::EConstr { constructor, args, ty: t } => {
            let mut v = vec![ctor(constructor), ty(t)];
            v.extend(args.iter().map(imm));
            tagged("constr", v)
        }
        C::ETuple { items, ty: t } => {
            let mut v = vec![ty(t)];
            v.extend(items.iter().map(imm));
            tagged("tuple", v)
        }
        C::EArray { items, ty: t } => {
            let mut v = vec![ty(t)];
            v.extend(items.iter().map(imm));
            tagged("array", v)
        }
        C::EMatch { expr, arms, default, ty: t } => tagged(
            "match",
            vec![
                ty(t),
                imm(expr),
                tagged("arms", arms.iter().map(|arm| tagged("arm", vec![imm(&arm.lhs), aexpr(&arm.body)])).collect()),
                match default {
                    Some(d) => aexpr(d),
                    None => a("none"),
                },
            ],
        ),
        C::EIf { cond, then, else_, .. } => tagged("if", vec![imm(cond), aexpr(then), aexpr(else_)]),
        C::EWhile { cond, body, .. } => tagged("while", vec![aexpr(cond), aexpr(body)]),
        C::EConstrGet { expr, constructor, field_index, ty: t } => {
            tagged("cget", vec![ctor(constructor), n(field_index), ty(t), imm(expr)])
        }
        C::EUnary { op, expr, ty: t } => tagged("un", vec![uop(*op), ty(t), imm(expr)]),
        C::EBinary { op, lhs, rhs, ty: t } => tagged("bin", vec![bop(*op), ty(t), imm(lhs), imm(rhs)]),
        C::ECall { func, args, ty: t } => {
            let mut v = vec![ty(t), imm(func)];
            v.extend(args.iter().map(imm));
            tagged("call", v)
        }
        C::EToDyn { trait_name, for_ty, expr, ty: t } => tagged("todyn", vec![a(&trait_name.0), ty(for_ty), ty(t), imm(expr)]),
        C::EDynCall { trait_name, method_name, receiver, args, ty: t } => {
            let mut v = vec![a(&trait_name.0), a(&method_name.0), ty(t), imm(receiver)];
            v.extend(args.iter().map(imm));
            tagged("dyncall", v)
        }
        C::EGo { closure, .. } => tagged("go", vec![imm(closure)]),
        C::EProj { tuple, index, ty: t } => tagged("proj", vec![n(index), ty(t), imm(tuple)]),
    }
}

pub fn aexpr(e: &anf::AExpr) -> S {
    match e {
        anf::AExpr::ACExpr { expr } => cexpr(expr),
        anf::AExpr::ALet { name, value, body, .. } => tagged("let", vec![a(name), cexpr(value), aexpr(body)]),
    }
}

pub fn anf_file(f: &anf::File) -> S {
    tagged(
        "file",
        f.toplevels
            .iter()
            .map(|f| tagged("fn", vec![a(&f.name), l(vec![]), params(&f.params), ty(&f.ret_ty), aexpr(&f.body)]))
            .collect(),
    )
}
