//! gocomp — the Go back end `go/compile.rs` (ANF → Go AST).
//! For every accepted corpus / generated program: the REAL annotated ANF file (every `ty` field,
//! which the shared dump omits), the parts of the REAL `GlobalGoEnv` the back end reads, the REAL
//! output of `go::compile::go_file` run on that ANF with a fresh `Gensym` (counter 0), and the
//! pipeline's own Go AST (same function, counter where the pipeline left it).  `gomlmodel gocomp`
//! runs `Model/GoCompile.lean` + `Model/Dce.lean` on the same input and compares item by item.
//! Also the stage dumps `anf` / `go` for the behavioural oracle (`Sem` vs `Go.Sem`).
use crate::c01;
use crate::dump;
use crate::godump;
use crate::sexp::{S, a, l, n, tagged};
use crate::util::{self, Outcome};
use compiler::anf;
use compiler::env::{EnumDef, Gensym, InherentImplKey, StructDef};
use compiler::go::goast;
use compiler::pipeline::pipeline::Compilation;
use compiler::tast::Ty;
use std::fmt::Write as _;
use std::panic::{AssertUnwindSafe, catch_unwind};

// ---------------------------------------------------------------- annotated ANF

fn imm(i: &anf::ImmExpr) -> S {
    match i {
        anf::ImmExpr::ImmVar { name, ty } => tagged("var", vec![a(name), dump::ty(ty)]),
        anf::ImmExpr::ImmPrim { value, ty } => tagged("prim", vec![dump::prim(value), dump::ty(ty)]),
        anf::ImmExpr::ImmTag { index, ty } => tagged("tag", vec![n(index), dump::ty(ty)]),
    }
}

fn imms(v: &mut Vec<S>, is: &[anf::ImmExpr]) {
    v.extend(is.iter().map(imm));
}

fn cexpr(c: &anf::CExpr) -> S {
    use anf::CExpr as C;
    match c {
        C::CImm { imm: i } => tagged("imm", vec![imm(i)]),
        C::EConstr { constructor, args, ty } => {
            let mut v = vec![dump::ctor(constructor), dump::ty(ty)];
            imms(&mut v, args);
            tagged("constr", v)
        }
        C::ETuple { items, ty } => {
            let mut v = vec![dump::ty(ty)];
            imms(&mut v, items);
            tagged("tuple", v)
        }
        C::EArray { items, ty } => {
            let mut v = vec![dump::ty(ty)];
            imms(&mut v, items);
            tagged("array", v)
        }
        C::EMatch { expr, arms, default, ty } => tagged(
            "match",
            vec![
                dump::ty(ty),
                imm(expr),
                tagged("arms", arms.iter().map(|arm| tagged("arm", vec![imm(&arm.lhs), aexpr(&arm.body)])).collect()),
                match default {
                    Some(d) => aexpr(d),
                    None => a("none"),
                },
            ],
        ),
        C::EIf { cond, then, else_, ty } => tagged("if", vec![dump::ty(ty), imm(cond), aexpr(then), aexpr(else_)]),
        C::EWhile { cond, body, ty } => tagged("while", vec![dump::ty(ty), aexpr(cond), aexpr(body)]),
        C::EConstrGet { expr, constructor, field_index, ty } => {
            tagged("cget", vec![dump::ctor(constructor), n(field_index), dump::ty(ty), imm(expr)])
        }
        C::EUnary { op, expr, ty } => tagged("un", vec![a(op.method_name()), dump::ty(ty), imm(expr)]),
        C::EBinary { op, lhs, rhs, ty } => tagged("bin", vec![a(op.method_name()), dump::ty(ty), imm(lhs), imm(rhs)]),
        C::ECall { func, args, ty } => {
            let mut v = vec![dump::ty(ty), imm(func)];
            imms(&mut v, args);
            tagged("call", v)
        }
        C::EToDyn { trait_name, for_ty, expr, ty } => tagged("todyn", vec![a(&trait_name.0), dump::ty(for_ty), dump::ty(ty), imm(expr)]),
        C::EDynCall { trait_name, method_name, receiver, args, ty } => {
            let mut v = vec![a(&trait_name.0), a(&method_name.0), dump::ty(ty), imm(receiver)];
            imms(&mut v, args);
            tagged("dyncall", v)
        }
        C::EGo { closure, ty } => tagged("go", vec![dump::ty(ty), imm(closure)]),
        C::EProj { tuple, index, ty } => tagged("proj", vec![n(index), dump::ty(ty), imm(tuple)]),
    }
}

fn aexpr(e: &anf::AExpr) -> S {
    match e {
        anf::AExpr::ACExpr { expr } => tagged("ret", vec![cexpr(expr)]),
        anf::AExpr::ALet { name, value, body, ty } => tagged("let", vec![a(name), dump::ty(ty), cexpr(value), aexpr(body)]),
    }
}

pub fn anf_annot(f: &anf::File) -> S {
    tagged(
        "afile",
        f.toplevels
            .iter()
            .map(|f| {
                tagged(
                    "fn",
                    vec![a(&f.name), l(f.params.iter().map(|(p, t)| l(vec![a(p), dump::ty(t)])).collect()), dump::ty(&f.ret_ty), aexpr(&f.body)],
                )
            })
            .collect(),
    )
}

// ---------------------------------------------------------------- environment

fn struct_def(d: &StructDef) -> S {
    tagged("struct", vec![a(&d.name.0), l(d.generics.iter().map(|g| a(&g.0)).collect()), l(d.fields.iter().map(|(f, t)| l(vec![a(&f.0), dump::ty(t)])).collect())])
}
fn enum_def(d: &EnumDef) -> S {
    tagged(
        "enum",
        vec![
            a(&d.name.0),
            l(d.generics.iter().map(|g| a(&g.0)).collect()),
            l(d.variants.iter().map(|(v, ts)| l(vec![a(&v.0), l(ts.iter().map(dump::ty).collect())])).collect()),
        ],
    )
}

/// what `go/compile.rs` reads of `GlobalGoEnv` (= `GlobalGoEnv::from_anf_env(anfenv)`)
pub fn env_dump(c: &Compilation) -> S {
    let goenv = compiler::go::compile::GlobalGoEnv::from_anf_env(c.anfenv.clone());
    let structs: Vec<S> = goenv.structs().map(|(_, d)| struct_def(d)).collect();
    // `get_struct`: lifted_structs, then mono_structs, then genv.structs — first hit wins
    let le = &goenv.liftenv;
    let mut lookup: Vec<S> = le.lifted_structs.values().map(struct_def).collect();
    lookup.extend(le.monoenv.mono_structs.values().map(struct_def));
    lookup.extend(le.monoenv.genv.structs().values().map(struct_def));
    let enums: Vec<S> = goenv.enums().map(|(_, d)| enum_def(d)).collect();
    let traits: Vec<S> = goenv
        .genv
        .trait_env
        .trait_defs
        .iter()
        .map(|(name, def)| {
            let mut v = vec![a(name)];
            v.extend(def.methods.iter().map(|(m, sch)| l(vec![a(m), dump::ty(&sch.ty)])));
            l(v)
        })
        .collect();
    let extern_fns: Vec<S> =
        goenv.genv.value_env.extern_funcs.iter().map(|(name, f)| l(vec![a(name), S::A(f.package_path.clone()), S::A(f.go_name.clone())])).collect();
    let extern_tys: Vec<S> = goenv
        .genv
        .type_env
        .extern_types
        .iter()
        .map(|(name, t)| {
            l(vec![
                a(name),
                S::A(t.go_name.clone()),
                match &t.package_path {
                    Some(p) => l(vec![S::A(p.clone())]),
                    None => a("none"),
                },
            ])
        })
        .collect();
    let mut apply = Vec::new();
    for (k, def) in goenv.liftenv.inherent_impls() {
        if let InherentImplKey::Exact(Ty::TStruct { name }) = k {
            apply.push(l(vec![
                a(name),
                match def.methods.get("apply") {
                    Some(s) => l(vec![dump::ty(&s.ty)]),
                    None => a("none"),
                },
            ]));
        }
    }
    tagged(
        "env",
        vec![
            tagged("structs", structs),
            tagged("lookup", lookup),
            tagged("enums", enums),
            tagged("traits", traits),
            tagged("externfns", extern_fns),
            tagged("externtys", extern_tys),
            tagged("apply", apply),
        ],
    )
}

// ---------------------------------------------------------------- cases

/// number of the `ret<N>` temporary of `main0` (first statement of its body)
fn main0_ret(f: &goast::File) -> Option<usize> {
    for it in &f.toplevels {
        if let goast::Item::Fn(g) = it {
            if g.name == "main0" {
                if let Some(goast::Stmt::VarDecl { name, .. }) = g.body.stmts.first() {
                    return name.strip_prefix("ret").and_then(|d| d.parse::<usize>().ok());
                }
            }
        }
    }
    None
}

fn one(id: &str, oc: Outcome, src: &str, out: &mut String, stats: &mut (usize, usize, usize)) {
    match oc {
        Outcome::Ok(c) => {
            stats.0 += 1;
            writeln!(out, "{}\tSRC\t{}", id, crate::sexp::esc_line(src)).unwrap();
            let impls = c01::impls_table(&c.genv);
            writeln!(out, "{}\tSTAGE\tanf\t{}", id, c01::prog(dump::anf_file(&c.anf), &impls).to_text()).unwrap();
            writeln!(out, "{}\tSTAGE\tgo\t{}", id, godump::gfile(&c.go).to_text()).unwrap();
            // the real back end on the real ANF, fresh counter
            let fresh = catch_unwind(AssertUnwindSafe(|| compiler::go::compile::go_file(c.anfenv.clone(), &Gensym::new(), c.anf.clone()).0));
            match fresh {
                Ok(g) => {
                    let off = match (main0_ret(&c.go), main0_ret(&g)) {
                        (Some(p), Some(f)) if p >= f => (p - f).to_string(),
                        _ => "-".to_string(),
                    };
                    writeln!(
                        out,
                        "{}\tCASE\t{}\t{}\t{}\t{}\t{}\t{}",
                        id,
                        off,
                        env_dump(&c).to_text(),
                        anf_annot(&c.anf).to_text(),
                        godump::gfile(&g).to_text(),
                        godump::gfile(&c.go).to_text(),
                        impls.to_text()
                    )
                    .unwrap();
                }
                Err(p) => {
                    stats.2 += 1;
                    writeln!(out, "{}\tFAIL\tgo_file-panic\t{}", id, crate::sexp::esc_line(&util::panic_message(p))).unwrap()
                }
            }
        }
        Outcome::Err(stage, msgs) => {
            stats.1 += 1;
            writeln!(out, "{}\tREJECT\t{}\t{}", id, stage, crate::sexp::esc_line(&msgs.join(" | "))).unwrap()
        }
        Outcome::Panic(m) => {
            stats.1 += 1;
            writeln!(out, "{}\tPANIC\t{}\t{}", id, crate::sexp::esc_line(&m), crate::sexp::esc_line(src)).unwrap()
        }
    }
}

pub fn main(args: &util::Args) {
    util::quiet_panics();
    let mut out = String::new();
    let mut stats = (0usize, 0usize, 0usize);
    let thorough = args.tier == "thorough";
    if let Some(pos) = args.rest.iter().position(|x| x == "--file") {
        let f = std::path::PathBuf::from(&args.rest[pos + 1]);
        let src = std::fs::read_to_string(&f).expect("read");
        let dir = util::scratch_dir("gocompf");
        one("replay", util::compile_text(&dir, &src), &src, &mut out, &mut stats);
        let _ = std::fs::remove_dir_all(&dir);
        let _ = std::fs::create_dir_all(&args.out);
        std::fs::write(args.out.join("gocomp.cases.tsv"), out).unwrap();
        return;
    }
    // ---- the repository's corpus (single-file programs, then the package projects)
    for d in util::corpus_pipeline_dirs() {
        let path = d.join("main.gom");
        let Ok(src) = std::fs::read_to_string(&path) else { continue };
        let id = format!("repo:{}", d.file_name().unwrap().to_string_lossy());
        one(&id, util::compile_path(&path, &src), &src, &mut out, &mut stats);
    }
    {
        let pk = util::repo_root().join("crates/compiler/src/tests/package");
        let mut dirs: Vec<_> = std::fs::read_dir(&pk)
            .map(|rd| rd.filter_map(|e| e.ok().map(|e| e.path())).filter(|p| p.join("main.gom").exists()).collect())
            .unwrap_or_default();
        dirs.sort();
        for d in dirs {
            let path = d.join("main.gom");
            let Ok(src) = std::fs::read_to_string(&path) else { continue };
            let id = format!("pkg:{}", d.file_name().unwrap().to_string_lossy());
            one(&id, util::compile_path(&path, &src), &src, &mut out, &mut stats);
        }
    }
    // ---- generated multi-package projects (every item kind across a package boundary)
    {
        let dir = util::scratch_dir("gocompm");
        let n_multi = if thorough { 48 } else { 12 };
        for i in 0..n_multi {
            let (files, main_src) = c01::multi_package_project(i);
            let root = dir.join(format!("m{}", i));
            let _ = std::fs::remove_dir_all(&root);
            for (rel, text) in &files {
                let p = root.join(rel);
                std::fs::create_dir_all(p.parent().unwrap()).unwrap();
                std::fs::write(&p, text).unwrap();
            }
            let all: String = files.iter().map(|(r, t)| format!("// {}\n{}", r, t)).collect::<Vec<_>>().join("\n");
            one(&format!("multi:{}", i), util::compile_path(&root.join("main.gom"), &main_src), &all, &mut out, &mut stats);
        }
        let _ = std::fs::remove_dir_all(&dir);
    }
    // ---- minimised past failures kept under /verif/corpus
    {
        // (not C04 / C12 / C20: those hold crash, hang and malformed-input witnesses)
        let subs: Vec<_> = ["C01", "C01pipe", "C02", "C03", "C05", "C06", "C07", "C08", "C09", "C10", "C17", "C18", "DCE", "GOCOMP"]
            .iter()
            .map(|s| util::verif_root().join("corpus").join(s))
            .filter(|p| p.is_dir())
            .collect();
        let dir = util::scratch_dir("gocompc");
        for sub in subs {
            let Ok(rd) = std::fs::read_dir(&sub) else { continue };
            let mut files: Vec<_> = rd.filter_map(|e| e.ok().map(|e| e.path())).filter(|p| p.extension().is_some_and(|x| x == "gom")).collect();
            files.sort();
            for f in files {
                let Ok(src) = std::fs::read_to_string(&f) else { continue };
                let id = format!("corpus:{}/{}", sub.file_name().unwrap().to_string_lossy(), f.file_name().unwrap().to_string_lossy());
                one(&id, util::compile_text(&dir, &src), &src, &mut out, &mut stats);
            }
        }
        let _ = std::fs::remove_dir_all(&dir);
    }
    // ---- G-prog (the C01 schedule of feature flags)
    let total = args.n.unwrap_or(if thorough { 3000 } else { 300 });
    let dir = util::scratch_dir("gocomp");
    for i in 0..total {
        let mut root = crate::rng::Rng::new(args.seed);
        let mut rng = root.fork(i as u64);
        let cfg = crate::progen::Cfg {
            closure_flows: i % 10 == 9,
            traits: i % 3 != 0,
            generics: i % 2 == 0,
            go_stmt: i % 7 == 3,
            max_depth: 1 + i % 3,
            effects: true,
            wildcard_arrays: i % 10 == 8,
            src_forms: i % 4 != 1,
            lit_field_effects: i % 20 == 7,
            nested_patterns: i % 4 == 1,
            rich_generics: i % 11 == 5,
            vec_generics: i % 13 == 6,
            dyn_generics: i % 17 == 4,
            cov_shapes: i % 6 == 4,
            ..Default::default()
        };
        let (src, _) = crate::progen::gen_program(&mut rng, cfg);
        one(&format!("gen:{}:{}", args.seed, i), util::compile_text(&dir, &src), &src, &mut out, &mut stats);
    }
    // ---- closure programs (the C08 generator): env structs, apply functions, `go`
    let n_clo = if thorough { 1500 } else { 150 };
    for i in 0..n_clo {
        let mut root = crate::rng::Rng::new(args.seed ^ 0x5eed_c105);
        let mut rng = root.fork(i as u64);
        let mut flows = 0u32;
        for b in 0..6 {
            if rng.chance(2, 3) {
                flows |= 1 << b;
            }
        }
        if i % 4 == 3 {
            let (f, _) = crate::progen::flow::OTHER[(i / 4) % crate::progen::flow::OTHER.len()];
            flows |= f;
        }
        let cfg = crate::progen::CloCfg { flows, nest: 1 + i % 4, stmts: 1 + i % 3 };
        let (src, _) = crate::progen::gen_closure_program(&mut rng, cfg);
        one(&format!("clo:{}:{}", args.seed, i), util::compile_text(&dir, &src), &src, &mut out, &mut stats);
    }
    let _ = std::fs::remove_dir_all(&dir);
    writeln!(out, "#STATS\taccepted={} rejected={} go_file_panics={}", stats.0, stats.1, stats.2).unwrap();
    let _ = std::fs::create_dir_all(&args.out);
    std::fs::write(args.out.join("gocomp.cases.tsv"), out).unwrap();
}
