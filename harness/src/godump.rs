//! S-expression serialiser for the Go AST the backend produces (`go::goast`).
use crate::sexp::{S, a, l, n, tagged};
use compiler::go::goast::*;
use compiler::go::goty::GoType;

pub fn gty(t: &GoType) -> S {
    match t {
        GoType::TVoid => a("void"),
        GoType::TUnit => a("unit"),
        GoType::TBool => a("bool"),
        GoType::TInt8 => a("i8"),
        GoType::TInt16 => a("i16"),
        GoType::TInt32 => a("i32"),
        GoType::TInt64 => a("i64"),
        GoType::TUint8 => a("u8"),
        GoType::TUint16 => a("u16"),
        GoType::TUint32 => a("u32"),
        GoType::TUint64 => a("u64"),
        GoType::TFloat32 => a("f32"),
        GoType::TFloat64 => a("f64"),
        GoType::TString => a("string"),
        GoType::TStruct { name, fields } => {
            let mut v = vec![a(name)];
            v.extend(fields.iter().map(|(f, t)| l(vec![a(f), gty(t)])));
            tagged("struct", v)
        }
        GoType::TPointer { elem } => tagged("ptr", vec![gty(elem)]),
        GoType::TFunc { params, ret_ty } => tagged("fn", vec![l(params.iter().map(gty).collect()), gty(ret_ty)]),
        GoType::TName { name } => tagged("name", vec![a(name)]),
        GoType::TArray { len, elem } => tagged("array", vec![n(len), gty(elem)]),
        GoType::TSlice { elem } => tagged("slice", vec![gty(elem)]),
    }
}

fn unop(op: GoUnaryOp) -> &'static str {
    match op {
        GoUnaryOp::Neg => "neg",
        GoUnaryOp::Not => "not",
        GoUnaryOp::AddrOf => "addr",
        GoUnaryOp::Deref => "deref",
    }
}

fn binop(op: GoBinaryOp) -> &'static str {
    match op {
        GoBinaryOp::Add => "add",
        GoBinaryOp::Sub => "sub",
        GoBinaryOp::Mul => "mul",
        GoBinaryOp::Div => "div",
        GoBinaryOp::Less => "less",
        GoBinaryOp::Greater => "greater",
        GoBinaryOp::LessEq => "less_eq",
        GoBinaryOp::GreaterEq => "greater_eq",
        GoBinaryOp::Eq => "eq",
        GoBinaryOp::NotEq => "not_eq",
        GoBinaryOp::And => "and",
        GoBinaryOp::Or => "or",
    }
}

pub fn gexpr(e: &Expr) -> S {
    match e {
        Expr::Nil { ty } => tagged("nil", vec![gty(ty)]),
        Expr::Void { ty } => tagged("voidv", vec![gty(ty)]),
        Expr::Unit { ty } => tagged("unitv", vec![gty(ty)]),
        Expr::Var { name, ty } => tagged("var", vec![a(name), gty(ty)]),
        Expr::Bool { value, .. } => tagged("bool", vec![a(if *value { "true" } else { "false" })]),
        Expr::Int { value, ty } => tagged("int", vec![S::A(value.clone()), gty(ty)]),
        Expr::Float { value, ty } => tagged("float", vec![n(value.to_bits()), gty(ty)]),
        Expr::String { value, .. } => tagged("str", vec![S::A(value.clone())]),
        Expr::Call { func, args, ty } => {
            let mut v = vec![gty(ty), gexpr(func)];
            v.extend(args.iter().map(gexpr));
            tagged("call", v)
        }
        Expr::UnaryOp { op, expr, ty } => tagged("un", vec![a(unop(*op)), gty(ty), gexpr(expr)]),
        Expr::BinaryOp { op, lhs, rhs, ty } => tagged("bin", vec![a(binop(*op)), gty(ty), gexpr(lhs), gexpr(rhs)]),
        Expr::FieldAccess { obj, field, ty } => tagged("field", vec![a(field), gty(ty), gexpr(obj)]),
        Expr::Index { array, index, ty } => tagged("index", vec![gty(ty), gexpr(array), gexpr(index)]),
        Expr::Cast { expr, ty } => tagged("cast", vec![gty(ty), gexpr(expr)]),
        Expr::StructLiteral { fields, ty } => {
            let mut v = vec![gty(ty)];
            v.extend(fields.iter().map(|(f, e)| l(vec![a(f), gexpr(e)])));
            tagged("slit", v)
        }
        Expr::ArrayLiteral { elems, ty } => {
            let mut v = vec![gty(ty)];
            v.extend(elems.iter().map(gexpr));
            tagged("alit", v)
        }
        Expr::Block { stmts, expr, ty } => tagged(
            "blocke",
            vec![
                gty(ty),
                l(stmts.iter().map(gstmt).collect()),
                match expr {
                    Some(e) => gexpr(e),
                    None => a("none"),
                },
            ],
        ),
    }
}

pub fn gblock(b: &Block) -> S {
    l(b.stmts.iter().map(gstmt).collect())
}

fn opt_block(b: &Option<Block>) -> S {
    match b {
        Some(b) => gblock(b),
        None => a("none"),
    }
}

pub fn gstmt(s: &Stmt) -> S {
    match s {
        Stmt::Expr(e) => tagged("expr", vec![gexpr(e)]),
        Stmt::Go { call } => tagged("go", vec![gexpr(call)]),
        Stmt::VarDecl { name, ty, value } => tagged(
            "vardecl",
            vec![
                a(name),
                gty(ty),
                match value {
                    Some(v) => gexpr(v),
                    None => a("none"),
                },
            ],
        ),
        Stmt::Assignment { name, value } => tagged("assign", vec![a(name), gexpr(value)]),
        Stmt::FieldAssign { target, value } => tagged("fassign", vec![gexpr(target), gexpr(value)]),
        Stmt::PointerAssign { pointer, value } => tagged("passign", vec![gexpr(pointer), gexpr(value)]),
        Stmt::IndexAssign { array, index, value } => tagged("iassign", vec![gexpr(array), gexpr(index), gexpr(value)]),
        Stmt::Return { expr } => tagged(
            "return",
            vec![match expr {
                Some(e) => gexpr(e),
                None => a("none"),
            }],
        ),
        Stmt::If { cond, then, else_ } => tagged("if", vec![gexpr(cond), gblock(then), opt_block(else_)]),
        Stmt::Loop { body } => tagged("loop", vec![gblock(body)]),
        Stmt::Break => tagged("break", vec![]),
        Stmt::SwitchExpr { expr, cases, default } => tagged(
            "switch",
            vec![
                gexpr(expr),
                l(cases.iter().map(|(e, b)| l(vec![gexpr(e), gblock(b)])).collect()),
                opt_block(default),
            ],
        ),
        Stmt::SwitchType { bind, expr, cases, default } => tagged(
            "tswitch",
            vec![
                match bind {
                    Some(b) => a(b),
                    None => a("_"),
                },
                gexpr(expr),
                l(cases.iter().map(|(t, b)| l(vec![gty(t), gblock(b)])).collect()),
                opt_block(default),
            ],
        ),
    }
}

fn gparams(ps: &[(String, GoType)]) -> S {
    l(ps.iter().map(|(p, t)| l(vec![a(p), gty(t)])).collect())
}

pub fn gfile(f: &File) -> S {
    let mut items = Vec::new();
    for it in &f.toplevels {
        items.push(match it {
            Item::Package(p) => tagged("package", vec![a(&p.name)]),
            Item::Import(i) => tagged(
                "import",
                i.specs
                    .iter()
                    .map(|s| l(vec![a(s.alias.clone().unwrap_or_else(|| "-".into())), S::A(s.path.clone())]))
                    .collect(),
            ),
            Item::Interface(i) => tagged(
                "interface",
                vec![
                    a(&i.name),
                    l(i.methods
                        .iter()
                        .map(|m| {
                            l(vec![
                                a(&m.name),
                                gparams(&m.params),
                                match &m.ret {
                                    Some(t) => gty(t),
                                    None => a("none"),
                                },
                            ])
                        })
                        .collect()),
                ],
            ),
            Item::Struct(s) => tagged(
                "structdef",
                vec![
                    a(&s.name),
                    l(s.fields.iter().map(|f| l(vec![a(&f.name), gty(&f.ty)])).collect()),
                    l(s.methods
                        .iter()
                        .map(|m| {
                            tagged(
                                "method",
                                vec![a(&m.receiver.name), gty(&m.receiver.ty), a(&m.name), gparams(&m.params), gblock(&m.body)],
                            )
                        })
                        .collect()),
                ],
            ),
            Item::TypeAlias(t) => tagged("alias", vec![a(&t.name), gty(&t.ty)]),
            Item::Fn(f) => tagged(
                "func",
                vec![
                    a(&f.name),
                    gparams(&f.params),
                    match &f.ret_ty {
                        Some(t) => gty(t),
                        None => a("none"),
                    },
                    gblock(&f.body),
                ],
            ),
        });
    }
    tagged("gofile", items)
}
