//! A parser for exactly the Go text `pprint/go_pprint.rs` prints, producing the same *erased*
//! S-expression as `erase_file` computes from the `goast::File` (expression type annotations are
//! not printed, so they are not compared). `parse(print(ast)) == erase(ast)` ties the printer:
//! a printer that drops parentheses, spells an operator or a type wrongly, or forgets a
//! statement shows up as a difference.
use crate::sexp::{S, a, l, tagged};
use compiler::go::goast::*;
use compiler::go::goty::GoType;

// ------------------------------------------------------------------ erased view of the AST

pub fn ety(t: &GoType) -> S {
    match t {
        GoType::TVoid => a("void"),
        GoType::TUnit => a("unit"),
        GoType::TBool => a("bool"),
        GoType::TInt8 => a("int8"),
        GoType::TInt16 => a("int16"),
        GoType::TInt32 => a("int32"),
        GoType::TInt64 => a("int64"),
        GoType::TUint8 => a("uint8"),
        GoType::TUint16 => a("uint16"),
        GoType::TUint32 => a("uint32"),
        GoType::TUint64 => a("uint64"),
        GoType::TFloat32 => a("float32"),
        GoType::TFloat64 => a("float64"),
        GoType::TString => a("string"),
        GoType::TStruct { name, .. } => tagged("name", vec![a(name)]),
        GoType::TName { name } => named(name),
        GoType::TPointer { elem } => tagged("ptr", vec![ety(elem)]),
        GoType::TFunc { params, ret_ty } => tagged("fn", vec![l(params.iter().map(ety).collect()), ety(ret_ty)]),
        GoType::TArray { len, elem } => tagged("array", vec![a(len.to_string()), ety(elem)]),
        GoType::TSlice { elem } => tagged("slice", vec![ety(elem)]),
    }
}

fn named(name: &str) -> S {
    match name {
        "bool" | "int8" | "int16" | "int32" | "int64" | "uint8" | "uint16" | "uint32" | "uint64" | "float32"
        | "float64" | "string" => a(name),
        _ => tagged("name", vec![a(name)]),
    }
}

fn dotted(name: &str) -> S {
    let mut parts = name.split('.');
    let mut e = tagged("var", vec![a(parts.next().unwrap_or(""))]);
    for p in parts {
        e = tagged("field", vec![a(p), e]);
    }
    e
}

/// canonical spelling of a numeric token by value: integral values as integer text
pub fn canon_num(t: &str) -> String {
    if t.contains('.') || t.contains('e') || t.contains('E') {
        if let Ok(v) = t.parse::<f64>() {
            if v.is_finite() && v.fract() == 0.0 && v.abs() < 9007199254740992.0 {
                return format!("{}", v as i64);
            }
            return format!("{:?}", v);
        }
    }
    t.to_string()
}

fn is_num_lit(e: &Expr) -> bool {
    matches!(e, Expr::Int { .. } | Expr::Float { .. })
}

fn bin_sym(op: GoBinaryOp) -> &'static str {
    match op {
        GoBinaryOp::Add => "+",
        GoBinaryOp::Sub => "-",
        GoBinaryOp::Mul => "*",
        GoBinaryOp::Div => "/",
        GoBinaryOp::Less => "<",
        GoBinaryOp::Greater => ">",
        GoBinaryOp::LessEq => "<=",
        GoBinaryOp::GreaterEq => ">=",
        GoBinaryOp::Eq => "==",
        GoBinaryOp::NotEq => "!=",
        GoBinaryOp::And => "&&",
        GoBinaryOp::Or => "||",
    }
}

/// operand of a constant expression: integer constant or floating-point constant, by value
fn const_operand(e: &Expr) -> S {
    match e {
        Expr::Int { value, .. } => match value.strip_prefix('-') {
            Some(rest) => tagged("un", vec![a("neg"), tagged("iconst", vec![a(rest)])]),
            None => tagged("iconst", vec![a(value)]),
        },
        Expr::Float { value, .. } => {
            if *value < 0.0 {
                tagged("un", vec![a("neg"), tagged("fconst", vec![a(format!("{:?}", -value))])])
            } else {
                tagged("fconst", vec![a(format!("{:?}", value))])
            }
        }
        other => eexpr(other),
    }
}

pub fn eexpr(e: &Expr) -> S {
    match e {
        Expr::Nil { .. } => tagged("var", vec![a("nil")]),
        Expr::Void { .. } => a("void"),
        Expr::Unit { .. } => tagged("slit", vec![a("unit")]),
        Expr::Var { name, .. } => dotted(name),
        Expr::Bool { value, .. } => tagged("var", vec![a(if *value { "true" } else { "false" })]),
        Expr::Int { value, .. } => match value.strip_prefix('-') {
            Some(rest) => tagged("un", vec![a("neg"), tagged("num", vec![a(rest)])]),
            None => tagged("num", vec![a(value)]),
        },
        Expr::Float { value, .. } => {
            // outside constant expressions `3` and `3.0` denote the same value of the declared type
            if *value < 0.0 {
                tagged("un", vec![a("neg"), tagged("num", vec![a(canon_num(&format!("{:?}", -value)))])])
            } else {
                tagged("num", vec![a(canon_num(&format!("{:?}", value)))])
            }
        }
        Expr::String { value, .. } => tagged("str", vec![S::A(value.clone())]),
        Expr::Call { func, args, .. } => {
            let mut v = vec![eexpr(func)];
            v.extend(args.iter().map(eexpr));
            tagged("call", v)
        }
        Expr::UnaryOp { op, expr, .. } => tagged(
            "un",
            vec![
                a(match op {
                    GoUnaryOp::Neg => "neg",
                    GoUnaryOp::Not => "not",
                    GoUnaryOp::AddrOf => "addr",
                    GoUnaryOp::Deref => "deref",
                }),
                eexpr(expr),
            ],
        ),
        Expr::BinaryOp { op, lhs, rhs, .. } if is_num_lit(lhs) && is_num_lit(rhs) => {
            // a Go CONSTANT expression: untyped integer constants divide as integers, so here the
            // kind the printed text denotes (integer vs floating-point literal) is part of the meaning
            tagged("bin", vec![a(bin_sym(*op)), const_operand(lhs), const_operand(rhs)])
        }
        Expr::BinaryOp { op, lhs, rhs, .. } => tagged(
            "bin",
            vec![
                a(match op {
                    GoBinaryOp::Add => "+",
                    GoBinaryOp::Sub => "-",
                    GoBinaryOp::Mul => "*",
                    GoBinaryOp::Div => "/",
                    GoBinaryOp::Less => "<",
                    GoBinaryOp::Greater => ">",
                    GoBinaryOp::LessEq => "<=",
                    GoBinaryOp::GreaterEq => ">=",
                    GoBinaryOp::Eq => "==",
                    GoBinaryOp::NotEq => "!=",
                    GoBinaryOp::And => "&&",
                    GoBinaryOp::Or => "||",
                }),
                eexpr(lhs),
                eexpr(rhs),
            ],
        ),
        Expr::FieldAccess { obj, field, .. } => tagged("field", vec![a(field), eexpr(obj)]),
        Expr::Index { array, index, .. } => tagged("index", vec![eexpr(array), eexpr(index)]),
        Expr::Cast { expr, ty } => tagged("assert", vec![ety(ty), eexpr(expr)]),
        Expr::StructLiteral { fields, ty } => {
            let mut v = vec![ety(ty)];
            v.extend(fields.iter().map(|(f, e)| l(vec![a(f), eexpr(e)])));
            tagged("slit", v)
        }
        Expr::ArrayLiteral { elems, ty } => {
            let mut v = vec![ety(ty)];
            v.extend(elems.iter().map(eexpr));
            tagged("alit", v)
        }
        Expr::Block { .. } => tagged("outside-subset", vec![a("block-expression")]),
    }
}

fn eblock(b: &Block) -> S {
    l(b.stmts.iter().map(estmt).collect())
}
fn eopt(b: &Option<Block>) -> S {
    match b {
        Some(b) => eblock(b),
        None => a("none"),
    }
}

pub fn estmt(s: &Stmt) -> S {
    match s {
        Stmt::Expr(e) => tagged("expr", vec![eexpr(e)]),
        Stmt::Go { call } => tagged("go", vec![eexpr(call)]),
        Stmt::VarDecl { name, ty, value } => tagged(
            "vardecl",
            vec![
                a(name),
                ety(ty),
                match value {
                    Some(v) => eexpr(v),
                    None => a("none"),
                },
            ],
        ),
        Stmt::Assignment { name, value } => tagged("assign", vec![tagged("var", vec![a(name)]), eexpr(value)]),
        Stmt::FieldAssign { target, value } => tagged("assign", vec![eexpr(target), eexpr(value)]),
        Stmt::PointerAssign { pointer, value } => tagged("assign", vec![tagged("un", vec![a("deref"), eexpr(pointer)]), eexpr(value)]),
        Stmt::IndexAssign { array, index, value } => {
            tagged("assign", vec![tagged("index", vec![eexpr(array), eexpr(index)]), eexpr(value)])
        }
        Stmt::Return { expr } => tagged(
            "return",
            vec![match expr {
                Some(Expr::Void { .. }) | None => a("none"),
                Some(e) => eexpr(e),
            }],
        ),
        Stmt::If { cond, then, else_ } => tagged("if", vec![eexpr(cond), eblock(then), eopt(else_)]),
        Stmt::Loop { body } => tagged("for", vec![eblock(body)]),
        Stmt::Break => tagged("break", vec![]),
        Stmt::SwitchExpr { expr, cases, default } => tagged(
            "switch",
            vec![eexpr(expr), l(cases.iter().map(|(e, b)| l(vec![eexpr(e), eblock(b)])).collect()), eopt(default)],
        ),
        Stmt::SwitchType { bind, expr, cases, default } => tagged(
            "tswitch",
            vec![
                a(bind.clone().unwrap_or_else(|| "-".into())),
                eexpr(expr),
                l(cases.iter().map(|(t, b)| l(vec![ety(t), eblock(b)])).collect()),
                eopt(default),
            ],
        ),
    }
}

fn eparams(ps: &[(String, GoType)]) -> S {
    l(ps.iter().map(|(p, t)| l(vec![a(p), ety(t)])).collect())
}

pub fn erase_file(f: &File) -> S {
    let mut items = Vec::new();
    for it in &f.toplevels {
        match it {
            Item::Package(p) => items.push(tagged("package", vec![a(&p.name)])),
            Item::Import(i) => items.push(tagged(
                "import",
                i.specs.iter().map(|s| l(vec![a(s.alias.clone().unwrap_or_else(|| "-".into())), S::A(s.path.clone())])).collect(),
            )),
            Item::Interface(i) => items.push(tagged(
                "interface",
                vec![
                    a(&i.name),
                    l(i.methods
                        .iter()
                        .map(|m| l(vec![a(&m.name), eparams(&m.params), m.ret.as_ref().map(ety).unwrap_or_else(|| a("none"))]))
                        .collect()),
                ],
            )),
            Item::Struct(s) => {
                items.push(tagged("struct", vec![a(&s.name), l(s.fields.iter().map(|f| l(vec![a(&f.name), ety(&f.ty)])).collect())]));
                for m in &s.methods {
                    items.push(tagged(
                        "method",
                        vec![a(&m.receiver.name), ety(&m.receiver.ty), a(&m.name), eparams(&m.params), a("none"), eblock(&m.body)],
                    ));
                }
            }
            Item::TypeAlias(t) => items.push(tagged("alias", vec![a(&t.name), ety(&t.ty)])),
            Item::Fn(f) => items.push(tagged(
                "func",
                vec![a(&f.name), eparams(&f.params), f.ret_ty.as_ref().map(ety).unwrap_or_else(|| a("none")), eblock(&f.body)],
            )),
        }
    }
    tagged("gofile", items)
}

// ------------------------------------------------------------------ tokenizer

#[derive(Clone, Debug, PartialEq)]
enum Tok {
    Ident(String),
    Num(String),
    Str(String),
    Sym(&'static str),
    Nl,
    Eof,
}

const SYMS: &[&str] = &[
    ":=", "==", "!=", "<=", ">=", "&&", "||", "(", ")", "{", "}", "[", "]", ",", ".", ":", "=", "+", "-", "*", "/", "<", ">", "!", "&", ";",
];

/// the keywords of the Go specification ("Keywords"), written out from the specification — deliberately not
/// read from go/mangle.rs, whose table is the thing under test
pub const GO_KEYWORDS: [&str; 25] = [
    "break", "case", "chan", "const", "continue", "default", "defer", "else", "fallthrough", "for", "func", "go", "goto", "if", "import",
    "interface", "map", "package", "range", "return", "select", "struct", "switch", "type", "var",
];

pub fn is_go_keyword(s: &str) -> bool {
    GO_KEYWORDS.contains(&s)
}

fn tokenize(text: &str) -> Result<Vec<Tok>, String> {
    let cs: Vec<char> = text.chars().collect();
    let mut i = 0;
    let mut out = Vec::new();
    while i < cs.len() {
        let c = cs[i];
        if c == '\n' {
            out.push(Tok::Nl);
            i += 1;
        } else if c.is_whitespace() {
            i += 1;
        } else if c.is_alphabetic() || c == '_' {
            let s = i;
            while i < cs.len() && (cs[i].is_alphanumeric() || cs[i] == '_') {
                i += 1;
            }
            out.push(Tok::Ident(cs[s..i].iter().collect()));
        } else if c.is_ascii_digit() {
            let s = i;
            while i < cs.len()
                && (cs[i].is_ascii_alphanumeric()
                    || cs[i] == '.' && i + 1 < cs.len() && cs[i + 1].is_ascii_digit()
                    || (cs[i] == '+' || cs[i] == '-') && (cs[i - 1] == 'e' || cs[i - 1] == 'E'))
            {
                i += 1;
            }
            out.push(Tok::Num(cs[s..i].iter().collect()));
        } else if c == '"' {
            i += 1;
            let mut s = String::new();
            loop {
                if i >= cs.len() {
                    return Err("unterminated string".into());
                }
                match cs[i] {
                    '"' => {
                        i += 1;
                        break;
                    }
                    '\n' => return Err("newline in string literal".into()),
                    '\\' => {
                        i += 1;
                        match cs.get(i) {
                            Some('n') => s.push('\n'),
                            Some('t') => s.push('\t'),
                            Some('r') => s.push('\r'),
                            Some('"') => s.push('"'),
                            Some('\\') => s.push('\\'),
                            Some('u') => {
                                let h: String = cs.get(i + 1..i + 5).map(|x| x.iter().collect()).unwrap_or_default();
                                let v = u32::from_str_radix(&h, 16).map_err(|_| "bad \\u escape".to_string())?;
                                s.push(char::from_u32(v).ok_or("bad \\u scalar")?);
                                i += 4;
                            }
                            other => return Err(format!("unknown escape {:?}", other)),
                        }
                        i += 1;
                    }
                    ch => {
                        if ch.is_control() {
                            return Err("raw control character in string literal".into());
                        }
                        s.push(ch);
                        i += 1;
                    }
                }
            }
            out.push(Tok::Str(s));
        } else {
            let rest: String = cs[i..(i + 2).min(cs.len())].iter().collect();
            let Some(sym) = SYMS.iter().find(|s| rest.starts_with(**s)) else {
                return Err(format!("unexpected character {:?}", c));
            };
            out.push(Tok::Sym(sym));
            i += sym.chars().count();
        }
    }
    out.push(Tok::Eof);
    Ok(out)
}

/// `gv golex`: this file's tokenizer on texts read from stdin (`id<TAB>escaped text` per line), one line
/// `id<TAB>kind:text…` out (identifiers and keywords `i:`, numbers `n:`, strings decoded `s:`, symbols `y:`, joined by
/// U+0001; line ends and the end marker are left out) — the second, independent lexer of the `golex` tie
pub fn golex_main() {
    use std::io::{BufRead, Write};
    let stdin = std::io::stdin();
    let out = std::io::stdout();
    let mut out = std::io::BufWriter::new(out.lock());
    for l in stdin.lock().lines() {
        let Ok(l) = l else { break };
        let Some((id, esc)) = l.split_once('\t') else { continue };
        let mut text = String::new();
        let mut it = esc.chars();
        while let Some(c) = it.next() {
            if c == '\\' {
                match it.next() {
                    Some('n') => text.push('\n'),
                    Some('t') => text.push('\t'),
                    Some('r') => text.push('\r'),
                    Some(o) => text.push(o),
                    None => {}
                }
            } else {
                text.push(c);
            }
        }
        match tokenize(&text) {
            Ok(ts) => {
                let parts: Vec<String> = ts
                    .iter()
                    .filter_map(|t| match t {
                        Tok::Ident(s) => Some(format!("i:{}", s)),
                        Tok::Num(s) => Some(format!("n:{}", s)),
                        Tok::Str(s) => Some(format!("s:{}", s)),
                        Tok::Sym(s) => Some(format!("y:{}", s)),
                        Tok::Nl | Tok::Eof => None,
                    })
                    .collect();
                let _ = writeln!(out, "{}\tok\t{}", id, crate::sexp::esc_line(&parts.join("\u{1}")));
            }
            Err(e) => {
                let _ = writeln!(out, "{}\terr\t{}", id, crate::sexp::esc_line(&e));
            }
        }
    }
}

// ------------------------------------------------------------------ parser

struct P {
    t: Vec<Tok>,
    i: usize,
    /// `parse_go_raw`: keep every numeric token as `(num <text as printed>)` (no constant classification, no
    /// canonical spelling) — Go evaluates constant expressions on the literal TEXTS
    raw: bool,
}

type R<T> = Result<T, String>;

impl P {
    fn peek(&self) -> &Tok {
        &self.t[self.i]
    }
    fn peek_at(&self, k: usize) -> &Tok {
        self.t.get(self.i + k).unwrap_or(&Tok::Eof)
    }
    fn next(&mut self) -> Tok {
        let t = self.t[self.i].clone();
        if self.i + 1 < self.t.len() {
            self.i += 1;
        }
        t
    }
    fn skip_nl(&mut self) {
        while matches!(self.peek(), Tok::Nl | Tok::Sym(";")) {
            self.i += 1;
        }
    }
    fn is_sym(&self, s: &str) -> bool {
        matches!(self.peek(), Tok::Sym(x) if *x == s)
    }
    fn is_kw(&self, s: &str) -> bool {
        matches!(self.peek(), Tok::Ident(x) if x == s)
    }
    fn eat_sym(&mut self, s: &str) -> bool {
        if self.is_sym(s) {
            self.i += 1;
            true
        } else {
            false
        }
    }
    fn expect_sym(&mut self, s: &str) -> R<()> {
        if self.eat_sym(s) { Ok(()) } else { Err(format!("expected `{}`, found {:?} at token {}", s, self.peek(), self.i)) }
    }
    /// an IDENTIFIER of Go: the 25 keywords of the specification are a token class of their own and can
    /// stand in no identifier position (declared name, parameter, field, selector after `.`, key of a
    /// composite literal, type name, import alias): `x.range`, `func default()`, `var map int32` are syntax errors
    fn ident(&mut self) -> R<String> {
        let at = self.i;
        match self.next() {
            Tok::Ident(s) if is_go_keyword(&s) => {
                let after = match at.checked_sub(1).map(|k| &self.t[k]) {
                    Some(Tok::Sym(".")) => " after `.` (expected selector or type assertion)",
                    _ => "",
                };
                Err(format!("expected identifier, found the Go keyword `{}`{} at token {}", s, after, at))
            }
            Tok::Ident(s) => Ok(s),
            other => Err(format!("expected identifier, found {:?}", other)),
        }
    }
    /// consume the keyword `k` (keywords are lexed as `Tok::Ident`; only `ident()` tells them apart)
    fn expect_kw(&mut self, k: &str) -> R<()> {
        if self.is_kw(k) {
            self.i += 1;
            Ok(())
        } else {
            Err(format!("expected `{}`, found {:?} at token {}", k, self.peek(), self.i))
        }
    }

    fn ty(&mut self) -> R<S> {
        if self.eat_sym("*") {
            return Ok(tagged("ptr", vec![self.ty()?]));
        }
        if self.eat_sym("[") {
            if self.eat_sym("]") {
                return Ok(tagged("slice", vec![self.ty()?]));
            }
            let n = match self.next() {
                Tok::Num(n) => n,
                other => return Err(format!("array length expected, found {:?}", other)),
            };
            self.expect_sym("]")?;
            return Ok(tagged("array", vec![a(n), self.ty()?]));
        }
        if self.is_kw("struct") {
            self.i += 1;
            self.expect_sym("{")?;
            self.expect_sym("}")?;
            return Ok(a("unit"));
        }
        if self.is_kw("func") {
            self.i += 1;
            self.expect_sym("(")?;
            let mut ps = Vec::new();
            while !self.is_sym(")") {
                ps.push(self.ty()?);
                if !self.eat_sym(",") {
                    break;
                }
            }
            self.expect_sym(")")?;
            // a result type follows unless the next token cannot start a type
            let ret = match self.peek() {
                Tok::Ident(_) | Tok::Sym("*") | Tok::Sym("[") => self.ty()?,
                _ => a("void"),
            };
            return Ok(tagged("fn", vec![l(ps), ret]));
        }
        let name = self.ident()?;
        // qualified type of an extern package: time.Duration
        if self.is_sym(".") && matches!(self.peek_at(1), Tok::Ident(_)) {
            self.i += 1;
            let rest = self.ident()?;
            return Ok(named(&format!("{}.{}", name, rest)));
        }
        Ok(named(&name))
    }

    /// binary operators by Go precedence: || 1, && 2, comparisons 3, + - 4, * / 5
    fn prec(s: &str) -> Option<u8> {
        Some(match s {
            "||" => 1,
            "&&" => 2,
            "==" | "!=" | "<" | "<=" | ">" | ">=" => 3,
            "+" | "-" => 4,
            "*" | "/" => 5,
            _ => return None,
        })
    }

    fn expr(&mut self, min: u8, nolit: bool) -> R<S> {
        let mut lhs = self.unary(nolit)?;
        loop {
            let Tok::Sym(op) = self.peek().clone() else { break };
            let Some(p) = Self::prec(op) else { break };
            if p < min {
                break;
            }
            self.i += 1;
            let rhs = self.expr(p + 1, nolit)?;
            if !self.raw && is_num_node(&lhs) && is_num_node(&rhs) {
                lhs = tagged("bin", vec![a(op), classify_const(lhs), classify_const(rhs)]);
            } else {
                lhs = tagged("bin", vec![a(op), lhs, rhs]);
            }
        }
        Ok(lhs)
    }

    fn unary(&mut self, nolit: bool) -> R<S> {
        for (sym, name) in [("-", "neg"), ("!", "not"), ("&", "addr"), ("*", "deref")] {
            if self.eat_sym(sym) {
                return Ok(tagged("un", vec![a(name), self.unary(nolit)?]));
            }
        }
        self.postfix(nolit)
    }

    fn composite_body(&mut self, ty: S) -> R<S> {
        // after `{`
        self.skip_nl();
        let keyed = matches!((self.peek(), self.peek_at(1)), (Tok::Ident(_), Tok::Sym(":")));
        let mut v = vec![ty];
        if keyed {
            while !self.is_sym("}") {
                let f = self.ident()?;
                self.expect_sym(":")?;
                let e = self.expr(1, false)?;
                v.push(l(vec![a(f), e]));
                self.eat_sym(",");
                self.skip_nl();
            }
            self.expect_sym("}")?;
            return Ok(tagged("slit", v));
        }
        let is_array = matches!(&v[0], S::L(items) if matches!(items.first(), Some(S::A(h)) if h == "array" || h == "slice"));
        while !self.is_sym("}") {
            v.push(self.expr(1, false)?);
            self.eat_sym(",");
            self.skip_nl();
        }
        self.expect_sym("}")?;
        Ok(tagged(if is_array { "alit" } else { "slit" }, v))
    }

    fn primary(&mut self, nolit: bool) -> R<S> {
        match self.peek().clone() {
            Tok::Num(n) => {
                self.i += 1;
                Ok(tagged("num", vec![a(n)]))
            }
            Tok::Str(s) => {
                self.i += 1;
                Ok(tagged("str", vec![S::A(s)]))
            }
            Tok::Sym("(") => {
                self.i += 1;
                let e = self.expr(1, false)?;
                self.expect_sym(")")?;
                Ok(tagged("paren", vec![e]))
            }
            Tok::Sym("[") => {
                let t = self.ty()?;
                self.expect_sym("{")?;
                self.composite_body(t)
            }
            Tok::Ident(name) => {
                if name == "struct" {
                    // struct{}{}
                    let t = self.ty()?;
                    self.expect_sym("{")?;
                    self.expect_sym("}")?;
                    return Ok(tagged("slit", vec![t]));
                }
                // an operand name is an identifier: no keyword can start an expression of the emitted subset
                let name = self.ident()?;
                if !nolit && self.is_sym("{") {
                    self.i += 1;
                    return self.composite_body(named(&name));
                }
                Ok(tagged("var", vec![a(name)]))
            }
            other => Err(format!("unexpected token {:?} at {}", other, self.i)),
        }
    }

    fn postfix(&mut self, nolit: bool) -> R<S> {
        let mut e = self.primary(nolit)?;
        loop {
            if self.eat_sym("(") {
                let mut v = vec![e];
                while !self.is_sym(")") {
                    v.push(self.expr(1, false)?);
                    if !self.eat_sym(",") {
                        break;
                    }
                }
                self.expect_sym(")")?;
                e = tagged("call", v);
            } else if self.eat_sym("[") {
                let i = self.expr(1, false)?;
                self.expect_sym("]")?;
                e = tagged("index", vec![e, i]);
            } else if self.is_sym(".") {
                if matches!(self.peek_at(1), Tok::Sym("(")) {
                    if matches!(self.peek_at(2), Tok::Ident(t) if t == "type") {
                        break; // `.(type)` belongs to the type switch
                    }
                    self.i += 2;
                    let t = self.ty()?;
                    self.expect_sym(")")?;
                    e = tagged("assert", vec![t, e]);
                } else {
                    self.i += 1;
                    let f = self.ident()?;
                    e = tagged("field", vec![a(f), e]);
                }
            } else {
                break;
            }
        }
        Ok(e)
    }

    fn block(&mut self) -> R<S> {
        self.expect_sym("{")?;
        let mut v = Vec::new();
        loop {
            self.skip_nl();
            if self.eat_sym("}") {
                break;
            }
            v.push(self.stmt()?);
        }
        Ok(l(v))
    }

    fn case_body(&mut self) -> R<S> {
        let mut v = Vec::new();
        loop {
            self.skip_nl();
            if self.is_kw("case") || self.is_kw("default") || self.is_sym("}") {
                break;
            }
            v.push(self.stmt()?);
        }
        Ok(l(v))
    }

    fn stmt(&mut self) -> R<S> {
        if self.is_kw("var") {
            self.i += 1;
            let name = self.ident()?;
            let t = self.ty()?;
            let v = if self.eat_sym("=") { self.expr(1, false)? } else { a("none") };
            return Ok(tagged("vardecl", vec![a(name), t, v]));
        }
        if self.is_kw("return") {
            self.i += 1;
            if matches!(self.peek(), Tok::Nl | Tok::Sym("}") | Tok::Eof) {
                return Ok(tagged("return", vec![a("none")]));
            }
            return Ok(tagged("return", vec![self.expr(1, false)?]));
        }
        if self.is_kw("break") {
            self.i += 1;
            return Ok(tagged("break", vec![]));
        }
        if self.is_kw("go") {
            self.i += 1;
            return Ok(tagged("go", vec![self.expr(1, false)?]));
        }
        if self.is_kw("for") {
            self.i += 1;
            return Ok(tagged("for", vec![self.block()?]));
        }
        if self.is_kw("if") {
            self.i += 1;
            let c = self.expr(1, true)?;
            let t = self.block()?;
            let e = if self.is_kw("else") {
                self.i += 1;
                self.block()?
            } else {
                a("none")
            };
            return Ok(tagged("if", vec![c, t, e]));
        }
        if self.is_kw("switch") {
            self.i += 1;
            let mut bind = "-".to_string();
            if matches!((self.peek(), self.peek_at(1)), (Tok::Ident(_), Tok::Sym(":="))) {
                bind = self.ident()?;
                self.i += 1;
            }
            let e = self.expr(1, true)?;
            let is_type = self.is_sym(".");
            if is_type {
                self.i += 1;
                self.expect_sym("(")?;
                self.expect_kw("type")?;
                self.expect_sym(")")?;
            }
            self.expect_sym("{")?;
            let mut cases = Vec::new();
            let mut default = a("none");
            loop {
                self.skip_nl();
                if self.eat_sym("}") {
                    break;
                }
                if self.is_kw("default") {
                    self.i += 1;
                    self.expect_sym(":")?;
                    default = self.case_body()?;
                } else if self.is_kw("case") {
                    self.i += 1;
                    let head = if is_type { self.ty()? } else { self.expr(1, false)? };
                    self.expect_sym(":")?;
                    let body = self.case_body()?;
                    cases.push(l(vec![head, body]));
                } else {
                    return Err(format!("expected case/default, found {:?}", self.peek()));
                }
            }
            return Ok(if is_type {
                tagged("tswitch", vec![a(bind), e, l(cases), default])
            } else {
                tagged("switch", vec![e, l(cases), default])
            });
        }
        let e = self.expr(1, false)?;
        if self.eat_sym("=") {
            let v = self.expr(1, false)?;
            return Ok(tagged("assign", vec![e, v]));
        }
        Ok(tagged("expr", vec![e]))
    }

    fn params(&mut self) -> R<S> {
        self.expect_sym("(")?;
        let mut v = Vec::new();
        while !self.is_sym(")") {
            let n = self.ident()?;
            let t = self.ty()?;
            v.push(l(vec![a(n), t]));
            if !self.eat_sym(",") {
                break;
            }
        }
        self.expect_sym(")")?;
        Ok(l(v))
    }

    fn file(&mut self) -> R<S> {
        let mut items = Vec::new();
        loop {
            self.skip_nl();
            match self.peek().clone() {
                Tok::Eof => break,
                Tok::Ident(k) if k == "package" => {
                    self.i += 1;
                    items.push(tagged("package", vec![a(self.ident()?)]));
                }
                Tok::Ident(k) if k == "import" => {
                    self.i += 1;
                    self.expect_sym("(")?;
                    let mut specs = Vec::new();
                    loop {
                        self.skip_nl();
                        if self.eat_sym(")") {
                            break;
                        }
                        let alias = if let Tok::Ident(_) = self.peek() {
                            self.ident()?
                        } else {
                            "-".to_string()
                        };
                        match self.next() {
                            Tok::Str(p) => specs.push(l(vec![a(alias), S::A(p)])),
                            other => return Err(format!("import path expected, found {:?}", other)),
                        }
                    }
                    items.push(tagged("import", specs));
                }
                Tok::Ident(k) if k == "type" => {
                    self.i += 1;
                    let name = self.ident()?;
                    if self.eat_sym("=") {
                        items.push(tagged("alias", vec![a(name), self.ty()?]));
                    } else if self.is_kw("struct") {
                        self.i += 1;
                        self.expect_sym("{")?;
                        let mut fields = Vec::new();
                        loop {
                            self.skip_nl();
                            if self.eat_sym("}") {
                                break;
                            }
                            let f = self.ident()?;
                            let t = self.ty()?;
                            fields.push(l(vec![a(f), t]));
                        }
                        items.push(tagged("struct", vec![a(name), l(fields)]));
                    } else if self.is_kw("interface") {
                        self.i += 1;
                        self.expect_sym("{")?;
                        let mut ms = Vec::new();
                        loop {
                            self.skip_nl();
                            if self.eat_sym("}") {
                                break;
                            }
                            let m = self.ident()?;
                            let ps = self.params()?;
                            let ret = if matches!(self.peek(), Tok::Nl | Tok::Sym("}")) { a("none") } else { self.ty()? };
                            ms.push(l(vec![a(m), ps, ret]));
                        }
                        items.push(tagged("interface", vec![a(name), l(ms)]));
                    } else {
                        return Err("unknown type declaration".into());
                    }
                }
                Tok::Ident(k) if k == "func" => {
                    self.i += 1;
                    if self.is_sym("(") {
                        // method: func (recv T) name(params) body
                        self.i += 1;
                        let rn = self.ident()?;
                        let rt = self.ty()?;
                        self.expect_sym(")")?;
                        let name = self.ident()?;
                        let ps = self.params()?;
                        let ret = if self.is_sym("{") { a("none") } else { self.ty()? };
                        let body = self.block()?;
                        items.push(tagged("method", vec![a(rn), rt, a(name), ps, ret, body]));
                    } else {
                        let name = self.ident()?;
                        let ps = self.params()?;
                        let ret = if self.is_sym("{") { a("none") } else { self.ty()? };
                        let body = self.block()?;
                        items.push(tagged("func", vec![a(name), ps, ret, body]));
                    }
                }
                other => return Err(format!("unexpected top-level token {:?}", other)),
            }
        }
        Ok(tagged("gofile", items))
    }
}

fn num_text(s: &S) -> Option<&str> {
    if let S::L(items) = s {
        if let (Some(S::A(h)), Some(S::A(t))) = (items.first(), items.get(1)) {
            if h == "num" && items.len() == 2 {
                return Some(t.as_str());
            }
        }
    }
    None
}

fn is_num_node(s: &S) -> bool {
    if num_text(s).is_some() {
        return true;
    }
    if let S::L(items) = s {
        if let (Some(S::A(h)), Some(S::A(o)), Some(inner)) = (items.first(), items.get(1), items.get(2)) {
            return h == "un" && o == "neg" && num_text(inner).is_some();
        }
    }
    false
}

/// what kind of untyped constant a numeric token denotes in Go
fn classify_const(s: S) -> S {
    if let Some(t) = num_text(&s) {
        if t.contains('.') || t.contains('e') || t.contains('E') {
            let v: f64 = t.parse().unwrap_or(f64::NAN);
            return tagged("fconst", vec![a(format!("{:?}", v))]);
        }
        return tagged("iconst", vec![a(t)]);
    }
    if let S::L(items) = &s {
        if items.len() == 3 {
            return tagged("un", vec![a("neg"), classify_const(items[2].clone())]);
        }
    }
    s
}

fn canon_tree(s: S) -> S {
    match s {
        S::L(items) => {
            if items.len() == 2 {
                if let (S::A(h), S::A(t)) = (&items[0], &items[1]) {
                    if h == "num" {
                        return tagged("num", vec![a(canon_num(t))]);
                    }
                }
            }
            S::L(items.into_iter().map(canon_tree).collect())
        }
        other => other,
    }
}

pub fn parse_go(text: &str) -> Result<S, String> {
    let toks = tokenize(text)?;
    let mut p = P { t: toks, i: 0, raw: false };
    p.file().map(canon_tree)
}

/// the same parse, but numeric literals keep their printed text: `(num "0.10000000149011612")`, and an operator on
/// two literals stays `(bin + (num …) (num …))` (used by C10 to evaluate Go constant expressions exactly)
pub fn parse_go_raw(text: &str) -> Result<S, String> {
    let toks = tokenize(text)?;
    let mut p = P { t: toks, i: 0, raw: true };
    p.file()
}

/// first differing path between two S-expressions (for reports)
pub fn first_diff(x: &S, y: &S, path: &mut Vec<usize>) -> Option<(String, String, String)> {
    match (x, y) {
        (S::A(p), S::A(q)) if p == q => None,
        (S::L(ps), S::L(qs)) => {
            for (i, (p, q)) in ps.iter().zip(qs.iter()).enumerate() {
                path.push(i);
                if let Some(d) = first_diff(p, q, path) {
                    return Some(d);
                }
                path.pop();
            }
            if ps.len() != qs.len() {
                let head = ps.first().map(|s| s.to_text()).unwrap_or_default();
                return Some((format!("{:?} in ({} …)", path, head), format!("{} items", ps.len()), format!("{} items", qs.len())));
            }
            None
        }
        _ => {
            let mut px = x.to_text();
            let mut py = y.to_text();
            px.truncate(200);
            py.truncate(200);
            Some((format!("{:?}", path), px, py))
        }
    }
}
