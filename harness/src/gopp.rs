//! gopp — the Go printer (`pprint/go_pprint.rs`) against its Lean model (`Model/GoPrint.lean`).
//!
//! For every top-level item of the Go AST of every corpus / generated program (the `gocomp` schedule) and for
//! synthetic Go ASTs built here (arbitrary nesting of every `Expr` / `Stmt` / `Item` form, long operator
//! chains, deep nesting, strings over every character class `escape_go_string` distinguishes, floats over
//! random bit patterns) print
//!   `id  ITEM|SYN  (gofile item)  text@40  text@80  text@120  goparse-verdict`
//! (`to_pretty` of the REAL printer; `\0PANIC` when it panics).  Items are de-duplicated by their dump (the
//! runtime helpers are the same in every program).  `id FILE n joined` says whether the file's text is the
//! items' texts joined by a blank line plus a final newline.
use crate::godump;
use crate::rng::Rng;
use crate::sexp::{S, a, esc_line};
use crate::util::{self, Outcome};
use compiler::go::compile::GlobalGoEnv;
use compiler::go::goast::*;
use compiler::go::goty::GoType;
use std::collections::HashSet;
use std::fmt::Write as _;
use std::panic::{AssertUnwindSafe, catch_unwind};

const WIDTHS: [usize; 3] = [40, 80, 120];
const PANIC: &str = "\u{0}PANIC";

fn item_texts(item: &Item, goenv: &GlobalGoEnv) -> Vec<String> {
    WIDTHS
        .iter()
        .map(|w| catch_unwind(AssertUnwindSafe(|| item.to_pretty(goenv, *w))).unwrap_or_else(|_| PANIC.to_string()))
        .collect()
}

struct Ctx {
    seen: HashSet<String>,
    out: String,
    items: usize,
    dup: usize,
}

fn emit_file(cx: &mut Ctx, id: &str, kind: &str, file: &File, goenv: &GlobalGoEnv, verdict: &str) {
    let S::L(parts) = godump::gfile(file) else { return };
    let mut joined = Vec::new();
    for (k, (item, sx)) in file.toplevels.iter().zip(parts.iter().skip(1)).enumerate() {
        let texts = item_texts(item, goenv);
        joined.push(texts[2].clone());
        let one = S::L(vec![a("gofile"), sx.clone()]).to_text();
        cx.items += 1;
        if !cx.seen.insert(one.clone()) {
            cx.dup += 1;
            continue;
        }
        writeln!(cx.out, "{}#{}\t{}\t{}\t{}\t{}\t{}\t{}", id, k, kind, one, esc_line(&texts[0]), esc_line(&texts[1]), esc_line(&texts[2]), verdict).unwrap();
    }
    if kind == "ITEM" {
        let whole = catch_unwind(AssertUnwindSafe(|| file.to_pretty(goenv, 120))).unwrap_or_else(|_| PANIC.to_string());
        let expect = joined.join("\n\n") + "\n";
        // the model-free oracle at the narrower widths too: the text must read back as the AST it was printed from
        let erased = crate::goparse::erase_file(file);
        let mut narrow = Vec::new();
        for w in [40usize, 80] {
            let t = catch_unwind(AssertUnwindSafe(|| file.to_pretty(goenv, w))).unwrap_or_else(|_| PANIC.to_string());
            narrow.push(match catch_unwind(AssertUnwindSafe(|| crate::goparse::parse_go(&t))) {
                Ok(Ok(p)) if p == erased => "ok".to_string(),
                Ok(Ok(p)) => format!("diff {}", esc_line(&format!("{:?}", crate::goparse::first_diff(&erased, &p, &mut Vec::new())).chars().take(300).collect::<String>())),
                Ok(Err(e)) => format!("parse-error {}", esc_line(&e.chars().take(200).collect::<String>())),
                Err(_) => "parser-panic".to_string(),
            });
        }
        writeln!(cx.out, "{}\tFILE\t{}\t{}\t{}\t{}", id, file.toplevels.len(), whole == expect, narrow[0], narrow[1]).unwrap();
    }
}

fn one(cx: &mut Ctx, id: &str, oc: Outcome, src: &str) {
    match oc {
        Outcome::Ok(c) => {
            writeln!(cx.out, "{}\tSRC\t{}", id, esc_line(src)).unwrap();
            emit_file(cx, id, "ITEM", &c.go, &c.goenv, "-")
        }
        Outcome::Err(stage, _) => writeln!(cx.out, "{}\tREJECT\t{}", id, stage).unwrap(),
        Outcome::Panic(m) => writeln!(cx.out, "{}\tPANICKED\t{}", id, esc_line(&m)).unwrap(),
    }
}

// ------------------------------------------------------------------ synthetic Go ASTs

const NAMES: &[&str] = &["x", "y1", "acc", "t12", "ret3", "fmt.Println", "p", "closure_env_f_0", "_goml_a", "世"];
const FIELDS: &[&str] = &["f", "_0", "tag", "next"];
const TYPES: &[&str] = &["T", "Point", "dyn__Show", "closure_env_f_0"];
const INTS: &[&str] = &["0", "1", "42", "-1", "-7", "255", "9223372036854775807", "-9223372036854775808", "18446744073709551615"];

fn gen_string(r: &mut Rng) -> String {
    let n = match r.below(6) {
        0 => 0,
        1 => 1,
        2 | 3 => r.below(12),
        4 => 40 + r.below(60),
        _ => 150 + r.below(120),
    };
    let mut s = String::new();
    for _ in 0..n {
        let c = match r.below(12) {
            0 => '"',
            1 => '\\',
            2 => *r.pick(&['\n', '\r', '\t']),
            3 => char::from_u32(r.below(0x20) as u32).unwrap(),
            4 => char::from_u32(0x7f + r.below(0x21) as u32).unwrap(),
            5 => *r.pick(&['é', '世', '\u{1F600}', '\u{2028}', '\u{a0}', '\u{ffff}', '\u{10ffff}', '\u{7e}', '\u{a1}']),
            6 => ' ',
            _ => (b'a' + r.below(26) as u8) as char,
        };
        s.push(c);
    }
    s
}

fn gen_float(r: &mut Rng, strict: bool) -> f64 {
    let v = gen_float0(r, strict);
    if strict && !v.is_finite() {
        1.5
    } else if strict && v == 0.0 {
        0.0
    } else {
        v
    }
}

fn gen_float0(r: &mut Rng, strict: bool) -> f64 {
    match r.below(10) {
        0 => *r.pick(&[0.0, -0.0, 1.0, -1.0, 2.5, 0.1, 1e21, 1e-7, 123456789.0, f64::MAX, f64::MIN_POSITIVE, 5e-324, 1e15, 1e16, 1e17, 0.3, 1.0 / 3.0, 4.35, 9007199254740993.0]),
        1 if !strict => *r.pick(&[f64::INFINITY, f64::NEG_INFINITY, f64::NAN]),
        2 | 3 => (r.below(2000) as f64 - 1000.0) / *r.pick(&[1.0, 2.0, 4.0, 10.0, 100.0, 1000.0]),
        4 => (r.next() as f32 / 7.0) as f64,
        5 => f32::from_bits(r.next() as u32) as f64,
        // widened f32 values of moderate size: their exact decimal expansion often ends half way at 16/17 digits
        6 | 7 => f32::from_bits(0x3f80_0000 + r.below(1 << 27) as u32) as f64,
        _ => {
            let v = f64::from_bits(r.next());
            if strict && !v.is_finite() { 1.5 } else { v }
        }
    }
}

fn gen_ty(r: &mut Rng, d: usize, strict: bool) -> GoType {
    let k = if d == 0 { r.below(16) } else { r.below(21) };
    match k {
        0 => GoType::TUnit,
        1 => GoType::TBool,
        2 => GoType::TInt8,
        3 => GoType::TInt16,
        4 => GoType::TInt32,
        5 => GoType::TInt64,
        6 => GoType::TUint8,
        7 => GoType::TUint16,
        8 => GoType::TUint32,
        9 => GoType::TUint64,
        10 => GoType::TFloat32,
        11 => GoType::TFloat64,
        12 => GoType::TString,
        13 => GoType::TName { name: r.pick(TYPES).to_string() },
        14 => GoType::TStruct { name: r.pick(TYPES).to_string(), fields: vec![] },
        15 if !strict => GoType::TVoid,
        15 => GoType::TBool,
        16 => GoType::TPointer { elem: Box::new(gen_ty(r, d - 1, strict)) },
        17 => GoType::TSlice { elem: Box::new(gen_ty(r, d - 1, strict)) },
        18 => GoType::TArray { len: r.below(5), elem: Box::new(gen_ty(r, d - 1, strict)) },
        _ => {
            let n = r.below(3);
            GoType::TFunc { params: (0..n).map(|_| gen_ty(r, d - 1, strict)).collect(), ret_ty: Box::new(gen_ty(r, d - 1, strict)) }
        }
    }
}

const BINOPS: &[(GoBinaryOp, usize)] = &[
    (GoBinaryOp::Or, 1),
    (GoBinaryOp::And, 2),
    (GoBinaryOp::Eq, 3),
    (GoBinaryOp::NotEq, 3),
    (GoBinaryOp::Less, 3),
    (GoBinaryOp::LessEq, 3),
    (GoBinaryOp::Greater, 3),
    (GoBinaryOp::GreaterEq, 3),
    (GoBinaryOp::Add, 4),
    (GoBinaryOp::Sub, 4),
    (GoBinaryOp::Mul, 5),
    (GoBinaryOp::Div, 5),
];
const UNOPS: &[GoUnaryOp] = &[GoUnaryOp::Neg, GoUnaryOp::Not, GoUnaryOp::AddrOf, GoUnaryOp::Deref];

/// an expression whose printed text binds at level >= `min` when `strict` (so that the paren-free printer is
/// right); with `!strict` a quarter of the nodes ignore the level (the text then reads as ANOTHER tree — these
/// exercise the printer model only)
fn gen_expr(r: &mut Rng, d: usize, min: usize, strict: bool) -> Expr {
    let ty = GoType::TInt32;
    let min = if !strict && r.chance(1, 4) { 0 } else { min };
    if d == 0 {
        return match r.below(if min >= 7 { 6 } else { 8 }) {
            0 | 1 => Expr::Var { name: r.pick(NAMES).to_string(), ty },
            2 => Expr::Bool { value: r.chance(1, 2), ty },
            3 => Expr::Nil { ty },
            4 => Expr::String { value: gen_string(r), ty },
            5 => Expr::Unit { ty },
            6 => Expr::Int { value: r.pick(INTS).to_string(), ty },
            _ => Expr::Float { value: gen_float(r, strict), ty },
        };
    }
    // binary levels that are allowed here
    let bins: Vec<_> = BINOPS.iter().filter(|(_, p)| *p >= min).collect();
    let k = r.below(12);
    if k < 4 && !bins.is_empty() {
        let (op, p) = **r.pick(&bins);
        return Expr::BinaryOp { op, lhs: Box::new(gen_expr(r, d - 1, p, strict)), rhs: Box::new(gen_expr(r, d - 1, p + 1, strict)), ty };
    }
    if k < 6 && min <= 6 {
        let op = *r.pick(UNOPS);
        let mut e = gen_expr(r, d - 1, 6, strict);
        if strict {
            // `--x` / `&&x` are other tokens
            let glued = |e: &Expr| match (op, e) {
                (GoUnaryOp::Neg, Expr::UnaryOp { op: GoUnaryOp::Neg, .. }) => true,
                (GoUnaryOp::AddrOf, Expr::UnaryOp { op: GoUnaryOp::AddrOf, .. }) => true,
                (GoUnaryOp::Neg, Expr::Int { value, .. }) => value.starts_with('-'),
                (GoUnaryOp::Neg, Expr::Float { value, .. }) => value.to_string().starts_with('-'),
                _ => false,
            };
            if glued(&e) {
                e = Expr::Var { name: "g".into(), ty: GoType::TInt32 };
            }
        }
        return Expr::UnaryOp { op, expr: Box::new(e), ty };
    }
    let base = |r: &mut Rng| {
        let mut b = gen_expr(r, d - 1, 7, strict);
        if strict && matches!(b, Expr::Int { .. } | Expr::Float { .. }) {
            b = Expr::Var { name: "b".into(), ty: GoType::TInt32 };
        }
        Box::new(b)
    };
    match r.below(9) {
        0 | 1 => {
            let n = r.below(4);
            Expr::Call { func: base(r), args: (0..n).map(|_| gen_expr(r, d - 1, 0, strict)).collect(), ty }
        }
        2 => Expr::FieldAccess { obj: base(r), field: r.pick(FIELDS).to_string(), ty },
        3 => Expr::Index { array: base(r), index: Box::new(gen_expr(r, d - 1, 0, strict)), ty },
        4 => Expr::Cast { expr: base(r), ty: gen_ty(r, 2, strict) },
        5 => {
            let n = r.below(4);
            Expr::StructLiteral {
                ty: GoType::TName { name: r.pick(TYPES).to_string() },
                fields: (0..n).map(|_| (r.pick(FIELDS).to_string(), gen_expr(r, d - 1, 0, strict))).collect(),
            }
        }
        6 => {
            let n = r.below(4);
            let elem = Box::new(gen_ty(r, 1, strict));
            Expr::ArrayLiteral {
                ty: if r.chance(1, 2) { GoType::TSlice { elem } } else { GoType::TArray { len: n, elem } },
                elems: (0..n).map(|_| gen_expr(r, d - 1, 0, strict)).collect(),
            }
        }
        7 if !strict => match r.below(3) {
            0 => Expr::Void { ty },
            1 => Expr::ArrayLiteral { ty: GoType::TInt32, elems: vec![] },
            _ => {
                let n = r.below(3);
                Expr::Block {
                    stmts: (0..n).map(|_| gen_stmt(r, d - 1, strict)).collect(),
                    expr: if r.chance(1, 2) { Some(Box::new(gen_expr(r, d - 1, 0, strict))) } else { None },
                    ty,
                }
            }
        },
        _ => Expr::Var { name: r.pick(NAMES).to_string(), ty },
    }
}

/// a long left-leaning operator chain (well over 120 columns); when `strict`, each operator binds no tighter
/// than the chain built so far (which becomes its left operand)
fn gen_chain(r: &mut Rng, n: usize, strict: bool) -> Expr {
    let ty = GoType::TInt32;
    let mut e = gen_expr(r, 1, 7, strict);
    let mut lvl = 5;
    for k in 0..n {
        let allowed: Vec<_> = BINOPS.iter().filter(|(_, p)| !strict || (*p <= lvl && (*p + 1 >= lvl || k % 9 == 8))).collect();
        let (op, p) = **r.pick(&allowed);
        let rhs = gen_expr(r, 1, p + 1, strict);
        e = Expr::BinaryOp { op, lhs: Box::new(e), rhs: Box::new(rhs), ty: ty.clone() };
        lvl = p;
    }
    e
}

fn gen_block(r: &mut Rng, d: usize, strict: bool) -> Block {
    let n = if d == 0 { r.below(2) } else { r.below(4) };
    Block { stmts: (0..n).map(|_| gen_stmt(r, d.saturating_sub(1), strict)).collect() }
}

/// a header expression of `if` / `switch`: no composite literal outside brackets when `strict`
fn gen_header(r: &mut Rng, d: usize, strict: bool, min: usize) -> Expr {
    for _ in 0..20 {
        let e = gen_expr(r, d, min, strict);
        if !strict || !bare_lit(&e) {
            return e;
        }
    }
    Expr::Var { name: "c".into(), ty: GoType::TBool }
}

fn bare_lit(e: &Expr) -> bool {
    match e {
        Expr::StructLiteral { .. } | Expr::ArrayLiteral { .. } | Expr::Unit { .. } => true,
        Expr::BinaryOp { lhs, rhs, .. } => bare_lit(lhs) || bare_lit(rhs),
        Expr::UnaryOp { expr, .. } | Expr::Cast { expr, .. } => bare_lit(expr),
        Expr::Call { func, .. } => bare_lit(func),
        Expr::FieldAccess { obj, .. } => bare_lit(obj),
        Expr::Index { array, .. } => bare_lit(array),
        _ => false,
    }
}

fn gen_stmt(r: &mut Rng, d: usize, strict: bool) -> Stmt {
    let ed = 1 + r.below(3);
    match r.below(if d == 0 { 9 } else { 13 }) {
        0 => Stmt::Expr(gen_expr(r, ed, 0, strict)),
        1 => Stmt::VarDecl { name: r.pick(NAMES[..5].as_ref()).to_string(), ty: gen_ty(r, 2, strict), value: if r.chance(3, 4) { Some(gen_expr(r, ed, 0, strict)) } else { None } },
        2 => Stmt::Assignment { name: r.pick(NAMES[..5].as_ref()).to_string(), value: gen_expr(r, ed, 0, strict) },
        3 => Stmt::FieldAssign { target: gen_expr(r, 1, 7, strict), value: gen_expr(r, ed, 0, strict) },
        4 => Stmt::PointerAssign { pointer: gen_expr(r, 1, 6, strict), value: gen_expr(r, ed, 0, strict) },
        5 => Stmt::IndexAssign { array: gen_expr(r, 1, 7, strict), index: gen_expr(r, 1, 0, strict), value: gen_expr(r, ed, 0, strict) },
        6 => Stmt::Return { expr: if r.chance(3, 4) { Some(gen_expr(r, ed, 0, strict)) } else { None } },
        7 => Stmt::Break,
        8 => Stmt::Go { call: Expr::Call { func: Box::new(Expr::Var { name: "worker".into(), ty: GoType::TVoid }), args: vec![gen_expr(r, 1, 0, strict)], ty: GoType::TVoid } },
        9 => Stmt::If { cond: gen_header(r, ed, strict, 0), then: gen_block(r, d, strict), else_: if r.chance(1, 2) { Some(gen_block(r, d, strict)) } else { None } },
        10 => Stmt::Loop { body: gen_block(r, d, strict) },
        11 => {
            let n = r.below(3);
            Stmt::SwitchExpr {
                expr: gen_header(r, 1, strict, 0),
                cases: (0..n).map(|_| (gen_expr(r, 1, 0, strict), gen_block(r, d, strict))).collect(),
                default: if r.chance(1, 2) { Some(gen_block(r, d, strict)) } else { None },
            }
        }
        _ => {
            let n = r.below(3);
            Stmt::SwitchType {
                bind: if r.chance(1, 2) { Some("v".into()) } else { None },
                expr: gen_header(r, 1, strict, 7),
                cases: (0..n).map(|_| (gen_ty(r, 1, strict), gen_block(r, d, strict))).collect(),
                default: if r.chance(1, 2) { Some(gen_block(r, d, strict)) } else { None },
            }
        }
    }
}

fn gen_params(r: &mut Rng, strict: bool) -> Vec<(String, GoType)> {
    let n = r.below(4);
    (0..n).map(|i| (format!("a{}", i), gen_ty(r, 2, strict))).collect()
}

fn gen_item(r: &mut Rng, i: usize, strict: bool) -> Item {
    match i % 12 {
        0 => Item::Package(Package { name: "main".into() }),
        1 => {
            let n = r.below(4);
            Item::Import(ImportDecl {
                specs: (0..n).map(|k| ImportSpec { alias: if r.chance(1, 3) { Some(format!("al{}", k)) } else { None }, path: r.pick(&["fmt", "unicode/utf8", "os"]).to_string() }).collect(),
            })
        }
        2 => {
            let n = r.below(4);
            Item::Interface(Interface {
                name: r.pick(TYPES).to_string(),
                methods: (0..n).map(|k| MethodElem { name: format!("m{}", k), params: gen_params(r, strict), ret: if r.chance(1, 2) { Some(gen_ty(r, 2, strict)) } else { None } }).collect(),
            })
        }
        3 => {
            let n = r.below(4);
            let m = r.below(3);
            Item::Struct(Struct {
                name: r.pick(TYPES).to_string(),
                fields: (0..n).map(|k| Field { name: format!("_{}", k), ty: gen_ty(r, 2, strict) }).collect(),
                methods: (0..m)
                    .map(|k| Method { receiver: Receiver { name: "self".into(), ty: gen_ty(r, 1, strict) }, name: format!("m{}", k), params: gen_params(r, strict), body: gen_block(r, 2, strict) })
                    .collect(),
            })
        }
        4 => Item::TypeAlias(TypeAlias { name: r.pick(TYPES).to_string(), ty: gen_ty(r, 3, strict) }),
        5 | 6 => {
            // one long operator chain / one deep expression
            let (n1, n2) = (12 + r.below(30), 5 + r.below(3));
            let e = if i % 12 == 5 { gen_chain(r, n1, strict) } else { gen_expr(r, n2, 0, strict) };
            Item::Fn(Fn { name: "long".into(), params: vec![], ret_ty: None, body: Block { stmts: vec![Stmt::Expr(e)] } })
        }
        7 => {
            // deep statement nesting
            let dd = 4 + r.below(3);
            Item::Fn(Fn { name: "deep".into(), params: gen_params(r, strict), ret_ty: Some(gen_ty(r, 2, strict)), body: gen_block(r, dd, strict) })
        }
        8 => {
            let s = Expr::String { value: gen_string(r), ty: GoType::TString };
            Item::Fn(Fn { name: "strs".into(), params: vec![], ret_ty: None, body: Block { stmts: vec![Stmt::Expr(s), Stmt::Expr(Expr::Float { value: gen_float(r, strict), ty: GoType::TFloat64 }), Stmt::Expr(Expr::Float { value: gen_float(r, strict), ty: GoType::TFloat32 })] } })
        }
        _ => Item::Fn(Fn { name: format!("f{}", i), params: gen_params(r, strict), ret_ty: if r.chance(1, 2) { Some(gen_ty(r, 2, strict)) } else { None }, body: gen_block(r, 2, strict) }),
    }
}

fn synthetic(cx: &mut Ctx, args: &util::Args) {
    let goenv = GlobalGoEnv::default();
    let n = args.n.unwrap_or(if args.tier == "thorough" { 24000 } else { 2400 });
    for i in 0..n {
        let mut root = Rng::new(args.seed ^ 0x60_9911);
        let mut r = root.fork(i as u64);
        let strict = i % 2 == 0;
        let file = File { toplevels: vec![gen_item(&mut r, i / 2, strict)] };
        // the model-free reading of the text: parse it back (Go's lexical rules, precedence, composite-literal rule)
        let text = catch_unwind(AssertUnwindSafe(|| file.to_pretty(&goenv, 120))).unwrap_or_else(|_| PANIC.to_string());
        let verdict = match catch_unwind(AssertUnwindSafe(|| crate::goparse::parse_go(&text))) {
            Ok(Ok(parsed)) => {
                let erased = crate::goparse::erase_file(&file);
                if parsed == erased {
                    "ok".to_string()
                } else {
                    format!("diff {}", esc_line(&format!("{:?}", crate::goparse::first_diff(&erased, &parsed, &mut Vec::new())).chars().take(300).collect::<String>()))
                }
            }
            Ok(Err(e)) => format!("parse-error {}", esc_line(&e.chars().take(200).collect::<String>())),
            Err(_) => "parser-panic".to_string(),
        };
        emit_file(cx, &format!("syn:{}:{}:{}", args.seed, i, if strict { "strict" } else { "free" }), "SYN", &file, &goenv, &verdict);
    }
}

pub fn main(args: &util::Args) {
    util::quiet_panics();
    let mut cx = Ctx { seen: HashSet::new(), out: String::new(), items: 0, dup: 0 };
    let thorough = args.tier == "thorough";
    if let Some(pos) = args.rest.iter().position(|x| x == "--file") {
        let f = std::path::PathBuf::from(&args.rest[pos + 1]);
        let src = std::fs::read_to_string(&f).expect("read");
        let dir = util::scratch_dir("goppf");
        one(&mut cx, "replay", util::compile_text(&dir, &src), &src);
        let _ = std::fs::remove_dir_all(&dir);
        let _ = std::fs::create_dir_all(&args.out);
        std::fs::write(args.out.join("gopp.cases.tsv"), cx.out).unwrap();
        return;
    }
    // ---- the repository's corpus (single-file programs, then the package projects)
    for d in util::corpus_pipeline_dirs() {
        let path = d.join("main.gom");
        let Ok(src) = std::fs::read_to_string(&path) else { continue };
        let id = format!("repo:{}", d.file_name().unwrap().to_string_lossy());
        one(&mut cx, &id, util::compile_path(&path, &src), &src);
    }
    {
        let pk = util::repo_root().join("crates/compiler/src/tests/package");
        let mut dirs: Vec<_> = std::fs::read_dir(&pk)
            .map(|rd| rd.filter_map(|e| e.ok().map(|e| e.path())).filter(|p| p.join("main.gom").exists()).collect())
            .unwrap_or_default();
        dirs.sort();
        for d in dirs {
            let path = d.join("main.gom");
            let Ok(src) = std::fs::read_to_string(&path) else { continue };
            let id = format!("pkg:{}", d.file_name().unwrap().to_string_lossy());
            one(&mut cx, &id, util::compile_path(&path, &src), &src);
        }
    }
    // ---- generated multi-package projects
    {
        let dir = util::scratch_dir("goppm");
        for i in 0..(if thorough { 48 } else { 12 }) {
            let (files, main_src) = crate::c01::multi_package_project(i);
            let root = dir.join(format!("m{}", i));
            let _ = std::fs::remove_dir_all(&root);
            for (rel, text) in &files {
                let p = root.join(rel);
                std::fs::create_dir_all(p.parent().unwrap()).unwrap();
                std::fs::write(&p, text).unwrap();
            }
            one(&mut cx, &format!("multi:{}", i), util::compile_path(&root.join("main.gom"), &main_src), &main_src);
        }
        let _ = std::fs::remove_dir_all(&dir);
    }
    // ---- minimised past failures kept under /verif/corpus
    {
        let subs: Vec<_> = ["C01", "C01pipe", "C02", "C03", "C05", "C06", "C07", "C08", "C09", "C10", "C17", "C18", "DCE", "GOCOMP", "GOPP"]
            .iter()
            .map(|s| util::verif_root().join("corpus").join(s))
            .filter(|p| p.is_dir())
            .collect();
        let dir = util::scratch_dir("goppc");
        for sub in subs {
            let Ok(rd) = std::fs::read_dir(&sub) else { continue };
            let mut files: Vec<_> = rd.filter_map(|e| e.ok().map(|e| e.path())).filter(|p| p.extension().is_some_and(|x| x == "gom")).collect();
            files.sort();
            for f in files {
                let Ok(src) = std::fs::read_to_string(&f) else { continue };
                let id = format!("corpus:{}/{}", sub.file_name().unwrap().to_string_lossy(), f.file_name().unwrap().to_string_lossy());
                one(&mut cx, &id, util::compile_text(&dir, &src), &src);
            }
        }
        let _ = std::fs::remove_dir_all(&dir);
    }
    // ---- G-prog (the gocomp schedule of feature flags) and the closure programs
    let total = if thorough { 3000 } else { 300 };
    let dir = util::scratch_dir("gopp");
    for i in 0..total {
        let mut root = Rng::new(args.seed);
        let mut rng = root.fork(i as u64);
        let cfg = crate::progen::Cfg {
            closure_flows: i % 10 == 9,
            traits: i % 3 != 0,
            generics: i % 2 == 0,
            go_stmt: i % 7 == 3,
            max_depth: 1 + i % 3,
            effects: true,
            wildcard_arrays: i % 10 == 8,
            src_forms: i % 4 != 1,
            lit_field_effects: i % 20 == 7,
            nested_patterns: i % 4 == 1,
            rich_generics: i % 11 == 5,
            vec_generics: i % 13 == 6,
            dyn_generics: i % 17 == 4,
            cov_shapes: i % 6 == 4,
            ..Default::default()
        };
        let (src, _) = crate::progen::gen_program(&mut rng, cfg);
        one(&mut cx, &format!("gen:{}:{}", args.seed, i), util::compile_text(&dir, &src), &src);
    }
    for i in 0..(if thorough { 1500 } else { 150 }) {
        let mut root = Rng::new(args.seed ^ 0x5eed_c105);
        let mut rng = root.fork(i as u64);
        let mut flows = 0u32;
        for b in 0..6 {
            if rng.chance(2, 3) {
                flows |= 1 << b;
            }
        }
        let cfg = crate::progen::CloCfg { flows, nest: 1 + i % 4, stmts: 1 + i % 3 };
        let (src, _) = crate::progen::gen_closure_program(&mut rng, cfg);
        one(&mut cx, &format!("clo:{}:{}", args.seed, i), util::compile_text(&dir, &src), &src);
    }
    let _ = std::fs::remove_dir_all(&dir);
    // ---- synthetic ASTs
    synthetic(&mut cx, args);
    writeln!(cx.out, "#STATS\titems={} duplicates_skipped={}", cx.items, cx.dup).unwrap();
    let _ = std::fs::create_dir_all(&args.out);
    std::fs::write(args.out.join("gopp.cases.tsv"), cx.out).unwrap();
}
