//! Scope oracle over the REAL `goast::File` (no model involved): Go's declaration rules for the
//! emitted subset — one declaration per name and scope, legal identifiers, and every identifier
//! reference resolves (by Go's block scoping) to a declaration whose declared type is the type the
//! backend annotated the reference with.  Used by C19 (and C17 for callee extraction).
use compiler::go::{goast, goty::GoType};
use std::collections::{BTreeMap, HashMap};

/// Go spec keywords — written out from the specification, deliberately independent of mangle.rs
pub const GO_KEYWORDS: [&str; 25] = [
    "break", "case", "chan", "const", "continue", "default", "defer", "else", "fallthrough", "for",
    "func", "go", "goto", "if", "import", "interface", "map", "package", "range", "return", "select",
    "struct", "switch", "type", "var",
];

/// Go spec predeclared identifiers (universe block); the first 22 are the predeclared types
pub const GO_PREDECLARED: [&str; 44] = [
    "any", "bool", "byte", "comparable", "complex64", "complex128", "error", "float32", "float64",
    "int", "int8", "int16", "int32", "int64", "rune", "string", "uint", "uint8", "uint16", "uint32",
    "uint64", "uintptr", "true", "false", "iota", "nil", "append", "cap", "clear", "close", "complex",
    "copy", "delete", "imag", "len", "make", "max", "min", "new", "panic", "print", "println", "real",
    "recover",
];

pub fn is_legal_ident(s: &str) -> bool {
    let mut cs = s.chars();
    match cs.next() {
        Some(c) if c == '_' || c.is_alphabetic() => {}
        _ => return false,
    }
    cs.all(|c| c == '_' || c.is_alphanumeric()) && !GO_KEYWORDS.contains(&s)
}

#[derive(Debug, Clone)]
pub struct Failure {
    pub kind: &'static str,
    pub name: String,
    pub detail: String,
}

#[derive(Debug, Clone, PartialEq)]
enum DeclTy {
    Val(String),                      // local / param: Debug text of its GoType
    Func(Vec<String>, Option<String>), // top-level function signature
    Type,
    Import,
}

struct Decl {
    kind: &'static str, // fn, struct, interface, alias, import, param, local, bind
    ty: DeclTy,
    refs: usize,
}

#[derive(Default)]
pub struct Report {
    pub failures: Vec<Failure>,
    pub toplevel: Vec<(String, &'static str)>,
    pub locals: Vec<String>,
    pub universe_refs: BTreeMap<String, usize>,
    pub shadowing: usize,
    /// sorted "kind:refs" per declaration — invariant under a consistent renaming of identifiers
    pub shape: Vec<String>,
    pub n_refs: usize,
    /// (caller function, callee name) for every call whose callee is a plain identifier
    pub calls: Vec<(String, String)>,
    /// (enclosing function, name) for every identifier reference that is not a local
    pub global_refs: Vec<(String, String)>,
}

fn ty_key(t: &GoType) -> String {
    format!("{:?}", t)
}

struct Walker<'a> {
    decls: Vec<Decl>,
    package: HashMap<String, usize>,
    scopes: Vec<HashMap<String, usize>>,
    rep: Report,
    cur_fn: String,
    in_dyn_item: bool,
    /// predeclared identifiers the backend emits by name (from the translator's table)
    relied: &'a [String],
}

impl<'a> Walker<'a> {
    fn fail(&mut self, kind: &'static str, name: &str, detail: String) {
        self.rep.failures.push(Failure { kind, name: name.to_string(), detail });
    }

    fn check_legal(&mut self, name: &str, site: &str) {
        let ok = if site == "ref" || site == "type" {
            // qualified identifiers pkg.Name
            let parts: Vec<&str> = name.split('.').collect();
            parts.len() <= 2 && parts.iter().all(|p| is_legal_ident(p)) && name != "_"
        } else {
            is_legal_ident(name)
        };
        if !ok {
            self.fail("illegal-identifier", name, format!("site={} in {}", site, self.cur_fn));
        }
    }

    fn declare_local(&mut self, name: &str, kind: &'static str, ty: &GoType) {
        self.check_legal(name, "decl");
        let id = self.decls.len();
        self.decls.push(Decl { kind, ty: DeclTy::Val(ty_key(ty)), refs: 0 });
        if name == "_" {
            return;
        }
        self.rep.locals.push(name.to_string());
        let depth = self.scopes.len();
        if self.scopes[..depth - 1].iter().any(|s| s.contains_key(name)) {
            self.rep.shadowing += 1;
        }
        let cur_fn = self.cur_fn.clone();
        let scope = self.scopes.last_mut().unwrap();
        if scope.contains_key(name) {
            self.rep.failures.push(Failure {
                kind: "local-duplicate",
                name: name.to_string(),
                detail: format!("{} declared twice in one scope of {}", name, cur_fn),
            });
        }
        scope.insert(name.to_string(), id);
    }

    fn ty(&mut self, t: &GoType) {
        match t {
            GoType::TName { name } => {
                self.check_legal(name, "type");
                if let Some(&id) = self.package.get(name) {
                    self.decls[id].refs += 1;
                    self.rep.n_refs += 1;
                    if self.decls[id].ty != DeclTy::Type {
                        self.fail("type-name-resolves-to-non-type", name, format!("in {}", self.cur_fn));
                    } else if self.relied.iter().any(|r| r == name) && GO_PREDECLARED[..22].contains(&name.as_str()) && self.in_dyn_item {
                        self.fail(
                            "predeclared-type-captured",
                            name,
                            format!("`{}` in compiler-generated {} now denotes a user type", name, self.cur_fn),
                        );
                    }
                } else if !name.contains('.') {
                    *self.rep.universe_refs.entry(name.clone()).or_default() += 1;
                    if !GO_PREDECLARED.contains(&name.as_str()) {
                        self.fail("undeclared-type", name, format!("in {}", self.cur_fn));
                    }
                } else {
                    let pkg = name.split('.').next().unwrap();
                    self.qualifier(pkg);
                }
            }
            GoType::TStruct { fields, .. } => {
                for (_, t) in fields {
                    self.ty(t);
                }
            }
            GoType::TPointer { elem } | GoType::TArray { elem, .. } | GoType::TSlice { elem } => self.ty(elem),
            GoType::TFunc { params, ret_ty } => {
                for p in params {
                    self.ty(p);
                }
                self.ty(ret_ty);
            }
            _ => {}
        }
    }

    fn qualifier(&mut self, pkg: &str) {
        // innermost declaration of the qualifier must be the import
        for s in self.scopes.iter().rev() {
            if s.contains_key(pkg) {
                self.fail("package-name-captured", pkg, format!("local shadows package in {}", self.cur_fn));
                return;
            }
        }
        match self.package.get(pkg) {
            Some(&id) => {
                self.decls[id].refs += 1;
                self.rep.n_refs += 1;
                if self.decls[id].ty != DeclTy::Import {
                    self.fail("package-name-captured", pkg, format!("`{}.` no longer denotes the import in {}", pkg, self.cur_fn));
                }
            }
            None => self.fail("undeclared-package", pkg, format!("in {}", self.cur_fn)),
        }
    }

    fn var_ref(&mut self, name: &str, ty: &GoType, callee: bool) {
        self.check_legal(name, "ref");
        self.rep.n_refs += 1;
        if let Some((pkg, _)) = name.split_once('.') {
            self.qualifier(pkg);
            return;
        }
        for depth in (0..self.scopes.len()).rev() {
            if let Some(&id) = self.scopes[depth].get(name) {
                self.decls[id].refs += 1;
                let want = ty_key(ty);
                // a type-switch bind deliberately re-declares the scrutinee with the case type
                let mut same = self.decls[id].kind == "bind" || matches!(&self.decls[id].ty, DeclTy::Val(t) if *t == want);
                // the backend looks types up by name too, so a captured callee can carry the local's
                // own type: a called local that is not of function type while a package-level
                // function of that name exists is a capture whatever the annotation says
                if callee && self.package.contains_key(name) && !matches!(&self.decls[id].ty, DeclTy::Val(t) if t.starts_with("TFunc")) {
                    same = false;
                }
                if !same && (self.package.contains_key(name) || GO_PREDECLARED.contains(&name)) {
                    let meant = if self.package.contains_key(name) { "a package-level declaration" } else { "a predeclared identifier" };
                    let detail = format!(
                        "reference `{}` annotated {} resolves to the local of type {:?} in {}; {} of that name was meant",
                        name, want, self.decls[id].ty, self.cur_fn, meant
                    );
                    self.fail("captured-by-local", name, detail);
                } else if !same {
                    let detail = format!("reference `{}` annotated {} resolves to a local of type {:?} in {}", name, want, self.decls[id].ty, self.cur_fn);
                    self.fail("local-type-mismatch", name, detail);
                }
                return;
            }
        }
        let cur = self.cur_fn.clone();
        self.rep.global_refs.push((cur, name.to_string()));
        if let Some(&id) = self.package.get(name) {
            self.decls[id].refs += 1;
            let ok = match (&self.decls[id].ty, ty) {
                (DeclTy::Func(ps, r), GoType::TFunc { params, ret_ty }) => {
                    let ps2: Vec<String> = params.iter().map(ty_key).collect();
                    let r2 = match ret_ty.as_ref() {
                        GoType::TVoid => None,
                        t => Some(ty_key(t)),
                    };
                    // a call in statement position is annotated with a void result whatever the callee returns
                    *ps == ps2 && (*r == r2 || r2.is_none())
                }
                _ => false,
            };
            // the backend's annotations on package-level functions are approximate (wildcard array
            // lengths, closure apply functions, polymorphic `missing`), so a mismatch is only
            // evidence of capture when the name is one the universe block also defines
            if !ok && GO_PREDECLARED.contains(&name) {
                let kind = "predeclared-captured-by-toplevel";
                let detail = format!(
                    "reference `{}` annotated {} in {} resolves to the package-level {} {:?}",
                    name, ty_key(ty), self.cur_fn, self.decls[id].kind, self.decls[id].ty
                );
                self.fail(kind, name, detail);
            }
            return;
        }
        *self.rep.universe_refs.entry(name.to_string()).or_default() += 1;
        if !GO_PREDECLARED.contains(&name) {
            self.fail("undeclared-identifier", name, format!("in {}", self.cur_fn));
        }
    }

    fn expr(&mut self, e: &goast::Expr) {
        use goast::Expr::*;
        match e {
            Nil { ty } | Void { ty } | Unit { ty } | Bool { ty, .. } | Int { ty, .. } | Float { ty, .. } | String { ty, .. } => self.ty(ty),
            Var { name, ty } => {
                self.var_ref(name, ty, false);
            }
            Call { func, args, ty } => {
                if let Var { name, .. } = func.as_ref() {
                    let caller = self.cur_fn.clone();
                    self.rep.calls.push((caller, name.clone()));
                }
                if let Var { name, ty } = func.as_ref() {
                    self.var_ref(name, ty, true);
                } else {
                    self.expr(func);
                }
                for a in args {
                    self.expr(a);
                }
                self.ty(ty);
            }
            UnaryOp { expr, .. } => self.expr(expr),
            BinaryOp { lhs, rhs, .. } => {
                self.expr(lhs);
                self.expr(rhs);
            }
            FieldAccess { obj, field, .. } => {
                self.expr(obj);
                self.check_legal(field, "field");
            }
            Index { array, index, .. } => {
                self.expr(array);
                self.expr(index);
            }
            Cast { expr, ty } => {
                self.expr(expr);
                self.ty(ty);
            }
            StructLiteral { fields, ty } => {
                self.ty(ty);
                let mut seen = Vec::new();
                for (n, e) in fields {
                    self.check_legal(n, "field");
                    if seen.contains(n) {
                        self.fail("field-duplicate", n, format!("struct literal in {}", self.cur_fn));
                    }
                    seen.push(n.clone());
                    self.expr(e);
                }
            }
            ArrayLiteral { elems, ty } => {
                self.ty(ty);
                for e in elems {
                    self.expr(e);
                }
            }
            Block { stmts, expr, .. } => {
                self.scopes.push(HashMap::new());
                for s in stmts {
                    self.stmt(s);
                }
                if let Some(e) = expr {
                    self.expr(e);
                }
                self.scopes.pop();
            }
        }
    }

    fn block(&mut self, b: &goast::Block) {
        self.scopes.push(HashMap::new());
        for s in &b.stmts {
            self.stmt(s);
        }
        self.scopes.pop();
    }

    fn stmt(&mut self, s: &goast::Stmt) {
        use goast::Stmt::*;
        match s {
            Expr(e) => self.expr(e),
            Go { call } => self.expr(call),
            VarDecl { name, ty, value } => {
                // the scope of the new name starts after the declaration
                if let Some(v) = value {
                    self.expr(v);
                }
                self.ty(ty);
                self.declare_local(name, "local", ty);
            }
            Assignment { name, value } => {
                self.expr(value);
                self.check_legal(name, "ref");
                let mut found = false;
                for depth in (0..self.scopes.len()).rev() {
                    if let Some(&id) = self.scopes[depth].get(name.as_str()) {
                        self.decls[id].refs += 1;
                        found = true;
                        break;
                    }
                }
                self.rep.n_refs += 1;
                if !found {
                    self.fail("assignment-to-non-local", name, format!("in {}", self.cur_fn));
                }
            }
            FieldAssign { target, value } => {
                self.expr(target);
                self.expr(value);
            }
            PointerAssign { pointer, value } => {
                self.expr(pointer);
                self.expr(value);
            }
            IndexAssign { array, index, value } => {
                self.expr(array);
                self.expr(index);
                self.expr(value);
            }
            Return { expr } => {
                if let Some(e) = expr {
                    self.expr(e);
                }
            }
            If { cond, then, else_ } => {
                self.expr(cond);
                self.block(then);
                if let Some(b) = else_ {
                    self.block(b);
                }
            }
            Loop { body } => self.block(body),
            Break => {}
            SwitchExpr { expr, cases, default } => {
                self.expr(expr);
                for (v, b) in cases {
                    self.expr(v);
                    self.block(b);
                }
                if let Some(b) = default {
                    self.block(b);
                }
            }
            SwitchType { bind, expr, cases, default } => {
                self.expr(expr);
                for (t, b) in cases {
                    self.ty(t);
                    self.scopes.push(HashMap::new());
                    if let Some(bn) = bind {
                        self.declare_local(bn, "bind", t);
                    }
                    self.block(b);
                    self.scopes.pop();
                }
                if let Some(b) = default {
                    self.block(b);
                }
            }
        }
    }
}

pub fn check(file: &goast::File, relied: &[String]) -> Report {
    let mut w = Walker {
        decls: Vec::new(),
        package: HashMap::new(),
        scopes: Vec::new(),
        rep: Report::default(),
        cur_fn: String::new(),
        in_dyn_item: false,
        relied,
    };
    // pass 1: package scope
    for item in &file.toplevels {
        let entries: Vec<(String, &'static str, DeclTy)> = match item {
            goast::Item::Package(_) => vec![],
            goast::Item::Import(d) => d
                .specs
                .iter()
                .map(|s| {
                    let n = s.alias.clone().unwrap_or_else(|| s.path.rsplit('/').next().unwrap_or(&s.path).to_string());
                    (n, "import", DeclTy::Import)
                })
                .collect(),
            goast::Item::Interface(i) => vec![(i.name.clone(), "interface", DeclTy::Type)],
            goast::Item::Struct(s) => vec![(s.name.clone(), "struct", DeclTy::Type)],
            goast::Item::TypeAlias(t) => vec![(t.name.clone(), "alias", DeclTy::Type)],
            goast::Item::Fn(f) => vec![(
                f.name.clone(),
                "fn",
                DeclTy::Func(f.params.iter().map(|(_, t)| ty_key(t)).collect(), f.ret_ty.as_ref().map(ty_key)),
            )],
        };
        for (name, kind, ty) in entries {
            w.cur_fn = "<package>".to_string();
            if kind != "import" {
                w.check_legal(&name, "decl");
            }
            let id = w.decls.len();
            w.decls.push(Decl { kind, ty, refs: 0 });
            w.rep.toplevel.push((name.clone(), kind));
            if let Some(&prev) = w.package.get(&name) {
                let pk = w.decls[prev].kind;
                w.fail("toplevel-duplicate", &name, format!("{}/{}", pk, kind));
            } else {
                w.package.insert(name, id);
            }
        }
    }
    // pass 2: bodies
    for item in &file.toplevels {
        match item {
            goast::Item::Interface(i) => {
                w.cur_fn = format!("interface {}", i.name);
                let mut seen: Vec<&str> = Vec::new();
                for m in &i.methods {
                    w.check_legal(&m.name, "decl");
                    if seen.contains(&m.name.as_str()) {
                        w.fail("method-duplicate", &m.name, format!("interface {}", i.name));
                    }
                    seen.push(&m.name);
                    for (_, t) in &m.params {
                        w.ty(t);
                    }
                    if let Some(t) = &m.ret {
                        w.ty(t);
                    }
                }
            }
            goast::Item::Struct(s) => {
                w.cur_fn = format!("struct {}", s.name);
                w.in_dyn_item = s.name.starts_with("dyn__");
                let mut seen: Vec<&str> = Vec::new();
                for f in &s.fields {
                    w.check_legal(&f.name, "decl");
                    if seen.contains(&f.name.as_str()) {
                        w.fail("field-duplicate", &f.name, format!("struct {}", s.name));
                    }
                    seen.push(&f.name);
                    w.ty(&f.ty);
                }
                let mut mseen: Vec<&str> = Vec::new();
                for m in &s.methods {
                    w.check_legal(&m.name, "decl");
                    if mseen.contains(&m.name.as_str()) || seen.contains(&m.name.as_str()) {
                        w.fail("method-duplicate", &m.name, format!("struct {}", s.name));
                    }
                    mseen.push(&m.name);
                    w.cur_fn = format!("method {}.{}", s.name, m.name);
                    w.scopes.push(HashMap::new());
                    w.ty(&m.receiver.ty);
                    w.declare_local(&m.receiver.name, "param", &m.receiver.ty);
                    for (p, t) in &m.params {
                        w.ty(t);
                        w.declare_local(p, "param", t);
                    }
                    for st in &m.body.stmts {
                        w.stmt(st);
                    }
                    w.scopes.pop();
                }
                w.in_dyn_item = false;
            }
            goast::Item::TypeAlias(t) => {
                w.cur_fn = format!("alias {}", t.name);
                w.ty(&t.ty);
            }
            goast::Item::Fn(f) => {
                w.cur_fn = f.name.clone();
                w.in_dyn_item = f.name.starts_with("dyn__");
                w.scopes.push(HashMap::new());
                for (p, t) in &f.params {
                    w.ty(t);
                    w.declare_local(p, "param", t);
                }
                if let Some(t) = &f.ret_ty {
                    w.ty(t);
                }
                // parameters and the outermost body block share one scope in Go
                for st in &f.body.stmts {
                    w.stmt(st);
                }
                w.scopes.pop();
                w.in_dyn_item = false;
            }
            _ => {}
        }
    }
    let mut shape: Vec<String> = w.decls.iter().map(|d| format!("{}:{}", d.kind, d.refs)).collect();
    for (_, c) in w.rep.universe_refs.iter() {
        shape.push(format!("universe:{}", c));
    }
    shape.sort();
    w.rep.shape = shape;
    w.rep
}
