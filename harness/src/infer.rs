//! `gv infer`: whole programs run through the REAL typer with the `verif_set_fn_observer` hook installed; for every
//! top-level function of package Main the HIR body (the model's input) and what the real typer did with it
//! (constraint queue, diagnostics, recorded expression types before `solve`, the store after `solve`, final types).
//!     P<k> TAB PROG TAB <source> TAB <verdict> TAB <ok | ill:kind> TAB <messages>
//!     P<k>.<fn> TAB INF TAB (fn …) TAB (result …)
//!     P<k>.<fn> TAB SKIP TAB <kind of the first HIR node outside the fragment | leftover-queue>
//! (`leftover-queue`: the function started with constraints that `solve` left over from an earlier, rejected function)
//!     #COV TAB key=value;…
//! The rows of the fixed prelude functions are written for P0 only (they are the same in every program).
//! Every random choice derives from `--seed`.
use crate::dump;
use crate::rng::Rng;
use crate::sexp::{S, a, esc_line, l, n, tagged};
use crate::unify::{self as U, Cov};
use crate::util::{self, Outcome};
use compiler::env::{Constraint, PackageTypeEnv};
use compiler::hir;
use compiler::tast::{TastIdent, Ty};
use compiler::typer::Typer;
use parser::Diagnostics;
use std::cell::RefCell;
use std::collections::BTreeMap;
use std::panic::{AssertUnwindSafe, catch_unwind};
use std::rc::Rc;

const PRELUDE: &str = r#"struct P { x: int32, y: bool }
struct Bx[T] { v: T }
fn inc(a: int32) -> int32 { a + 1 }
fn isz(a: int32) -> bool { a == 0 }
fn cat(a: string, b: string) -> string { a + b }
fn id[T](x: T) -> T { x }
fn fst[A, B](p: (A, B)) -> A { p.0 }
fn twice[T](f: (T) -> T, x: T) -> T { f(f(x)) }
fn konst[A, B](a: A, b: B) -> A { a }
fn same[T](a: T, b: T) -> T { a }
fn mkp(a: int32, b: bool) -> P { P { x: a, y: b } }
fn mkbx[T](v: T) -> Bx[T] { Bx { v: v } }
"#;

const PRELUDE_FNS: [&str; 10] = ["inc", "isz", "cat", "id", "fst", "twice", "konst", "same", "mkp", "mkbx"];

pub const ILL_KINDS: [&str; 19] = [
    "arg-type",
    "arity",
    "unknown-field",
    "field-on-nonstruct",
    "branch-mismatch",
    "cond-not-bool",
    "proj-oob",
    "proj-non-tuple",
    "unknown-name",
    "call-non-function",
    "let-annot",
    "result-mismatch",
    "op-operand",
    "match-arm",
    "pattern-type",
    "generic-conflict",
    "closure-arg",
    "closure-arity",
    // an operator on two operands of one type that has no such operation (`b + b`, `-s`, `t < t`): the typer's operator
    // rules only equate types, so this kind is ACCEPTED by the real typer (and by the whole pipeline)
    "op-class",
];

// ------------------------------------------------------------------------------------------------
// generator

#[derive(Clone, PartialEq, Debug)]
enum T {
    I,
    B,
    S,
    U,
    Tup(Vec<T>),
    Fun(Vec<T>, Box<T>),
    P,
    Bx(Box<T>),
    /// the type parameter `T` of a generic generated function
    Par,
}

impl T {
    fn src(&self) -> String {
        match self {
            T::I => "int32".to_string(),
            T::B => "bool".to_string(),
            T::S => "string".to_string(),
            T::U => "unit".to_string(),
            T::Tup(ts) => format!("({})", ts.iter().map(|t| t.src()).collect::<Vec<_>>().join(", ")),
            T::Fun(ps, r) => format!("({}) -> {}", ps.iter().map(|t| t.src()).collect::<Vec<_>>().join(", "), r.src()),
            T::P => "P".to_string(),
            T::Bx(t) => format!("Bx[{}]", t.src()),
            T::Par => "T".to_string(),
        }
    }
    fn is_fun(&self) -> bool {
        matches!(self, T::Fun(..))
    }
}

fn tib() -> T {
    T::Tup(vec![T::I, T::B])
}
fn bxi() -> T {
    T::Bx(Box::new(T::I))
}

#[derive(Clone)]
struct Var {
    name: String,
    ty: T,
    /// the real typer has the type in this very shape while it generates constraints (a projection needs that)
    known: bool,
}

/// a generated expression: text, whether it can stand as an operand / callee / base without parentheses, whether
/// the real typer gives it its type directly (not through a fresh variable)
struct E {
    s: String,
    atomic: bool,
    direct: bool,
}

fn atom(s: impl Into<String>) -> E {
    E { s: s.into(), atomic: true, direct: false }
}
fn open(s: impl Into<String>) -> E {
    E { s: s.into(), atomic: false, direct: false }
}

impl E {
    fn op(&self) -> String {
        if self.atomic { self.s.clone() } else { format!("({})", self.s) }
    }
}

#[derive(Clone)]
struct FnSig {
    name: String,
    generic: bool,
    ret: T,
}

struct Gen {
    rng: Rng,
    scope: Vec<Var>,
    next: usize,
    generic: bool,
    fuel: i32,
    plant: Option<&'static str>,
    target: usize,
    sites: usize,
    planted: bool,
    earlier: Vec<FnSig>,
    notes: Vec<&'static str>,
    /// no `if` / `match` below this point (a `while` condition that contains a `match` panics in the Go back end)
    no_branch: bool,
}

fn g_params() -> Vec<Var> {
    let v = |nm: &str, ty: T| Var { name: nm.to_string(), ty, known: true };
    vec![v("a", T::I), v("b", T::B), v("s", T::S), v("t", tib()), v("p", T::P), v("q", bxi())]
}

fn eligible(kind: &str, ty: &T) -> bool {
    match kind {
        "arg-type" | "arity" => matches!(ty, T::I | T::B | T::S),
        "op-operand" => matches!(ty, T::I | T::B),
        "result-mismatch" => false,
        _ => true,
    }
}

impl Gen {
    fn new(rng: Rng, generic: bool, earlier: &[FnSig]) -> Gen {
        let scope = if generic {
            vec![
                Var { name: "x".to_string(), ty: T::Par, known: true },
                Var { name: "f".to_string(), ty: T::Fun(vec![T::Par], Box::new(T::Par)), known: true },
            ]
        } else {
            g_params()
        };
        Gen { rng, scope, next: 0, generic, fuel: 0, plant: None, target: usize::MAX, sites: 0, planted: false, earlier: earlier.to_vec(), notes: Vec::new(), no_branch: false }
    }
    fn note(&mut self, k: &'static str) {
        self.notes.push(k);
    }
    fn fresh(&mut self, p: &str) -> String {
        self.next += 1;
        format!("{}{}", p, self.next)
    }
    fn pick_w(&mut self, alts: &[(u32, &'static str)]) -> &'static str {
        let total: u32 = alts.iter().map(|x| x.0).sum();
        let mut k = self.rng.below(total as usize) as u32;
        for (w, nm) in alts {
            if k < *w {
                return nm;
            }
            k -= *w;
        }
        alts[0].1
    }
    fn scalar(&mut self) -> T {
        match self.rng.below(10) {
            0..=4 => T::I,
            5..=7 => T::B,
            _ => T::S,
        }
    }
    fn other_scalar(&mut self, ty: &T) -> T {
        let c: Vec<T> = [T::I, T::B, T::S].into_iter().filter(|x| x != ty).collect();
        self.rng.pick(&c).clone()
    }
    /// the type of a `let`-bound value
    fn small_ty(&mut self) -> T {
        match self.rng.below(20) {
            0..=6 => T::I,
            7..=10 => T::B,
            11..=12 => T::S,
            13 => T::U,
            14..=15 => {
                let (x, y) = (self.scalar(), self.scalar());
                T::Tup(vec![x, y])
            }
            16 => T::P,
            17 => T::Bx(Box::new(self.scalar())),
            18 => T::Tup(vec![T::I, tib()]),
            _ => {
                if self.generic {
                    T::Par
                } else {
                    T::I
                }
            }
        }
    }
    fn vars_of(&self, ty: &T) -> Vec<String> {
        self.scope.iter().filter(|v| v.ty == *ty).map(|v| v.name.clone()).collect()
    }

    // ---- leaves
    fn lit(&mut self, ty: &T) -> E {
        match ty {
            T::I => E { s: self.rng.below(100).to_string(), atomic: true, direct: true },
            T::B => E { s: if self.rng.chance(1, 2) { "true" } else { "false" }.to_string(), atomic: true, direct: true },
            T::S => E { s: format!("\"s{}\"", self.rng.below(10)), atomic: true, direct: true },
            T::U => E { s: "()".to_string(), atomic: true, direct: true },
            T::Tup(ts) => {
                let parts: Vec<String> = ts.iter().map(|t| self.leaf(t).s).collect();
                E { s: format!("({})", parts.join(", ")), atomic: true, direct: true }
            }
            T::P => {
                let (x, y) = (self.leaf(&T::I).s, self.leaf(&T::B).s);
                atom(format!("mkp({}, {})", x, y))
            }
            T::Bx(t) => {
                let x = self.leaf(t).s;
                atom(format!("mkbx({})", x))
            }
            T::Fun(ps, r) => {
                if !self.generic && ps.len() == 1 && ps[0] == T::I && self.rng.chance(1, 3) {
                    if **r == T::I {
                        self.note("fn_name_as_value");
                        return atom("inc");
                    }
                    if **r == T::B {
                        self.note("fn_name_as_value");
                        return atom("isz");
                    }
                }
                self.closure(ps, r, 0, true)
            }
            T::Par => atom("x"),
        }
    }
    fn leaf(&mut self, ty: &T) -> E {
        let vs = self.vars_of(ty);
        if !vs.is_empty() && (self.rng.chance(7, 10) || *ty == T::Par) {
            let nm = self.rng.pick(&vs).clone();
            let known = self.scope.iter().rev().find(|v| v.name == nm).is_some_and(|v| v.known);
            return E { s: nm, atomic: true, direct: known };
        }
        self.lit(ty)
    }

    /// `|z, …| body`; the parameters are annotated when `annot` (a closure that is not checked against a function
    /// type needs that, or a use that fixes the parameter types)
    fn closure(&mut self, ps: &[T], r: &T, d: usize, annot: bool) -> E {
        let mark = self.scope.len();
        let mut names = Vec::new();
        for p in ps {
            let z = self.fresh("z");
            names.push(if annot { format!("{}: {}", z, p.src()) } else { z.clone() });
            self.scope.push(Var { name: z, ty: p.clone(), known: annot });
        }
        self.note(if annot { "closure_annotated" } else { "closure_unannotated" });
        let body = if d > 0 && self.rng.chance(1, 4) {
            self.note("closure_body_block");
            self.braces(r, d, 1)
        } else {
            self.ex(r, d).s
        };
        self.scope.truncate(mark);
        open(format!("|{}| {}", names.join(", "), body))
    }

    // ---- statements
    fn stmt(&mut self, d: usize) -> String {
        let k = self.pick_w(&[(6, "let"), (4, "let_ann"), (1, "let_wild"), (3, "let_tuple"), (3, "let_closure"), (1, "while"), (1, "expr_stmt"), (1, "let_genval"), (1, "let_ann_closure")]);
        match k {
            "let" => {
                self.note("let_plain");
                let t = self.small_ty();
                let e = self.ex(&t, d);
                let v = self.fresh("v");
                self.scope.push(Var { name: v.clone(), ty: t, known: e.direct });
                format!("let {} = {};", v, e.s)
            }
            "let_ann" => {
                self.note("let_annotated");
                let t = self.small_ty();
                let e = self.ex(&t, d);
                let v = self.fresh("v");
                let s = format!("let {}: {} = {};", v, t.src(), e.s);
                self.scope.push(Var { name: v, ty: t, known: true });
                s
            }
            "let_wild" => {
                self.note("let_wild");
                let t = self.small_ty();
                let e = self.ex(&t, d);
                format!("let _ = {};", e.s)
            }
            "let_tuple" => {
                self.note("let_tuple_pattern");
                let (t1, t2) = (self.scalar(), self.scalar());
                let nested = self.rng.chance(1, 4);
                let ty = if nested { T::Tup(vec![t1.clone(), T::Tup(vec![t2.clone(), T::B])]) } else { T::Tup(vec![t1.clone(), t2.clone()]) };
                let ann = self.rng.chance(1, 4);
                let e = self.ex(&ty, d);
                let known = e.direct || ann;
                let u = self.fresh("v");
                let w = self.fresh("v");
                let pat = if nested {
                    format!("({}, ({}, _))", u, w)
                } else {
                    match self.rng.below(4) {
                        0 => format!("({}, _)", u),
                        1 => format!("(_, {})", w),
                        _ => format!("({}, {})", u, w),
                    }
                };
                if pat.contains(&u) {
                    self.scope.push(Var { name: u, ty: t1, known });
                }
                if pat.contains(&w) {
                    self.scope.push(Var { name: w, ty: t2, known });
                }
                if ann { format!("let {}: {} = {};", pat, ty.src(), e.s) } else { format!("let {} = {};", pat, e.s) }
            }
            "let_closure" => {
                // a closure bound by `let` and called right away (the call fixes the parameter types)
                self.note("let_closure_then_call");
                let np = if self.rng.chance(1, 4) { 2 } else { 1 };
                let ps: Vec<T> = (0..np).map(|_| self.scalar()).collect();
                let r = self.small_ty();
                let r = if r.is_fun() { T::I } else { r };
                let annot = self.rng.chance(1, 3);
                let c = self.closure(&ps, &r, d, annot);
                let f = self.fresh("k");
                let args: Vec<String> = ps.iter().map(|p| self.ex(p, d.saturating_sub(1)).s).collect();
                let v = self.fresh("v");
                let s = format!("let {} = {}; let {} = {}({});", f, c.s, v, f, args.join(", "));
                self.scope.push(Var { name: f, ty: T::Fun(ps, Box::new(r.clone())), known: false });
                self.scope.push(Var { name: v, ty: r, known: false });
                s
            }
            "let_ann_closure" => {
                // check-mode closure: the annotation gives the parameter types
                self.note("let_annotated_closure");
                let p = self.scalar();
                let r = self.scalar();
                let annot = self.rng.chance(1, 4);
                let c = self.closure(std::slice::from_ref(&p), &r, d, annot);
                let f = self.fresh("k");
                let ty = T::Fun(vec![p], Box::new(r));
                let s = format!("let {}: {} = {};", f, ty.src(), c.s);
                self.scope.push(Var { name: f, ty, known: true });
                s
            }
            "let_genval" => {
                // a generic function used as a value, then called once
                self.note("generic_fn_as_value");
                let t = self.scalar();
                let e = self.ex(&t, d);
                let k = self.fresh("k");
                let v = self.fresh("v");
                let s = if self.rng.chance(2, 3) {
                    format!("let {} = id; let {} = {}({});", k, v, k, e.s)
                } else {
                    let o = self.scalar();
                    let e2 = self.leaf(&o);
                    format!("let {} = konst; let {} = {}({}, {});", k, v, k, e.s, e2.s)
                };
                self.scope.push(Var { name: v, ty: t, known: false });
                s
            }
            "while" => {
                self.note("while");
                let w = self.while_loop(d);
                format!("{};", w)
            }
            _ => {
                self.note("expr_stmt");
                let t = self.small_ty();
                let e = self.ex(&t, d);
                format!("{};", e.op())
            }
        }
    }

    fn while_loop(&mut self, d: usize) -> String {
        let saved = self.no_branch;
        self.no_branch = true;
        let c = self.ex(&T::B, d.min(2));
        self.no_branch = saved;
        let mark = self.scope.len();
        let k = self.rng.below(3);
        let stmts: Vec<String> = (0..k).map(|_| self.stmt(d.saturating_sub(1))).collect();
        self.scope.truncate(mark);
        format!("while {} {{ {} () }}", c.op(), stmts.join(" "))
    }

    /// `{ stmts e }`
    fn braces(&mut self, ty: &T, d: usize, min_stmts: usize) -> String {
        let mark = self.scope.len();
        let k = min_stmts + if self.rng.chance(1, 2) { 0 } else { self.rng.below(3) };
        let stmts: Vec<String> = (0..k).map(|_| self.stmt(d)).collect();
        let e = self.ex(ty, d);
        self.scope.truncate(mark);
        if stmts.is_empty() { format!("{{ {} }}", e.s) } else { format!("{{ {} {} }}", stmts.join(" "), e.s) }
    }

    fn pattern_arms(&mut self, ty: &T, d: usize) -> E {
        let st = match self.rng.below(10) {
            0..=3 => T::I,
            4..=5 => T::B,
            6..=7 => T::S,
            _ => tib(),
        };
        let scrut = self.ex(&st, d);
        let mut arms: Vec<String> = Vec::new();
        let arm = |g: &mut Gen, pat: String, binds: Vec<(String, T)>| -> String {
            let mark = g.scope.len();
            for (nm, t) in binds {
                g.scope.push(Var { name: nm, ty: t, known: false });
            }
            let body = if d > 0 && g.rng.chance(1, 3) {
                g.note("arm_body_block");
                g.braces(ty, d, 1)
            } else {
                g.ex(ty, d).s
            };
            g.scope.truncate(mark);
            format!("{} => {}", pat, body)
        };
        match &st {
            T::I => {
                self.note("match_int");
                for _ in 0..(1 + self.rng.below(2)) {
                    let k = self.rng.below(10);
                    arms.push(arm(self, k.to_string(), vec![]));
                }
            }
            T::B => {
                self.note("match_bool");
                let k = if self.rng.chance(1, 2) { "true" } else { "false" };
                arms.push(arm(self, k.to_string(), vec![]));
            }
            T::S => {
                self.note("match_string");
                for _ in 0..(1 + self.rng.below(2)) {
                    let k = self.rng.below(10);
                    arms.push(arm(self, format!("\"s{}\"", k), vec![]));
                }
            }
            _ => {
                self.note("match_tuple");
                if self.rng.chance(2, 3) {
                    let k = self.rng.below(10);
                    let bl = if self.rng.chance(1, 2) { "true" } else { "_" };
                    arms.push(arm(self, format!("({}, {})", k, bl), vec![]));
                }
                if self.rng.chance(2, 3) {
                    let u = self.fresh("m");
                    if self.rng.chance(1, 2) {
                        arms.push(arm(self, format!("({}, false)", u), vec![(u.clone(), T::I)]));
                    } else {
                        let w = self.fresh("m");
                        arms.push(arm(self, format!("({}, {})", u, w), vec![(u.clone(), T::I), (w.clone(), T::B)]));
                    }
                }
            }
        }
        // the last arm: a variable or `_`
        if self.rng.chance(1, 2) {
            let u = self.fresh("m");
            self.note("match_last_arm_var");
            arms.push(arm(self, u.clone(), vec![(u, st.clone())]));
        } else {
            arms.push(arm(self, "_".to_string(), vec![]));
        }
        open(format!("match {} {{ {} }}", scrut.op(), arms.join(", ")))
    }

    // ---- expressions
    fn ex(&mut self, ty: &T, d: usize) -> E {
        if let Some(kind) = self.plant {
            if !self.planted && !self.generic && eligible(kind, ty) {
                let here = self.sites;
                self.sites += 1;
                if here == self.target {
                    self.planted = true;
                    let s = self.plant_expr(kind, ty);
                    return atom(format!("({})", s));
                }
            }
        }
        self.fuel -= 1;
        if d == 0 || self.fuel <= 0 {
            return self.leaf(ty);
        }
        let d1 = d - 1;
        if let T::Fun(ps, r) = ty {
            let (ps, r) = (ps.clone(), (**r).clone());
            return if self.rng.chance(1, 3) { self.leaf(ty) } else { self.closure(&ps, &r, d1, true) };
        }
        let mut alts: Vec<(u32, &'static str)> =
            vec![(7, "leaf"), (5, "if"), (4, "match"), (2, "id"), (2, "konst"), (2, "fst"), (2, "twice"), (2, "proj_lit"), (2, "bx_field"), (2, "clos_imm"), (1, "same")];
        let callable: Vec<Var> = self.scope.iter().filter(|v| matches!(&v.ty, T::Fun(_, r) if **r == *ty)).cloned().collect();
        if !callable.is_empty() {
            alts.push((5, "call_var"));
        }
        let tvars: Vec<(String, usize)> = self
            .scope
            .iter()
            .filter(|v| v.known)
            .filter_map(|v| match &v.ty {
                T::Tup(ts) => ts.iter().position(|t| t == ty).map(|i| (v.name.clone(), i)),
                _ => None,
            })
            .collect();
        if !tvars.is_empty() {
            alts.push((4, "proj_var"));
        }
        let fns: Vec<FnSig> = self.earlier.iter().filter(|f| f.generic || f.ret == *ty).cloned().collect();
        if !fns.is_empty() && !self.generic {
            alts.push((2, "call_gen"));
        }
        match ty {
            T::I => alts.extend([(9, "arith"), (2, "neg"), (3, "inc"), (3, "field_p"), (2, "field_q")]),
            T::B => alts.extend([(3, "not"), (4, "logic"), (6, "cmp"), (2, "eqv"), (3, "isz"), (2, "field_p")]),
            T::S => alts.extend([(5, "cat"), (4, "sadd")]),
            T::U => alts.extend([(8, "while")]),
            T::Tup(_) => alts.push((10, "tuple")),
            T::P => alts.push((8, "mkp")),
            T::Bx(_) => alts.push((8, "mkbx")),
            T::Par => alts.extend([(8, "par_f"), (4, "par_twice")]),
            T::Fun(..) => {}
        }
        if self.no_branch {
            alts.retain(|x| x.1 != "if" && x.1 != "match");
        }
        let k = self.pick_w(&alts);
        self.note(k);
        match k {
            "leaf" => self.leaf(ty),
            "if" => {
                let c = self.ex(&T::B, d1);
                let t = self.braces(ty, d1, 0);
                let e = self.braces(ty, d1, 0);
                open(format!("if {} {} else {}", c.op(), t, e))
            }
            "match" => self.pattern_arms(ty, d1),
            "id" => {
                let e = self.ex(ty, d1);
                if self.rng.chance(1, 4) {
                    self.note("nested_generic_call");
                    atom(format!("id(id({}))", e.s))
                } else {
                    atom(format!("id({})", e.s))
                }
            }
            "konst" => {
                let e = self.ex(ty, d1);
                let o = self.small_ty();
                let e2 = self.ex(&o, d1);
                atom(format!("konst({}, {})", e.s, e2.s))
            }
            "same" => {
                let e = self.ex(ty, d1);
                let e2 = self.ex(ty, d1);
                atom(format!("same({}, {})", e.s, e2.s))
            }
            "fst" => {
                let e = self.ex(ty, d1);
                let o = self.scalar();
                let e2 = self.ex(&o, d1);
                if self.rng.chance(1, 4) {
                    self.note("nested_generic_call");
                    atom(format!("fst(id(({}, {})))", e.s, e2.s))
                } else {
                    atom(format!("fst(({}, {}))", e.s, e2.s))
                }
            }
            "twice" => {
                let annot = self.rng.chance(1, 4);
                let c = self.closure(std::slice::from_ref(ty), ty, d1, annot);
                let e = self.ex(ty, d1);
                atom(format!("twice({}, {})", c.s, e.s))
            }
            "proj_lit" => {
                let e = self.ex(ty, d1);
                let o = self.scalar();
                let e2 = self.ex(&o, d1);
                if self.rng.chance(1, 2) { atom(format!("({}, {}).0", e.s, e2.s)) } else { atom(format!("({}, {}).1", e2.s, e.s)) }
            }
            "proj_var" => {
                let (nm, i) = self.rng.pick(&tvars).clone();
                atom(format!("{}.{}", nm, i))
            }
            "bx_field" => {
                let e = self.ex(ty, d1);
                atom(format!("mkbx({}).v", e.s))
            }
            "clos_imm" => {
                let p = self.scalar();
                let annot = self.rng.chance(1, 3);
                let c = self.closure(std::slice::from_ref(&p), ty, d1, annot);
                let arg = self.ex(&p, d1);
                atom(format!("({})({})", c.s, arg.s))
            }
            "call_var" => {
                let v = self.rng.pick(&callable).clone();
                let T::Fun(ps, _) = &v.ty else { return self.leaf(ty) };
                let args: Vec<String> = ps.iter().map(|p| self.ex(p, d1).s).collect();
                atom(format!("{}({})", v.name, args.join(", ")))
            }
            "call_gen" => {
                let f = self.rng.pick(&fns).clone();
                if f.generic {
                    let e = self.ex(ty, d1);
                    let annot = self.rng.chance(1, 4);
                    let c = self.closure(std::slice::from_ref(ty), ty, d1, annot);
                    atom(format!("{}({}, {})", f.name, e.s, c.s))
                } else {
                    let args: Vec<String> = [T::I, T::B, T::S, tib(), T::P, bxi()].iter().map(|p| self.leaf(p).s).collect();
                    atom(format!("{}({})", f.name, args.join(", ")))
                }
            }
            "arith" => {
                let op = *self.rng.pick(&["+", "+", "-", "*", "/"]);
                let (x, y) = (self.ex(&T::I, d1), self.ex(&T::I, d1));
                open(format!("{} {} {}", x.op(), op, y.op()))
            }
            "neg" => {
                let x = self.ex(&T::I, d1);
                open(format!("-{}", x.op()))
            }
            "inc" => {
                let x = self.ex(&T::I, d1);
                atom(format!("inc({})", x.s))
            }
            "field_p" => {
                let f = if *ty == T::I { "x" } else { "y" };
                let vs = self.vars_of(&T::P);
                if !vs.is_empty() && self.rng.chance(2, 3) {
                    let nm = self.rng.pick(&vs).clone();
                    atom(format!("{}.{}", nm, f))
                } else {
                    let (x, y) = (self.ex(&T::I, d1), self.ex(&T::B, d1));
                    atom(format!("mkp({}, {}).{}", x.s, y.s, f))
                }
            }
            "field_q" => {
                let vs = self.vars_of(&bxi());
                if !vs.is_empty() {
                    let nm = self.rng.pick(&vs).clone();
                    atom(format!("{}.v", nm))
                } else {
                    let x = self.ex(&T::I, d1);
                    atom(format!("mkbx({}).v", x.s))
                }
            }
            "not" => {
                let x = self.ex(&T::B, d1);
                open(format!("!{}", x.op()))
            }
            "logic" => {
                let op = *self.rng.pick(&["&&", "||"]);
                let (x, y) = (self.ex(&T::B, d1), self.ex(&T::B, d1));
                open(format!("{} {} {}", x.op(), op, y.op()))
            }
            "cmp" => {
                let op = *self.rng.pick(&["<", ">", "<=", ">=", "==", "!="]);
                let (x, y) = (self.ex(&T::I, d1), self.ex(&T::I, d1));
                open(format!("{} {} {}", x.op(), op, y.op()))
            }
            "eqv" => {
                let op = *self.rng.pick(&["==", "!="]);
                let t = if self.rng.chance(1, 2) { T::B } else { T::S };
                let (x, y) = (self.ex(&t, d1), self.ex(&t, d1));
                open(format!("{} {} {}", x.op(), op, y.op()))
            }
            "isz" => {
                let x = self.ex(&T::I, d1);
                atom(format!("isz({})", x.s))
            }
            "cat" => {
                let (x, y) = (self.ex(&T::S, d1), self.ex(&T::S, d1));
                atom(format!("cat({}, {})", x.s, y.s))
            }
            "sadd" => {
                let (x, y) = (self.ex(&T::S, d1), self.ex(&T::S, d1));
                open(format!("{} + {}", x.op(), y.op()))
            }
            "while" => open(self.while_loop(d1)),
            "tuple" => {
                let T::Tup(ts) = ty else { return self.leaf(ty) };
                let parts: Vec<String> = ts.iter().map(|t| self.ex(t, d1).s).collect();
                E { s: format!("({})", parts.join(", ")), atomic: true, direct: true }
            }
            "mkp" => {
                let (x, y) = (self.ex(&T::I, d1), self.ex(&T::B, d1));
                atom(format!("mkp({}, {})", x.s, y.s))
            }
            "mkbx" => {
                let T::Bx(t) = ty else { return self.leaf(ty) };
                let x = self.ex(t, d1);
                atom(format!("mkbx({})", x.s))
            }
            "par_f" => {
                let x = self.ex(&T::Par, d1);
                atom(format!("f({})", x.s))
            }
            "par_twice" => {
                let x = self.ex(&T::Par, d1);
                if self.rng.chance(1, 2) {
                    atom(format!("twice(f, {})", x.s))
                } else {
                    let annot = self.rng.chance(1, 3);
                    let c = self.closure(&[T::Par], &T::Par, d1, annot);
                    atom(format!("twice({}, {})", c.s, x.s))
                }
            }
            _ => self.leaf(ty),
        }
    }

    /// one ill-typed fragment of the kind, ill-typed by itself (whatever the context expects); only the parameters
    /// a, b, s, t, p, q of a `gN` function are referred to by name (generated locals never shadow them)
    fn plant_expr(&mut self, kind: &str, ty: &T) -> String {
        let o = self.other_scalar(ty);
        let e = self.leaf(ty).s;
        let eo = self.leaf(&o).s;
        let r = self.rng.below(3);
        match kind {
            "arg-type" => match (ty, r) {
                (T::I, 0) => "inc(true)".to_string(),
                (T::I, 1) => "inc(\"k\")".to_string(),
                (T::I, _) => "mkp(a, 3).x".to_string(),
                (T::B, 0) => "isz(b)".to_string(),
                (T::B, _) => "isz(\"k\")".to_string(),
                (_, 0) => "cat(s, 1)".to_string(),
                (_, _) => "cat(true, s)".to_string(),
            },
            "arity" => match (ty, r) {
                (T::I, 0) => "inc()".to_string(),
                (T::I, 1) => "inc(a, 1)".to_string(),
                (T::I, _) => format!("konst({})", e),
                (T::B, 0) => "isz()".to_string(),
                (T::B, 1) => "isz(a, a)".to_string(),
                (T::B, _) => format!("id({}, {})", e, e),
                (_, 0) => "cat(s)".to_string(),
                (_, 1) => "cat(s, s, s)".to_string(),
                (_, _) => format!("fst({}, {})", e, e),
            },
            "unknown-field" => ["p.zz", "q.w", "mkp(1, true).z"][r].to_string(),
            "field-on-nonstruct" => ["a.x", "s.v", "b.y"][r].to_string(),
            "branch-mismatch" => match r {
                0 => "if b { 1 } else { true }".to_string(),
                _ => format!("if b {{ {} }} else {{ {} }}", e, eo),
            },
            "cond-not-bool" => match (ty, r) {
                (T::U, 0) => "while 1 { () }".to_string(),
                (_, 1) => format!("if s {{ {} }} else {{ {} }}", e, e),
                _ => format!("if 1 {{ {} }} else {{ {} }}", e, e),
            },
            "proj-oob" => ["t.5", "t.2", "(a, b).2"][r].to_string(),
            "proj-non-tuple" => ["a.0", "s.1", "p.0"][r].to_string(),
            "unknown-name" => ["zzz", "zzz(a)", "zzz + 1"][r].to_string(),
            "call-non-function" => ["a(1)", "s()", "b(true)"][r].to_string(),
            "let-annot" => match r {
                0 => format!("if b {{ let w: bool = 1; {} }} else {{ {} }}", e, e),
                1 => format!("match a {{ _ => {{ let w: int32 = s; {} }} }}", e),
                _ => format!("if b {{ {} }} else {{ let w: (int32, bool) = (a, a); {} }}", e, e),
            },
            "op-operand" => match (ty, r) {
                (T::I, 0) => "1 + true".to_string(),
                (T::I, _) => "a * s".to_string(),
                (_, 0) => "!3".to_string(),
                (_, 1) => "b && 1".to_string(),
                (_, _) => "a < s".to_string(),
            },
            "match-arm" => match r {
                0 => "match a { 0 => 1, _ => true }".to_string(),
                _ => format!("match b {{ true => {}, _ => {} }}", e, eo),
            },
            "pattern-type" => match r {
                0 => format!("match a {{ true => {}, _ => {} }}", e, e),
                1 => format!("match s {{ 0 => {}, _ => {} }}", e, e),
                _ => format!("match t {{ (m1, m2, m3) => {}, _ => {} }}", e, e),
            },
            "generic-conflict" => match r {
                0 => "same(1, true)".to_string(),
                _ => format!("same({}, {})", e, eo),
            },
            "closure-arg" => match r {
                0 => "twice(|z| z + 1, true)".to_string(),
                1 => "twice(|z| inc(z), \"k\")".to_string(),
                _ => format!("twice(|z: {}| z, {})", ty.src(), eo),
            },
            "closure-arity" => match r {
                0 => format!("if b {{ let kk = |z| z; kk({}, {}) }} else {{ {} }}", e, eo, e),
                1 => format!("match a {{ _ => {{ let kk = |z, y| z; kk({}) }} }}", e),
                _ => format!("(|z| z)({}, {})", e, eo),
            },
            "op-class" => match (ty, r) {
                (T::I, 0) => "(p * p).x".to_string(),
                (T::I, 1) => "fst((a, s / s))".to_string(),
                (T::I, _) => "konst(a, -s)".to_string(),
                (T::B, 0) => "b < b".to_string(),
                (T::B, 1) => "b + b".to_string(),
                (T::B, _) => "t <= t".to_string(),
                (T::S, 0) => "s - s".to_string(),
                (T::S, 1) => "-s".to_string(),
                (T::S, _) => "s * s".to_string(),
                (T::U, 0) => "() + ()".to_string(),
                (T::P, 0) => "p - p".to_string(),
                (_, 0) => format!("konst({}, -b)", e),
                (_, 1) => format!("konst({}, p / p)", e),
                (_, _) => format!("konst({}, b >= b)", e), // ordering on strings is legitimate (valid Go); on bool it is not
            },
            _ => "zzz".to_string(),
        }
    }
}

struct GenFn {
    src: String,
    sig: FnSig,
    notes: Vec<&'static str>,
    /// the ill fragment went in as a leading `let _ = …;` because the body had no site for it
    fallback: bool,
}

const RETS: [fn() -> T; 9] = [|| T::I, || T::I, || T::I, || T::B, || T::B, || T::S, || T::U, tib, || T::P];

fn gen_fn(rng: &mut Rng, idx: usize, generic: bool, earlier: &[FnSig], ill: Option<&'static str>) -> GenFn {
    let base = rng.fork(idx as u64);
    let mut pre = base.clone();
    let ret = if generic {
        T::Par
    } else if pre.chance(1, 12) {
        bxi()
    } else {
        RETS[pre.below(RETS.len())]()
    };
    let fuel = 3 + pre.below(11) as i32;
    let depth = 3 + pre.below(2);
    let name = format!("{}{}", if generic { "h" } else { "g" }, idx);
    // the type the body is generated at
    let body_ty = if ill == Some("result-mismatch") {
        let c: Vec<T> = [T::I, T::B, T::S, T::U, tib()].into_iter().filter(|x| *x != ret).collect();
        pre.pick(&c).clone()
    } else {
        ret.clone()
    };
    let run = |target: usize, plant: Option<&'static str>| -> (String, Gen) {
        let mut g = Gen::new(base.clone().fork(77), generic, earlier);
        g.fuel = fuel;
        g.plant = plant;
        g.target = target;
        let mark = g.scope.len();
        let k = g.rng.below(3);
        let stmts: Vec<String> = (0..k).map(|_| g.stmt(depth - 1)).collect();
        let e = g.ex(&body_ty, depth);
        g.scope.truncate(mark);
        let body = if stmts.is_empty() { e.s } else { format!("{} {}", stmts.join(" "), e.s) };
        (body, g)
    };
    let plant = ill.filter(|k| *k != "result-mismatch");
    let (mut body, mut g) = run(usize::MAX, plant);
    let mut fallback = false;
    if let Some(kind) = plant {
        if g.sites > 0 {
            let target = pre.below(g.sites);
            let (b2, g2) = run(target, plant);
            body = b2;
            g = g2;
        }
        if !g.planted {
            fallback = true;
            let frag = g.plant_expr(kind, &T::I);
            body = format!("let _ = {}; {}", frag, body);
        }
    }
    let params = if generic { "x: T, f: (T) -> T".to_string() } else { g_params().iter().map(|v| format!("{}: {}", v.name, v.ty.src())).collect::<Vec<_>>().join(", ") };
    let src = format!("fn {}{}({}) -> {} {{ {} }}\n", name, if generic { "[T]" } else { "" }, params, ret.src(), body);
    GenFn { src, sig: FnSig { name, generic, ret }, notes: g.notes, fallback }
}

struct Program {
    src: String,
    expect: String,
    fns: Vec<String>,
    notes: Vec<&'static str>,
    fallback: bool,
}

fn gen_program(seed: u64, k: usize) -> Program {
    let mut root = Rng::new(seed ^ 0x1f3e);
    let mut rng = root.fork(k as u64);
    // the kinds in rotation (every kind gets its share), 40 % of the programs
    let ill: Option<&'static str> = if rng.chance(40, 100) { Some(ILL_KINDS[(k + rng.below(3)) % ILL_KINDS.len()]) } else { None };
    let nf = 2 + rng.below(3);
    let generic: Vec<bool> = (0..nf).map(|i| i > 0 && rng.chance(1, 4)).collect();
    let cands: Vec<usize> = (0..nf).filter(|i| !generic[*i]).collect();
    let ill_at = *rng.pick(&cands);
    let mut src = PRELUDE.to_string();
    let mut sigs: Vec<FnSig> = Vec::new();
    let mut notes = Vec::new();
    let mut fallback = false;
    for i in 0..nf {
        let f = gen_fn(&mut rng, i, generic[i], &sigs, if i == ill_at { ill } else { None });
        src.push_str(&f.src);
        notes.extend(f.notes);
        fallback |= f.fallback;
        sigs.push(f.sig);
    }
    src.push_str("fn main() -> unit { () }\n");
    Program { src, expect: ill.map(|k| format!("ill:{}", k)).unwrap_or_else(|| "ok".to_string()), fns: sigs.into_iter().map(|s| s.name).collect(), notes, fallback }
}

// ------------------------------------------------------------------------------------------------
// the HIR body as the model's input

struct Walk<'a> {
    table: &'a hir::HirTable,
    genv: &'a PackageTypeEnv,
    tparams: &'a [TastIdent],
    ids: Vec<hir::ExprId>,
    names: Vec<String>,
    kinds: BTreeMap<&'static str, u64>,
    unsupported: Option<String>,
    check_closures: u64,
}

fn bin_name(op: common_defs::BinaryOp) -> &'static str {
    use common_defs::BinaryOp as B;
    match op {
        B::Add => "add",
        B::Sub => "sub",
        B::Mul => "mul",
        B::Div => "div",
        B::And => "and",
        B::Or => "or",
        B::Less => "less",
        B::Greater => "greater",
        B::LessEq => "lesseq",
        B::GreaterEq => "greatereq",
        B::Eq => "eq",
        B::NotEq => "noteq",
    }
}

impl<'a> Walk<'a> {
    fn bad(&mut self, kind: &str) -> S {
        if self.unsupported.is_none() {
            self.unsupported = Some(kind.to_string());
        }
        a("?")
    }
    fn kind(&mut self, k: &'static str) {
        *self.kinds.entry(k).or_insert(0) += 1;
    }
    fn name(&mut self, nm: &str) {
        if !self.names.iter().any(|x| x == nm) {
            self.names.push(nm.to_string());
        }
    }
    fn ty_of(&self, t: &hir::TypeExpr) -> S {
        dump::ty(&compiler::typer::verif_ty_from_hir(self.genv, t, self.tparams))
    }
    fn lit<X: std::str::FromStr>(&mut self, id: u32, value: &str, ty: Ty, kind: &'static str) -> S {
        if value.parse::<X>().is_ok() {
            self.kind(kind);
            tagged("lit", vec![n(id), dump::ty(&ty)])
        } else {
            self.bad("int-literal-out-of-range")
        }
    }
    fn pat(&mut self, id: hir::PatId) -> S {
        match self.table.pat(id).clone() {
            hir::Pat::PVar { name, .. } => {
                self.kind("pat_var");
                tagged("pvar", vec![n(name.idx)])
            }
            hir::Pat::PWild => {
                self.kind("pat_wild");
                tagged("pwild", vec![])
            }
            hir::Pat::PUnit => {
                self.kind("pat_unit");
                tagged("punit", vec![])
            }
            hir::Pat::PBool { .. } => {
                self.kind("pat_bool");
                tagged("pbool", vec![])
            }
            hir::Pat::PInt { .. } => {
                self.kind("pat_int");
                tagged("pint", vec![])
            }
            hir::Pat::PString { .. } => {
                self.kind("pat_string");
                tagged("pstr", vec![])
            }
            hir::Pat::PTuple { pats } => {
                self.kind("pat_tuple");
                tagged("ptuple", pats.iter().map(|p| self.pat(*p)).collect())
            }
            hir::Pat::PConstr { constructor, args } => {
                let Some(info) = self.ctor_info(&constructor) else { return self.bad("PConstr-qualified") };
                // a struct constructor used with tuple-pattern syntax is a diagnostic of its own ("must use field syntax")
                if let S::L(items) = &info {
                    if items.first() == Some(&a("ctor")) {
                        let is_struct = match &constructor {
                            hir::ConstructorRef::Resolved(_) => false,
                            _ => true,
                        };
                        if is_struct {
                            return self.bad("PConstr-unresolved");
                        }
                    }
                }
                self.kind("pat_constr");
                let mut v = vec![info];
                v.extend(args.iter().map(|p| self.pat(*p)));
                tagged("pconstr", v)
            }
            hir::Pat::PStruct { name, fields } => {
                // a struct pattern that names every field exactly once is a constructor pattern in declared field order
                let tn = name.display();
                if tn.contains("::") {
                    return self.bad("PStruct-qualified");
                }
                let Some(def) = self.genv.current().structs().get(&TastIdent(tn.clone())) else { return self.bad("PStruct-unknown") };
                let names: Vec<String> = def.fields.iter().map(|(f, _)| f.0.clone()).collect();
                let mut ordered = Vec::new();
                for nm in names.iter() {
                    let hits: Vec<_> = fields.iter().filter(|(f, _)| f.to_ident_name() == *nm).collect();
                    if hits.len() != 1 {
                        return self.bad("PStruct-irregular");
                    }
                    ordered.push(hits[0].1);
                }
                if fields.len() != names.len() {
                    return self.bad("PStruct-irregular");
                }
                let Some((_, cty)) = self.genv.current().lookup_constructor(&TastIdent(tn)) else { return self.bad("PStruct-unknown") };
                self.kind("pat_struct");
                let mut v = vec![tagged("ctor", vec![dump::ty(&cty), n(names.len())])];
                v.extend(ordered.into_iter().map(|p| self.pat(p)));
                tagged("pconstr", v)
            }
            hir::Pat::PInt8 { value } => self.tint(&value, Ty::TInt8, -(1i128 << 7), (1i128 << 7) - 1),
            hir::Pat::PInt16 { value } => self.tint(&value, Ty::TInt16, -(1i128 << 15), (1i128 << 15) - 1),
            hir::Pat::PInt32 { value } => self.tint(&value, Ty::TInt32, -(1i128 << 31), (1i128 << 31) - 1),
            hir::Pat::PInt64 { value } => self.tint(&value, Ty::TInt64, -(1i128 << 63), (1i128 << 63) - 1),
            hir::Pat::PUInt8 { value } => self.tint(&value, Ty::TUint8, 0, (1i128 << 8) - 1),
            hir::Pat::PUInt16 { value } => self.tint(&value, Ty::TUint16, 0, (1i128 << 16) - 1),
            hir::Pat::PUInt32 { value } => self.tint(&value, Ty::TUint32, 0, (1i128 << 32) - 1),
            hir::Pat::PUInt64 { value } => self.tint(&value, Ty::TUint64, 0, (1i128 << 64) - 1),
        }
    }
    /// an integer literal pattern with a suffix; only in-range literals (an out-of-range one adds a parse diagnostic)
    fn tint(&mut self, value: &str, ty: Ty, lo: i128, hi: i128) -> S {
        match value.replace('_', "").parse::<i128>() {
            Ok(v) if v >= lo && v <= hi => {
                self.kind("pat_typed_int");
                tagged("ptint", vec![dump::ty(&ty)])
            }
            _ => self.bad("typed-int-pattern-range"),
        }
    }
    /// what `infer_constructor_expr` finds for the written constructor: `(ctor constructor-type arity)` / `(noctor)` / `(ambiguous)`
    fn ctor_info(&mut self, cref: &hir::ConstructorRef) -> Option<S> {
        let path = match cref {
            hir::ConstructorRef::Resolved(hir::ConstructorId::EnumVariant { enum_def, variant_idx }) => {
                let hir::Def::EnumDef(ed) = self.table.def(*enum_def) else { return None };
                let (vname, _) = ed.variants.get(*variant_idx as usize)?;
                let mut segs = self.table.def_path(*enum_def).segments.clone();
                segs.push(hir::PathSegment::new(vname.to_ident_name()));
                hir::Path::new(segs)
            }
            hir::ConstructorRef::Unresolved(p) => p.clone(),
            hir::ConstructorRef::Ambiguous { .. } => return Some(tagged("ambiguous", vec![])),
        };
        let variant = compiler::tast::TastIdent(path.last_ident()?.clone());
        let ns = path.namespace_segments();
        let env = self.genv.current();
        let found = if ns.is_empty() {
            env.lookup_constructor_with_namespace(None, &variant)
        } else {
            let name = ns.iter().map(|x| x.seg().clone()).collect::<Vec<_>>().join("::");
            if name.contains("::") {
                return None; // a qualified type name: another package
            }
            env.lookup_constructor_with_namespace(Some(&compiler::tast::TastIdent(name)), &variant)
        };
        Some(match found {
            None => tagged("noctor", vec![]),
            Some((c, cty)) => {
                let arity = match &c {
                    compiler::common::Constructor::Enum(ec) => env.enums().get(&ec.type_name)?.variants.get(ec.index)?.1.len(),
                    compiler::common::Constructor::Struct(sc) => env.structs().get(&sc.type_name)?.fields.len(),
                };
                tagged("ctor", vec![dump::ty(&cty), n(arity)])
            }
        })
    }
    fn expr(&mut self, id: hir::ExprId) -> S {
        self.ids.push(id);
        let i = id.idx;
        match self.table.expr(id).clone() {
            hir::Expr::ENameRef { res, hint, .. } => {
                let r = match res {
                    hir::NameRef::Local(x) => {
                        self.kind("name_local");
                        tagged("local", vec![n(x.idx)])
                    }
                    hir::NameRef::Def(_) => {
                        if hint.contains("::") {
                            return self.bad("qualified-name");
                        }
                        self.kind("name_def");
                        self.name(&hint);
                        tagged("def", vec![a(&hint)])
                    }
                    hir::NameRef::Builtin(_) => {
                        if hint.contains("::") {
                            return self.bad("qualified-name");
                        }
                        self.kind("name_builtin");
                        self.name(&hint);
                        tagged("builtin", vec![a(&hint)])
                    }
                    hir::NameRef::Unresolved(path) => {
                        self.kind("name_unresolved");
                        if path.len() == 1 {
                            let nm = path.last_ident().cloned().unwrap_or_default();
                            if nm.contains("::") {
                                return self.bad("qualified-name");
                            }
                            self.name(&nm);
                            tagged("unres", vec![a(&nm)])
                        } else {
                            tagged("unres", vec![])
                        }
                    }
                };
                tagged("name", vec![n(i), r])
            }
            hir::Expr::EStaticMember { .. } => self.bad("EStaticMember"),
            hir::Expr::EUnit => {
                self.kind("lit_unit");
                tagged("lit", vec![n(i), dump::ty(&Ty::TUnit)])
            }
            hir::Expr::EBool { .. } => {
                self.kind("lit_bool");
                tagged("lit", vec![n(i), dump::ty(&Ty::TBool)])
            }
            hir::Expr::EInt { value } | hir::Expr::EInt32 { value } => self.lit::<i32>(i, &value, Ty::TInt32, "lit_int"),
            hir::Expr::EInt8 { value } => self.lit::<i8>(i, &value, Ty::TInt8, "lit_int"),
            hir::Expr::EInt16 { value } => self.lit::<i16>(i, &value, Ty::TInt16, "lit_int"),
            hir::Expr::EInt64 { value } => self.lit::<i64>(i, &value, Ty::TInt64, "lit_int"),
            hir::Expr::EUInt8 { value } => self.lit::<u8>(i, &value, Ty::TUint8, "lit_int"),
            hir::Expr::EUInt16 { value } => self.lit::<u16>(i, &value, Ty::TUint16, "lit_int"),
            hir::Expr::EUInt32 { value } => self.lit::<u32>(i, &value, Ty::TUint32, "lit_int"),
            hir::Expr::EUInt64 { value } => self.lit::<u64>(i, &value, Ty::TUint64, "lit_int"),
            hir::Expr::EString { .. } => {
                self.kind("lit_string");
                tagged("lit", vec![n(i), dump::ty(&Ty::TString)])
            }
            hir::Expr::EFloat { value } => {
                if value.is_finite() {
                    self.kind("lit_float");
                    tagged("lit", vec![n(i), dump::ty(&Ty::TFloat64)])
                } else {
                    self.bad("float-literal-not-finite")
                }
            }
            hir::Expr::EFloat32 { .. } => self.bad("EFloat32"),
            hir::Expr::EFloat64 { .. } => self.bad("EFloat64"),
            hir::Expr::EConstr { constructor, args } => {
                let Some(info) = self.ctor_info(&constructor) else { return self.bad("EConstr-qualified") };
                self.kind("constr");
                let mut v = vec![n(i), info];
                v.extend(args.iter().map(|e| self.expr(*e)));
                tagged("constr", v)
            }
            hir::Expr::EStructLiteral { name, fields } => {
                let tn = name.display();
                if tn.contains("::") {
                    return self.bad("EStructLiteral-qualified");
                }
                let info = match self.genv.current().lookup_constructor(&TastIdent(tn.clone())) {
                    None => None,
                    Some((compiler::common::Constructor::Struct(sc), cty)) => {
                        let Some(def) = self.genv.current().structs().get(&sc.type_name) else { return self.bad("EStructLiteral-irregular") };
                        Some((cty, def.fields.iter().map(|(f, _)| f.0.clone()).collect::<Vec<String>>()))
                    }
                    Some(_) => return self.bad("EStructLiteral-enum"),
                };
                let mut v = vec![n(i)];
                let mut idxs = vec![a("idxs")];
                match &info {
                    None => v.push(tagged("noctor", vec![])),
                    Some((cty, names)) => {
                        // every declared field written exactly once, nothing else
                        if fields.len() != names.len() {
                            return self.bad("EStructLiteral-irregular");
                        }
                        for (f, _) in fields.iter() {
                            let nm = f.to_ident_name();
                            let Some(k) = names.iter().position(|x| *x == nm) else { return self.bad("EStructLiteral-irregular") };
                            if fields.iter().filter(|(g, _)| g.to_ident_name() == nm).count() != 1 {
                                return self.bad("EStructLiteral-irregular");
                            }
                            idxs.push(n(k));
                        }
                        v.push(tagged("ctor", vec![dump::ty(cty), n(names.len())]));
                    }
                }
                self.kind("struct_literal");
                v.push(l(idxs));
                if info.is_some() {
                    v.extend(fields.iter().map(|(_, e)| self.expr(*e)));
                }
                tagged("slit", v)
            }
            hir::Expr::EArray { items } => {
                self.kind("array");
                let mut v = vec![n(i)];
                v.extend(items.iter().map(|e| self.expr(*e)));
                tagged("array", v)
            }
            hir::Expr::EGo { .. } => self.bad("EGo"),
            hir::Expr::ETuple { items } => {
                self.kind("tuple");
                let mut v = vec![n(i)];
                v.extend(items.iter().map(|e| self.expr(*e)));
                tagged("tuple", v)
            }
            hir::Expr::EClosure { params, body } => {
                self.kind("closure");
                let ps: Vec<S> = params
                    .iter()
                    .map(|p| match &p.ty {
                        None => l(vec![n(p.name.idx)]),
                        Some(t) => l(vec![n(p.name.idx), self.ty_of(t)]),
                    })
                    .collect();
                if params.iter().any(|p| p.ty.is_some()) {
                    self.kind("closure_param_annotated");
                }
                let b = self.expr(body);
                tagged("closure", vec![n(i), tagged("params", ps), b])
            }
            hir::Expr::ELet { pat, annotation, value } => {
                self.kind("let");
                let p = self.pat(pat);
                let ann = match &annotation {
                    Some(t) => {
                        self.kind("let_annotated");
                        if matches!(self.table.expr(value), hir::Expr::EClosure { .. }) {
                            self.check_closures += 1;
                        }
                        tagged("ann", vec![self.ty_of(t)])
                    }
                    None => tagged("noann", vec![]),
                };
                let v = self.expr(value);
                tagged("let", vec![n(i), p, ann, v])
            }
            hir::Expr::EBlock { exprs } => {
                self.kind("block");
                let mut v = vec![n(i)];
                v.extend(exprs.iter().map(|e| self.expr(*e)));
                tagged("block", v)
            }
            hir::Expr::EIf { cond, then_branch, else_branch } => {
                self.kind("if");
                let (c, t, e) = (self.expr(cond), self.expr(then_branch), self.expr(else_branch));
                tagged("if", vec![n(i), c, t, e])
            }
            hir::Expr::EWhile { cond, body } => {
                self.kind("while");
                let (c, b) = (self.expr(cond), self.expr(body));
                tagged("while", vec![n(i), c, b])
            }
            hir::Expr::ECall { func, args } => {
                self.kind("call");
                match self.table.expr(func) {
                    hir::Expr::EStaticMember { path, .. } => {
                        // `T::m(args)` with `T` a type of this package (not a trait, not qualified): the inherent branch
                        let ns = path.namespace_segments();
                        let Some(member) = path.last_ident().cloned() else { return self.bad("call-of-EStaticMember") };
                        if path.len() != 2 || ns.len() != 1 {
                            return self.bad("call-of-EStaticMember-qualified");
                        }
                        let tn = ns[0].seg().clone();
                        if tn.contains("::") || self.genv.current().trait_env.trait_defs.contains_key(&tn) {
                            return self.bad("call-of-EStaticMember-trait");
                        }
                        self.kind("call_static_inherent");
                        self.ids.push(func);
                        let mut v = vec![n(i), n(func.idx), a(&tn), a(&member)];
                        v.extend(args.iter().map(|e| self.expr(*e)));
                        return tagged("scall", v);
                    }
                    hir::Expr::EField { expr: recv, field } => {
                        self.kind("call_method");
                        self.ids.push(func);
                        let recv = *recv;
                        let name = field.to_ident_name();
                        let mut v = vec![n(i), n(func.idx), self.expr(recv), a(&name)];
                        v.extend(args.iter().map(|e| self.expr(*e)));
                        return tagged("mcall", v);
                    }
                    hir::Expr::ENameRef { res: hir::NameRef::Def(_), hint, .. } => {
                        if let Some(Ty::TFunc { params, .. }) = self.genv.current().get_type_of_function(hint) {
                            let mut has_param = false;
                            for p in params.iter() {
                                let mut stack = vec![p];
                                while let Some(t) = stack.pop() {
                                    if matches!(t, Ty::TParam { .. }) {
                                        has_param = true;
                                    }
                                    stack.extend(U::children(t));
                                }
                            }
                            if has_param {
                                self.kind("call_generic_def");
                            }
                            if params.len() == args.len() && args.iter().any(|x| matches!(self.table.expr(*x), hir::Expr::EClosure { .. })) {
                                self.check_closures += 1;
                            }
                        }
                    }
                    hir::Expr::ENameRef { res: hir::NameRef::Local(_), .. } => self.kind("call_local"),
                    hir::Expr::EClosure { .. } => self.kind("call_closure_immediately"),
                    _ => {}
                }
                let mut v = vec![n(i), self.expr(func)];
                v.extend(args.iter().map(|e| self.expr(*e)));
                tagged("call", v)
            }
            hir::Expr::EUnary { op, expr } => {
                self.kind("unary");
                let e = self.expr(expr);
                tagged("un", vec![n(i), a(match op {
                    common_defs::UnaryOp::Neg => "neg",
                    common_defs::UnaryOp::Not => "not",
                }), e])
            }
            hir::Expr::EBinary { op, lhs, rhs } => {
                self.kind("binary");
                let (x, y) = (self.expr(lhs), self.expr(rhs));
                tagged("bin", vec![n(i), a(bin_name(op)), x, y])
            }
            hir::Expr::EProj { tuple, index } => {
                self.kind("proj");
                let e = self.expr(tuple);
                tagged("proj", vec![n(i), e, n(index)])
            }
            hir::Expr::EField { expr, field } => {
                self.kind("field");
                let e = self.expr(expr);
                tagged("field", vec![n(i), e, a(field.to_ident_name())])
            }
            hir::Expr::EMatch { expr, arms } => {
                self.kind("match");
                let mut v = vec![n(i), self.expr(expr)];
                for arm in arms.iter() {
                    let p = self.pat(arm.pat);
                    let b = self.expr(arm.body);
                    v.push(tagged("arm", vec![p, b]));
                }
                tagged("match", v)
            }
        }
    }
}

/// `trait_env.inherent_impls`, one row per method, in the map's own order (`lookup_inherent_method` reads it by key)
fn inherent_s(genv: &PackageTypeEnv) -> S {
    let mut rows = Vec::new();
    for (key, def) in genv.current().trait_env.inherent_impls.iter() {
        for (m, sch) in def.methods.iter() {
            rows.push(match key {
                compiler::env::InherentImplKey::Exact(t) => tagged("exact", vec![dump::ty(t), a(m), dump::ty(&sch.ty)]),
                compiler::env::InherentImplKey::Constr(c) => tagged("constr", vec![a(c), a(m), dump::ty(&sch.ty)]),
            });
        }
    }
    tagged("inherent", rows)
}

fn structs_s(genv: &PackageTypeEnv) -> S {
    let mut v: Vec<(String, S)> = genv
        .current()
        .structs()
        .values()
        .map(|d| {
            let mut gs = vec![a("generics")];
            gs.extend(d.generics.iter().map(|x| a(&x.0)));
            let mut f = vec![a("fields")];
            f.extend(d.fields.iter().map(|(k, t)| l(vec![a(&k.0), dump::ty(t)])));
            (d.name.0.clone(), tagged("struct", vec![a(&d.name.0), l(gs), l(f)]))
        })
        .collect();
    v.sort_by(|x, y| x.0.cmp(&y.0));
    tagged("structs", v.into_iter().map(|x| x.1).collect())
}

// ------------------------------------------------------------------------------------------------
// what the real typer did

fn real_s(c: &Constraint) -> S {
    match c {
        Constraint::TypeEqual(x, y) => tagged("eq", vec![dump::ty(x), dump::ty(y)]),
        Constraint::Overloaded { op, trait_name, call_site_type } => tagged("ovl", vec![a(&op.0), a(&trait_name.0), dump::ty(call_site_type)]),
        Constraint::StructFieldAccess { expr_ty, field, result_ty } => tagged("field", vec![dump::ty(expr_ty), a(&field.0), dump::ty(result_ty)]),
    }
}

/// diagnostics of constraint generation
fn classify_gen(msg: &str) -> &'static str {
    const HEAD: [(&str, &str); 7] = [
        ("Internal error: Variable", "var-not-found"),
        ("Internal error: Function", "fn-not-found"),
        ("Unresolved name", "unresolved-name"),
        ("Unresolved callee", "unresolved-callee"),
        ("Tuple index", "tuple-index"),
        ("Cannot project field", "proj-non-tuple"),
        ("Internal error: attempted to pop base scope", "pop-base"),
    ];
    for (p, c) in HEAD.iter() {
        if msg.starts_with(p) {
            return c;
        }
    }
    if msg.starts_with("builtin ") && msg.contains("can only be called") {
        return "builtin-as-value";
    }
    "other"
}

/// diagnostics of `solve` (as `gv solve` classifies them)
fn classify_solve(msg: &str) -> &'static str {
    let c = U::classify(msg);
    if c != "other" {
        return c;
    }
    const HEAD: [(&str, &str); 7] = [
        ("No instance found for trait", "no-instance"),
        ("Multiple instances found", "multiple-instances"),
        ("Overload resolution failed for non-concrete", "overload-non-concrete"),
        ("Overloaded operator", "overload-no-args"),
        ("Overloaded constraint does not involve", "overload-not-func"),
        ("Could not solve all constraints", "unsolved"),
        ("Type inference failed", "inference-failed"),
    ];
    for (p, c) in HEAD.iter() {
        if msg.starts_with(p) {
            return c;
        }
    }
    if msg.starts_with("Struct ") {
        if msg.contains("not found when accessing field") {
            return "struct-not-found";
        }
        if msg.contains("type arguments, but got") {
            return "struct-arity";
        }
        if msg.contains(" has no field ") {
            return "no-field";
        }
    }
    "other"
}

#[derive(Default)]
struct FnRec {
    /// `Some(k)`: a method of an impl block (k makes the row id unique)
    method: Option<usize>,
    name: String,
    n0: u32,
    d0: usize,
    d1: usize,
    /// constraints already in the queue at entry
    q0: usize,
    phase: u8,
    input: Option<S>,
    skip: Option<String>,
    ids: Vec<hir::ExprId>,
    kinds: BTreeMap<&'static str, u64>,
    check_closures: u64,
    nodes: usize,
    n1: u32,
    queue: Vec<S>,
    queue_kinds: Vec<&'static str>,
    gdiags: Vec<&'static str>,
    gmsgs: Vec<String>,
    pre: Vec<S>,
    sdiags: Vec<&'static str>,
    smsgs: Vec<String>,
    rest: Vec<S>,
    n2: u32,
    cyclic: bool,
    vars: Vec<S>,
}

fn ckind(c: &Constraint) -> &'static str {
    match c {
        Constraint::TypeEqual(..) => "eq",
        Constraint::Overloaded { .. } => "ovl",
        Constraint::StructFieldAccess { .. } => "field",
    }
}

fn observe(col: &Rc<RefCell<Vec<FnRec>>>, genv: &PackageTypeEnv, typer: &mut Typer, diags: &Diagnostics, f: &hir::Fn, phase: u8) {
    if genv.package != "Main" {
        return;
    }
    // methods of impl blocks arrive with the phase shifted by 10 (second verif-hook commit)
    let (method, phase) = if phase >= 10 { (true, phase - 10) } else { (false, phase) };
    let mut col = col.borrow_mut();
    if phase == 0 && method {
        let q0 = typer.verif_constraints().len();
        let k = col.len();
        col.push(FnRec { name: f.name.clone(), method: Some(k), n0: typer.verif_var_count(), d0: diags.len(), q0, ..Default::default() });
        return;
    }
    if phase == 0 {
        // `solve` leaves what it could not solve in the queue: after a rejected function the next one starts with it
        let q0 = typer.verif_constraints().len();
        col.push(FnRec { name: f.name.clone(), n0: typer.verif_var_count(), d0: diags.len(), q0, ..Default::default() });
        return;
    }
    let Some(rec) = col.last_mut() else { return };
    if rec.name != f.name || rec.phase + 1 != phase {
        return;
    }
    rec.phase = phase;
    if phase == 1 {
        rec.n1 = typer.verif_var_count();
        rec.d1 = diags.len();
        if rec.q0 > 0 {
            rec.skip = Some("leftover-queue".to_string());
            return;
        }
        let mut tparams: Vec<TastIdent> = if method { compiler::typer::verif_impl_generics().into_iter().map(TastIdent).collect() } else { Vec::new() };
        tparams.extend(f.generics.iter().map(|g| TastIdent(g.to_ident_name())));
        let mut w = Walk { table: &typer.hir_table, genv, tparams: &tparams, ids: Vec::new(), names: Vec::new(), kinds: BTreeMap::new(), unsupported: None, check_closures: 0 };
        let body = w.expr(f.body);
        if let Some(k) = w.unsupported.take() {
            rec.skip = Some(k);
            return;
        }
        // a method's parameter / result types have `Self` replaced and see the impl generics: read what the typer used
        let params: Vec<S> = if method {
            let res = typer.results.results();
            f.params.iter().map(|(lid, t)| l(vec![n(lid.idx), res.local_ty(*lid).map(dump::ty).unwrap_or_else(|| w.ty_of(t))])).collect()
        } else {
            f.params.iter().map(|(lid, t)| l(vec![n(lid.idx), w.ty_of(t)])).collect()
        };
        let ret = match (method, typer.verif_constraints().last()) {
            (true, Some(Constraint::TypeEqual(_, r))) => dump::ty(r),
            _ => match &f.ret_ty {
                Some(t) => w.ty_of(t),
                None => dump::ty(&Ty::TUnit),
            },
        };
        let funs: Vec<S> = w.names.iter().filter_map(|nm| genv.current().get_type_of_function(nm).map(|t| l(vec![a(nm), dump::ty(&t)]))).collect();
        rec.input = Some(tagged(
            "fn",
            vec![
                a(&f.name),
                tagged("n0", vec![n(rec.n0)]),
                tagged("params", params),
                tagged("ret", vec![ret]),
                tagged("funs", funs),
                tagged("env", vec![structs_s(genv), tagged("impls", vec![])]),
                inherent_s(genv),
                tagged("enums", {
                    let mut e: Vec<String> = genv.current().enums().keys().map(|k| k.0.clone()).collect();
                    e.sort();
                    e.into_iter().map(|x| a(&x)).collect()
                }),
                tagged("body", vec![body]),
            ],
        ));
        let mut ids = w.ids.clone();
        ids.sort_by_key(|e| e.idx);
        ids.dedup();
        rec.nodes = ids.len();
        rec.kinds = std::mem::take(&mut w.kinds);
        rec.check_closures = w.check_closures;
        rec.queue = typer.verif_constraints().iter().map(real_s).collect();
        rec.queue_kinds = typer.verif_constraints().iter().map(ckind).collect();
        for d in diags.iter().skip(rec.d0) {
            rec.gdiags.push(classify_gen(d.message()));
            rec.gmsgs.push(d.message().to_string());
        }
        let res = typer.results.results();
        rec.pre = ids.iter().filter_map(|e| res.expr_ty(*e).map(|t| l(vec![n(e.idx), dump::ty(t)]))).collect();
        rec.ids = ids;
        return;
    }
    if rec.skip.is_some() {
        return;
    }
    for d in diags.iter().skip(rec.d1) {
        rec.sdiags.push(classify_solve(d.message()));
        rec.smsgs.push(d.message().to_string());
    }
    rec.rest = typer.verif_constraints().iter().map(real_s).collect();
    rec.n2 = typer.verif_var_count();
    // cycle detection over all keys of the real store BEFORE any real norm
    if U::find_cycle(typer, rec.n2 as usize).is_some() {
        rec.cyclic = true;
        return;
    }
    for i in rec.n0..rec.n2 {
        let t = typer.verif_norm(&Typer::verif_tvar(i));
        rec.vars.push(dump::ty(&t));
    }
}

fn result_s(rec: &FnRec, fin: Option<&compiler::typer::results::TypeckResults>) -> S {
    if rec.cyclic {
        return tagged("result", vec![tagged("cyclic", vec![])]);
    }
    let cls = |v: &Vec<&'static str>| v.iter().map(|c| a(*c)).collect::<Vec<S>>();
    let mut items = vec![
        tagged("n1", vec![n(rec.n1)]),
        tagged("queue", rec.queue.clone()),
        tagged("gdiags", cls(&rec.gdiags)),
        tagged("pre", rec.pre.clone()),
        tagged("sdiags", cls(&rec.sdiags)),
        tagged("rest", rec.rest.clone()),
        tagged("n2", vec![n(rec.n2)]),
        tagged("vars", rec.vars.clone()),
    ];
    match fin {
        Some(res) => items.push(tagged("final", rec.ids.iter().filter_map(|e| res.expr_ty(*e).map(|t| l(vec![n(e.idx), dump::ty(t)]))).collect())),
        None => {
            items.push(tagged("final", vec![]));
            items.push(tagged("nofinal", vec![]));
        }
    }
    tagged("result", items)
}

/// a program that is not generated here (corpus, catalogue): observed, its functions written as INF / SKIP rows
fn extra_program(prefix: &str, k: usize, path: &std::path::Path, src: &str, label: &str, key: &str, out: &mut String, cov: &mut Cov) {
    let col: Rc<RefCell<Vec<FnRec>>> = Rc::new(RefCell::new(Vec::new()));
    let col2 = col.clone();
    compiler::typer::verif_set_fn_observer(Some(Box::new(move |genv: &PackageTypeEnv, typer: &mut Typer, diags: &Diagnostics, f: &hir::Fn, phase: u8| {
        observe(&col2, genv, typer, diags, f, phase)
    })));
    let r = catch_unwind(AssertUnwindSafe(|| compiler::pipeline::pipeline::typecheck_with_packages_and_results(path, src)));
    compiler::typer::verif_set_fn_observer(None);
    let (fin, verdict) = match r {
        Ok(Ok((_table, results, _genv, diags))) => {
            let rejected = diags.iter().any(|d| d.severity() == diagnostics::Severity::Error);
            (Some(results), if rejected { "typer" } else { "accepted" })
        }
        Ok(Err(_)) => (None, "error"),
        Err(_) => (None, "panic"),
    };
    out.push_str(&format!("{}{}\tPROG\t{}\t{}\t{}\t\n", prefix, k, esc_line(label), verdict, key));
    cov.inc(&format!("{}_programs", key));
    let recs = col.borrow();
    for rec in recs.iter() {
        let id = match rec.method {
            Some(m) => format!("{}{}.{}#m{}", prefix, k, rec.name, m),
            None => format!("{}{}.{}", prefix, k, rec.name),
        };
        if rec.method.is_some() {
            cov.inc(&format!("{}_methods", key));
        }
        cov.inc(&format!("{}_functions", key));
        if let Some(kind) = &rec.skip {
            out.push_str(&format!("{}\tSKIP\t{}\n", id, kind));
            cov.inc(&format!("{}_functions_outside", key));
            cov.inc(&format!("{}_outside_{}", key, kind.replace('-', "_")));
            continue;
        }
        let Some(input) = &rec.input else { continue };
        if rec.phase != 2 {
            continue;
        }
        out.push_str(&format!("{}\tINF\t{}\t{}\n", id, input.to_text(), result_s(rec, fin.as_ref()).to_text()));
        cov.inc(&format!("{}_functions_inside", key));
    }
}

pub fn main(args: &util::Args) {
    util::quiet_panics();
    let total = args.n.unwrap_or(if args.tier == "thorough" { 5000 } else { 500 });
    let debug = args.rest.iter().any(|x| x == "--debug");
    let _ = std::fs::create_dir_all(&args.out);
    let scratch = util::scratch_dir("infer");
    let mut out = String::new();
    let mut cov = Cov::default();
    for k in 0..total {
        let prog = gen_program(args.seed, k);
        let dir = scratch.join(format!("p{:05}", k));
        let _ = std::fs::create_dir_all(&dir);
        let path = dir.join("main.gom");
        let _ = std::fs::write(&path, &prog.src);
        // (1) the typer alone, observed
        let col: Rc<RefCell<Vec<FnRec>>> = Rc::new(RefCell::new(Vec::new()));
        let col2 = col.clone();
        compiler::typer::verif_set_fn_observer(Some(Box::new(move |genv: &PackageTypeEnv, typer: &mut Typer, diags: &Diagnostics, f: &hir::Fn, phase: u8| {
            observe(&col2, genv, typer, diags, f, phase)
        })));
        let r = catch_unwind(AssertUnwindSafe(|| compiler::pipeline::pipeline::typecheck_with_packages_and_results(&path, &prog.src)));
        compiler::typer::verif_set_fn_observer(None);
        let fin = match r {
            Ok(Ok((_table, results, _genv, _diags))) => Some(results),
            Ok(Err(_)) => {
                cov.inc("typecheck_call_err");
                None
            }
            Err(_) => {
                cov.inc("typecheck_call_panic");
                None
            }
        };
        // (2) the whole real pipeline, not observed: the verdict
        let dir2 = scratch.join(format!("q{:05}", k));
        let (verdict, msgs) = match util::compile_text(&dir2, &prog.src) {
            Outcome::Ok(_) => ("accepted".to_string(), Vec::new()),
            Outcome::Err(stage, msgs) => (stage.to_string(), msgs),
            Outcome::Panic(m) => ("panic".to_string(), vec![m]),
        };
        let _ = std::fs::remove_dir_all(&dir);
        let _ = std::fs::remove_dir_all(&dir2);
        out.push_str(&format!("P{}\tPROG\t{}\t{}\t{}\t{}\n", k, esc_line(&prog.src), verdict, prog.expect, esc_line(&msgs.join(" | "))));
        cov.inc("programs");
        if prog.expect == "ok" {
            cov.inc("programs_ok");
            cov.inc(&format!("ok_verdict_{}", verdict));
        } else {
            cov.inc("programs_ill");
            cov.inc(&format!("{}", prog.expect.replace(':', "_")));
            cov.inc(&format!("{}_verdict_{}", prog.expect.replace(':', "_"), verdict));
            cov.inc(&format!("ill_verdict_{}", verdict));
            if prog.fallback {
                cov.inc("ill_planted_as_leading_let");
            }
        }
        if debug && ((prog.expect == "ok") != (verdict == "accepted")) {
            eprintln!("P{} expect={} verdict={} :: {}\n{}", k, prog.expect, verdict, msgs.join(" | "), prog.src);
        }
        for note in prog.notes.iter() {
            cov.inc(&format!("gen_{}", note));
        }
        let recs = col.borrow();
        for f in prog.fns.iter() {
            if !recs.iter().any(|r| r.name == *f) {
                cov.inc("generated_function_not_observed");
            }
        }
        for rec in recs.iter() {
            let prelude = PRELUDE_FNS.contains(&rec.name.as_str());
            if rec.name == "main" || (prelude && k > 0) {
                continue;
            }
            let id = format!("P{}.{}", k, rec.name);
            if let Some(kind) = &rec.skip {
                out.push_str(&format!("{}\tSKIP\t{}\n", id, kind));
                cov.inc("skipped");
                cov.inc(&format!("skipped_{}", kind.replace('-', "_")));
                continue;
            }
            let Some(input) = &rec.input else {
                cov.inc("function_without_phase1");
                continue;
            };
            if rec.phase != 2 {
                cov.inc("function_without_phase2");
                continue;
            }
            out.push_str(&format!("{}\tINF\t{}\t{}\n", id, input.to_text(), result_s(rec, fin.as_ref()).to_text()));
            cov.inc("functions");
            cov.inc(if prelude { "functions_prelude" } else if rec.name.starts_with('h') { "functions_generic" } else { "functions_plain" });
            cov.add("nodes", rec.nodes as u64);
            cov.max("max_nodes", rec.nodes as u64);
            cov.inc(match rec.nodes {
                0..=4 => "fns_nodes_0_4",
                5..=15 => "fns_nodes_5_15",
                16..=40 => "fns_nodes_16_40",
                _ => "fns_nodes_over_40",
            });
            cov.add("constraints", rec.queue.len() as u64);
            cov.max("max_constraints", rec.queue.len() as u64);
            cov.max("max_new_vars", (rec.n2 - rec.n0) as u64);
            for (kd, c) in rec.kinds.iter() {
                cov.add(&format!("node_{}", kd), *c);
                cov.inc(&format!("fns_with_{}", kd));
            }
            if rec.check_closures > 0 {
                cov.inc("fns_with_check_mode_closure");
                cov.add("check_mode_closures", rec.check_closures);
            }
            for q in rec.queue_kinds.iter() {
                cov.inc(&format!("queue_{}", q));
            }
            if rec.queue_kinds.contains(&"field") {
                cov.inc("fns_with_field_constraint");
            }
            if !rec.gdiags.is_empty() {
                cov.inc("fns_with_generation_diagnostic");
            }
            if !rec.sdiags.is_empty() {
                cov.inc("fns_with_solve_diagnostic");
            }
            if rec.gdiags.is_empty() && rec.sdiags.is_empty() {
                cov.inc("fns_without_diagnostic");
            }
            for (c, m) in rec.gdiags.iter().zip(rec.gmsgs.iter()) {
                cov.inc(&format!("gdiag_{}", c));
                if debug && *c == "other" {
                    eprintln!("{} gdiag other: {}", id, m);
                }
            }
            for (c, m) in rec.sdiags.iter().zip(rec.smsgs.iter()) {
                cov.inc(&format!("sdiag_{}", c));
                if debug && *c == "other" {
                    eprintln!("{} sdiag other: {}", id, m);
                }
            }
            if !rec.rest.is_empty() {
                cov.inc("fns_with_rest");
            }
            if rec.cyclic {
                cov.inc("fns_cyclic_store");
            }
            if fin.is_none() {
                cov.inc("fns_nofinal");
            }
        }
    }
    // ---- the REAL corpus: every top-level function of package Main of every corpus program, through the same observer
    for (k, dir) in util::corpus_pipeline_dirs().iter().enumerate() {
        let path = dir.join("main.gom");
        let Ok(src) = std::fs::read_to_string(&path) else { continue };
        let name = dir.file_name().map(|x| x.to_string_lossy().to_string()).unwrap_or_default();
        extra_program("K", k, &path, &src, &format!("corpus program {} ({})", name, path.display()), "corpus", &mut out, &mut cov);
    }
    // ---- the call-form catalogue of C03 (arity / argtype): the accepted twin of every call form
    for (k, (id, src)) in crate::c03::catalogue_good_programs(&scratch.join("cat0")).iter().enumerate() {
        let dir = scratch.join(format!("cat{:05}", k));
        let _ = std::fs::create_dir_all(&dir);
        let path = dir.join("main.gom");
        let _ = std::fs::write(&path, src);
        extra_program("A", k, &path, src, &format!("catalogue program {}\n{}", id, src), "catalogue", &mut out, &mut cov);
        let _ = std::fs::remove_dir_all(&dir);
    }
    let _ = std::fs::remove_dir_all(&scratch);
    let covrow: Vec<String> = cov.m.iter().map(|(k, v)| format!("{}={}", k, v)).collect();
    out.push_str(&format!("#COV\t{}\n", covrow.join(";")));
    std::fs::write(args.out.join("infer.cases.tsv"), out).unwrap();
}
