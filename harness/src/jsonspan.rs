//! Byte spans of every value in a JSON text, so that one value can be replaced or removed
//! textually (going through `serde_json::Value` would reorder object keys and so change more
//! than one thing — interface hashes are computed over order-preserving maps).
#[derive(Clone, Debug)]
pub struct Node {
    pub path: Vec<String>,
    /// span of the value
    pub start: usize,
    pub end: usize,
    /// start of the member (the key for object members, the value for array elements)
    pub member_start: usize,
    /// 'o' object, 'a' array, 's' string, 'n' number, 'b' bool, 'z' null
    pub kind: char,
    pub parent: Option<usize>,
}

struct P<'a> {
    b: &'a [u8],
    i: usize,
    nodes: Vec<Node>,
}

impl P<'_> {
    fn ws(&mut self) {
        while self.i < self.b.len() && (self.b[self.i] as char).is_ascii_whitespace() {
            self.i += 1;
        }
    }
    fn string(&mut self) -> Option<(usize, usize)> {
        let s = self.i;
        if self.b.get(self.i) != Some(&b'"') {
            return None;
        }
        self.i += 1;
        while self.i < self.b.len() {
            match self.b[self.i] {
                b'\\' => self.i += 2,
                b'"' => {
                    self.i += 1;
                    return Some((s, self.i));
                }
                _ => self.i += 1,
            }
        }
        None
    }
    fn value(&mut self, path: Vec<String>, parent: Option<usize>, member_start: Option<usize>) -> Option<usize> {
        self.ws();
        let start = self.i;
        let ms = member_start.unwrap_or(start);
        let id = self.nodes.len();
        self.nodes.push(Node { path: path.clone(), start, end: start, member_start: ms, kind: 'z', parent });
        match *self.b.get(self.i)? {
            b'{' => {
                self.nodes[id].kind = 'o';
                self.i += 1;
                self.ws();
                if self.b.get(self.i) == Some(&b'}') {
                    self.i += 1;
                } else {
                    loop {
                        self.ws();
                        let (ks, ke) = self.string()?;
                        let key = String::from_utf8_lossy(&self.b[ks + 1..ke - 1]).into_owned();
                        self.ws();
                        if self.b.get(self.i) != Some(&b':') {
                            return None;
                        }
                        self.i += 1;
                        let mut p = path.clone();
                        p.push(key);
                        self.value(p, Some(id), Some(ks))?;
                        self.ws();
                        match self.b.get(self.i) {
                            Some(b',') => self.i += 1,
                            Some(b'}') => {
                                self.i += 1;
                                break;
                            }
                            _ => return None,
                        }
                    }
                }
            }
            b'[' => {
                self.nodes[id].kind = 'a';
                self.i += 1;
                self.ws();
                if self.b.get(self.i) == Some(&b']') {
                    self.i += 1;
                } else {
                    let mut k = 0;
                    loop {
                        let mut p = path.clone();
                        p.push(k.to_string());
                        self.value(p, Some(id), None)?;
                        k += 1;
                        self.ws();
                        match self.b.get(self.i) {
                            Some(b',') => self.i += 1,
                            Some(b']') => {
                                self.i += 1;
                                break;
                            }
                            _ => return None,
                        }
                    }
                }
            }
            b'"' => {
                self.nodes[id].kind = 's';
                self.string()?;
            }
            b't' | b'f' => {
                self.nodes[id].kind = 'b';
                while self.i < self.b.len() && self.b[self.i].is_ascii_alphabetic() {
                    self.i += 1;
                }
            }
            b'n' => {
                while self.i < self.b.len() && self.b[self.i].is_ascii_alphabetic() {
                    self.i += 1;
                }
            }
            _ => {
                self.nodes[id].kind = 'n';
                while self.i < self.b.len() && matches!(self.b[self.i], b'0'..=b'9' | b'-' | b'+' | b'.' | b'e' | b'E') {
                    self.i += 1;
                }
                if self.i == start {
                    return None;
                }
            }
        }
        self.nodes[id].end = self.i;
        Some(id)
    }
}

pub fn spans(text: &str) -> Option<Vec<Node>> {
    let mut p = P { b: text.as_bytes(), i: 0, nodes: Vec::new() };
    p.value(vec![], None, None)?;
    Some(p.nodes)
}

/// text with node `k` removed from its container (separator included)
pub fn remove(text: &str, nodes: &[Node], k: usize) -> String {
    let n = &nodes[k];
    let sibs: Vec<usize> = (0..nodes.len()).filter(|i| nodes[*i].parent == n.parent && n.parent.is_some()).collect();
    let pos = sibs.iter().position(|i| *i == k).unwrap_or(0);
    let (a, b) = if pos + 1 < sibs.len() {
        (n.member_start, nodes[sibs[pos + 1]].member_start)
    } else if pos > 0 {
        (nodes[sibs[pos - 1]].end, n.end)
    } else {
        (n.member_start, n.end)
    };
    format!("{}{}", &text[..a], &text[b..])
}

pub fn replace(text: &str, n: &Node, with: &str) -> String {
    format!("{}{}{}", &text[..n.start], with, &text[n.end..])
}
