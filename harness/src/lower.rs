//! CST -> AST lowering (`crates/ast/src/lower.rs`) against `lean/GomlVerif/Model/Lower.lean`.
//!
//! `gv lower <mode>` writes `lower.<mode>.tsv`, one line per source text:
//! `id<TAB>LOWER<TAB>stream<TAB>cst<TAB>pe=0|1<TAB>real outcome<TAB>escaped source`.
//! `cst` is the REAL rowan tree (every node, every token incl. trivia, token text), `real outcome` is
//! what the real `ast::lower::lower` returns for that tree under `catch_unwind`:
//! `(ok <file>) | (none)` followed by the diagnostic messages in order, or `PANIC <message>`.
//! The Lean driver (`gomlmodel lower`) lowers the same tree with the model and prints the same shape.
//!
//! modes: `corpus` (every .gom of the repository's tests, builtin.gom, the kept witnesses under
//! /verif/corpus), `names` (the name catalogue of namecat.rs), `gen` (a syntax-directed generator with
//! items, patterns, types, blocks, closures, struct literals, every literal kind; binder names drawn from
//! the file's constructor names), `mutants` (token-level mutations of corpus and generated texts: the
//! error-recovered trees the tree builder can produce), `texts` (stdin: `id<TAB>stream<TAB>escaped text`).
use crate::astdump;
use crate::rng::Rng;
use crate::sexp::{S, a, esc_line, l, tagged};
use crate::util;
use cst::cst::CstNode;
use parser::syntax::{MySyntaxKind, MySyntaxNode};
use std::fmt::Write as _;
use std::io::Read;
use std::panic::{AssertUnwindSafe, catch_unwind};
use std::path::Path;

fn float_note(kind: MySyntaxKind, text: &str) -> Option<Vec<S>> {
    let body = match kind {
        MySyntaxKind::Float => text,
        MySyntaxKind::Float32Lit => text.strip_suffix("f32").unwrap_or(text),
        MySyntaxKind::Float64Lit => text.strip_suffix("f64").unwrap_or(text),
        _ => return None,
    };
    // floats are validated, never proved: the harness tells the model what `str::parse::<f64>` says
    Some(match body.parse::<f64>() {
        Ok(v) => vec![S::A(format!("{:?}", v)), S::A(v.to_bits().to_string())],
        Err(_) => vec![a("err")],
    })
}

pub fn cst_sexp(node: &MySyntaxNode) -> S {
    let mut v = vec![a("n"), a(format!("{:?}", node.kind()))];
    for ch in node.children_with_tokens() {
        match ch {
            rowan::NodeOrToken::Node(n) => v.push(cst_sexp(&n)),
            rowan::NodeOrToken::Token(t) => {
                let mut tv = vec![a("t"), a(format!("{:?}", t.kind())), S::A(t.text().to_string())];
                if let Some(mut note) = float_note(t.kind(), t.text()) {
                    tv.append(&mut note);
                }
                v.push(l(tv));
            }
        }
    }
    l(v)
}

// ------------------------------------------------------------------------- classification oracle (model-free)

/// names a pattern binds (`bind_pat` read off the AST)
fn pat_vars(p: &::ast::ast::Pat, out: &mut Vec<String>) {
    use ::ast::ast::Pat as P;
    match p {
        P::PVar { name, .. } => out.push(name.0.clone()),
        P::PConstr { args, .. } => args.iter().for_each(|q| pat_vars(q, out)),
        P::PStruct { fields, .. } => fields.iter().for_each(|(_, q)| pat_vars(q, out)),
        P::PTuple { pats, .. } => pats.iter().for_each(|q| pat_vars(q, out)),
        _ => {}
    }
}

/// Walk a lowered expression with the DECLARATIVE scope `scope` (parameters, closure parameters, pattern
/// variables of the enclosing arms, `let`s of the enclosing blocks — passed down only) and report every bare
/// name whose classification disagrees with it: an `EConstr [x]` that a local binder shadows or that is no
/// constructor of the file, and an `EPath [x]` written as an identifier expression that IS a visible constructor.
fn class_expr(e: &::ast::ast::Expr, ctors: &std::collections::HashSet<String>, scope: &mut Vec<String>, out: &mut Vec<String>) {
    use ::ast::ast::Expr as E;
    let bare = |p: &::ast::ast::Path| -> Option<String> {
        let segs = p.segments();
        if segs.len() == 1 { Some(segs[0].ident.0.clone()) } else { None }
    };
    match e {
        E::EPath { path, astptr } => {
            if let Some(x) = bare(path) {
                if astptr.kind() == MySyntaxKind::EXPR_IDENT && ctors.contains(&x) && !scope.contains(&x) {
                    out.push(format!("visible-constructor-lowered-as-path:{}", x));
                }
            }
        }
        E::EConstr { constructor, args, .. } => {
            if let Some(x) = bare(constructor) {
                if scope.contains(&x) {
                    out.push(format!("local-binder-lowered-as-constructor:{}", x));
                } else if !ctors.contains(&x) {
                    out.push(format!("non-constructor-lowered-as-constructor:{}", x));
                }
            }
            args.iter().for_each(|a| class_expr(a, ctors, scope, out));
        }
        E::EStructLiteral { fields, .. } => fields.iter().for_each(|(_, x)| class_expr(x, ctors, scope, out)),
        E::ETuple { items, .. } | E::EArray { items, .. } => items.iter().for_each(|x| class_expr(x, ctors, scope, out)),
        E::ELet { value, .. } => class_expr(value, ctors, scope, out),
        E::EClosure { params, body, .. } => {
            let n = scope.len();
            scope.extend(params.iter().map(|p| p.name.0.clone()));
            class_expr(body, ctors, scope, out);
            scope.truncate(n);
        }
        E::EMatch { expr, arms, .. } => {
            class_expr(expr, ctors, scope, out);
            for arm in arms {
                let n = scope.len();
                pat_vars(&arm.pat, scope);
                class_expr(&arm.body, ctors, scope, out);
                scope.truncate(n);
            }
        }
        E::EIf { cond, then_branch, else_branch, .. } => {
            class_expr(cond, ctors, scope, out);
            class_expr(then_branch, ctors, scope, out);
            class_expr(else_branch, ctors, scope, out);
        }
        E::EWhile { cond, body, .. } => {
            class_expr(cond, ctors, scope, out);
            class_expr(body, ctors, scope, out);
        }
        E::EGo { expr, .. } | E::EUnary { expr, .. } | E::EField { expr, .. } => class_expr(expr, ctors, scope, out),
        E::EProj { tuple, .. } => class_expr(tuple, ctors, scope, out),
        E::ECall { func, args, .. } => {
            class_expr(func, ctors, scope, out);
            args.iter().for_each(|a| class_expr(a, ctors, scope, out));
        }
        E::EBinary { lhs, rhs, .. } => {
            class_expr(lhs, ctors, scope, out);
            class_expr(rhs, ctors, scope, out);
        }
        E::EBlock { exprs, .. } => {
            let n = scope.len();
            for x in exprs {
                class_expr(x, ctors, scope, out);
                if let E::ELet { pat, .. } = x {
                    pat_vars(pat, scope);
                }
            }
            scope.truncate(n);
        }
        _ => {}
    }
}

/// every function body of a lowered file against the scope rules; the constructor set is read off the
/// declarations of the lowered file itself (variants of its enums, names of its structs)
pub fn class_check(f: &::ast::ast::File) -> Vec<String> {
    use ::ast::ast::Item as I;
    let mut ctors = std::collections::HashSet::new();
    for it in f.toplevels.iter() {
        match it {
            I::EnumDef(d) => d.variants.iter().for_each(|(v, _)| {
                ctors.insert(v.0.clone());
            }),
            I::StructDef(d) => {
                ctors.insert(d.name.0.clone());
            }
            _ => {}
        }
    }
    let mut out = Vec::new();
    let mut one = |func: &::ast::ast::Fn| {
        let mut scope: Vec<String> = func.params.iter().map(|(p, _)| p.0.clone()).collect();
        let mut v = Vec::new();
        class_expr(&func.body, &ctors, &mut scope, &mut v);
        out.extend(v.into_iter().map(|m| format!("{}@{}", m, func.name.0)));
    };
    for it in f.toplevels.iter() {
        match it {
            I::Fn(func) => one(func),
            I::ImplBlock(b) => b.methods.iter().for_each(|m| one(m)),
            _ => {}
        }
    }
    out
}

pub struct Lowered {
    pub class: Vec<String>,
    pub cst: String,
    pub parse_errors: bool,
    pub outcome: String,
    pub panicked: bool,
    pub ok: bool,
    pub kinds: Vec<String>,
}

fn collect_kinds(node: &MySyntaxNode, out: &mut Vec<String>) {
    out.push(format!("{:?}", node.kind()));
    for ch in node.children() {
        collect_kinds(&ch, out);
    }
}

pub fn lower_text(src: &str) -> Lowered {
    let path = Path::new("main.gom");
    let parse_result = parser::parse(path, src);
    let parse_errors = parse_result.has_errors();
    if std::env::var("GV_LOWER_DEBUG").is_ok() && parse_errors {
        for d in parse_result.diagnostics.iter().take(1) {
            let (a, b) = d.range().map(|r| (usize::from(r.start()), usize::from(r.end()))).unwrap_or((0, 0));
            let lo = a.saturating_sub(50);
            let hi = (b + 15).min(src.len());
            let ctx: String = src.char_indices().filter(|(i, _)| *i >= lo && *i < hi).map(|(_, c)| if c == '\n' { ' ' } else { c }).collect();
            eprintln!("PE {:?} @ ...{}", d.message(), ctx);
        }
    }
    let root = MySyntaxNode::new_root(parse_result.green_node);
    let cst = cst_sexp(&root).to_text();
    let mut kinds = Vec::new();
    collect_kinds(&root, &mut kinds);
    let r = catch_unwind(AssertUnwindSafe(|| {
        let file = cst::cst::File::cast(root.clone())?;
        let (ast, diags) = ::ast::lower::lower(file).into_parts();
        let msgs: Vec<S> = diags.iter().map(|d| S::A(d.message().to_string())).collect();
        let class = ast.as_ref().map(class_check).unwrap_or_default();
        let head = match ast {
            Some(f) => tagged("ok", vec![astdump::file(&f)]),
            None => tagged("none", vec![]),
        };
        Some((head, tagged("diags", msgs), class))
    }));
    match r {
        Ok(Some((head, diags, class))) => {
            let ok = matches!(&head, S::L(v) if v.first() == Some(&a("ok")));
            Lowered { class, cst, parse_errors, outcome: format!("{} {}", head.to_text(), diags.to_text()), panicked: false, ok, kinds }
        }
        Ok(None) => Lowered { class: vec![], cst, parse_errors, outcome: "NOT-A-FILE".into(), panicked: false, ok: false, kinds },
        Err(p) => Lowered { class: vec![], cst, parse_errors, outcome: format!("PANIC {}", esc_line(&util::panic_message(p))), panicked: true, ok: false, kinds },
    }
}

// ------------------------------------------------------------------------------------------ generator

struct G<'a> {
    rng: &'a mut Rng,
    /// spellings the file declares as constructors (variants and structs) + ordinary names
    names: Vec<&'static str>,
}

const POOL_SAME: &[&str] = &["a", "b", "c", "red", "Blue", "P", "Rgb", "x", "y", "mk", "None", "Some", "show"];
const INT_LITS: &[&str] = &["0", "7", "007", "12i8", "300i16", "5i32", "9i64", "255u8", "1u16", "2u32", "18446744073709551615u64", "99999999999999999999"];
const FLOAT_LITS: &[&str] = &["1.5", "0.1", "2.0f32", "3.25f64", "10.0", "123456789.125", "0.000001", "0.30000000000000004"];
const STR_LITS: &[&str] = &["\"\"", "\"abc\"", "\"a\\nb\"", "\"q\\\"q\"", "\"\\u00e9\"", "\"\\ud83d\\ude00\"", "\"é😀\"", "\"tab\\t\\\\\""];
const PRIM_TYS: &[&str] = &["unit", "bool", "int8", "int16", "int32", "int64", "uint8", "uint16", "uint32", "uint64", "float32", "float64", "string"];
const BINOPS: &[&str] = &["+", "-", "*", "/", "&&", "||", "<", ">", "<=", ">=", "==", "!="];

impl<'a> G<'a> {
    fn name(&mut self) -> &'static str {
        let i = self.rng.below(self.names.len());
        self.names[i]
    }
    fn path(&mut self) -> String {
        match self.rng.below(10) {
            0 => format!("Color::{}", self.rng.pick(&["red", "Blue", "Rgb"])),
            1 => format!("Lib::Color::{}", self.rng.pick(&["red", "Blue"])),
            2 => format!("Opt::{}", self.rng.pick(&["Some", "None"])),
            3 => format!("Show::{}", self.rng.pick(&["show", "cmp"])),
            _ => self.name().to_string(),
        }
    }
    fn ty(&mut self, d: usize) -> String {
        if d == 0 {
            return match self.rng.below(4) {
                0 => "Color".into(),
                1 => "P".into(),
                _ => self.rng.pick(PRIM_TYS).to_string(),
            };
        }
        match self.rng.below(11) {
            0 => format!("({}, {})", self.ty(d - 1), self.ty(d - 1)),
            1 => format!("({})", self.ty(d - 1)),
            2 => format!("Vec[{}]", self.ty(d - 1)),
            3 => format!("Map[{}, {}]", self.ty(d - 1), self.ty(d - 1)),
            4 => format!("[{}; {}]", self.ty(d - 1), if self.rng.chance(1, 40) { "99999999999999999999999" } else { *self.rng.pick(&["0", "3", "16"]) }),
            5 => format!("({}) -> {}", self.ty(d - 1), self.ty(d - 1)),
            6 => format!("({}, {}) -> {}", self.ty(d - 1), self.ty(d - 1), self.ty(d - 1)),
            7 => format!("() -> {}", self.ty(d - 1)),
            8 => format!("dyn {}", self.rng.pick(&["Show", "Lib::Show"])),
            9 => format!("{} -> {}", self.ty(0), self.ty(d - 1)),
            _ => self.ty(0),
        }
    }
    fn pat(&mut self, d: usize) -> String {
        if d == 0 {
            return match self.rng.below(9) {
                0 => "_".into(),
                1 => "()".into(),
                2 => self.rng.pick(&["true", "false"]).to_string(),
                3 => self.rng.pick(INT_LITS).to_string(),
                4 => self.rng.pick(STR_LITS).to_string(),
                5 => format!("Color::{}", self.rng.pick(&["red", "Blue"])),
                _ => self.name().to_string(),
            };
        }
        match self.rng.below(9) {
            0 => format!("({}, {})", self.pat(d - 1), self.pat(d - 1)),
            1 => format!("({}, {}, {},)", self.pat(d - 1), self.pat(0), self.pat(0)),
            2 => format!("{}({})", self.path(), self.pat(d - 1)),
            3 => format!("{}({}, {})", self.path(), self.pat(d - 1), self.pat(d - 1)),
            4 => format!("P {{ {}, {}: {} }}", self.name(), self.name(), self.pat(d - 1)),
            5 => format!("{} {{ {}: {}, {} }}", self.path(), self.name(), self.pat(d - 1), self.name()),
            6 => format!("P {{ {} }}", self.name()),
            7 => format!("{}()", self.path()),
            _ => self.pat(0),
        }
    }
    fn atom(&mut self) -> String {
        match self.rng.below(14) {
            0 => "()".into(),
            1 => self.rng.pick(&["true", "false"]).to_string(),
            2 | 3 => self.rng.pick(INT_LITS).to_string(),
            4 => self.rng.pick(FLOAT_LITS).to_string(),
            5 => self.rng.pick(STR_LITS).to_string(),
            6 => self.path(),
            _ => self.name().to_string(),
        }
    }
    fn args(&mut self, d: usize) -> String {
        let n = self.rng.below(4);
        let mut v: Vec<String> = (0..n).map(|_| self.expr(d)).collect();
        if n > 0 && self.rng.chance(1, 6) {
            v.push(String::new()); // trailing comma
        }
        v.join(", ")
    }
    fn block(&mut self, d: usize) -> String {
        let mut s = String::from("{ ");
        let n = self.rng.below(4);
        for _ in 0..n {
            match self.rng.below(4) {
                0 => {
                    let _ = write!(s, "let {}: {} = {}; ", self.pat(d.min(1)), self.ty(1), self.expr(d));
                }
                1 => {
                    let _ = write!(s, "{}; ", self.expr(d));
                }
                _ => {
                    let _ = write!(s, "let {} = {}; ", self.pat(d.min(2)), self.expr(d));
                }
            }
        }
        if n == 0 || self.rng.chance(4, 5) {
            let _ = write!(s, "{} ", self.expr(d));
        }
        s.push('}');
        s
    }
    fn body(&mut self, d: usize) -> String {
        // a branch that is not a block must not start with `(`, `-`, `|`: the Pratt loop would read it as
        // a postfix / infix continuation of what precedes it
        match self.rng.below(4) {
            0 => self.name().to_string(),
            1 => format!("{}({})", self.name(), self.args(d)),
            _ => self.block(d),
        }
    }
    fn expr(&mut self, d: usize) -> String {
        if d == 0 {
            return self.atom();
        }
        let d1 = d - 1;
        match self.rng.below(26) {
            0 | 1 => format!("{} {} {}", self.expr(d1), self.rng.pick(BINOPS), self.expr(d1)),
            2 => format!("{}{}", self.rng.pick(&["-", "!"]), self.expr(d1)),
            3 => format!("({})", self.expr(d1)),
            4 | 5 => format!("{}({})", self.name(), self.args(d1)),
            6 => format!("{}({})", self.path(), self.args(d1)),
            7 => format!("{}.{}", self.expr(d1), self.name()),
            8 => format!("{}.{}", self.expr(d1), if self.rng.chance(1, 40) { "99999999999999999999999" } else { *self.rng.pick(&["0", "1", "2 "]) }),
            9 => {
                // a callee that lowering refuses to apply arguments to (literal, tuple, if, …) only now and then
                let f = if self.rng.chance(1, 12) { self.expr(d1) } else { format!("{}{}", self.name(), self.rng.pick(&["", "(a)", ".x", ".0"])) };
                format!("{}({})", f, self.args(d1))
            }
            10 => format!("({}, {})", self.expr(d1), self.expr(d1)),
            11 => format!("[{}]", self.args(d1)),
            12 => format!("P {{ x: {}, {}: {} }}", self.expr(d1), self.name(), self.expr(d1)),
            13 => format!("{} {{ {}, {}: {}, }}", self.path(), self.name(), self.name(), self.expr(d1)),
            14 => {
                let n = self.rng.below(3);
                let ps: Vec<String> = (0..n).map(|_| if self.rng.chance(1, 2) { self.name().to_string() } else { format!("{}: {}", self.name(), self.ty(1)) }).collect();
                format!("|{}| {}", ps.join(", "), self.body(d1))
            }
            15 => format!("|| {}", self.body(d1)),
            16 | 17 => format!("if ({}) {} else {}", self.expr(d1), self.body(d1), self.body(d1)),
            18 => format!("while ({}) {}", self.expr(d1), self.block(d1)),
            19 | 20 | 21 => {
                let n = 1 + self.rng.below(3);
                let mut s = format!("match ({}) {{ ", self.expr(d1));
                for _ in 0..n {
                    let _ = write!(s, "{} => {}, ", self.pat(2), self.body(d1));
                }
                s.push('}');
                s
            }
            22 => format!("go {}({})", self.name(), self.args(d1)),
            23 => "\\\\line one\n    \\\\ two\n".to_string(),
            24 => format!("{}{}({}).{}", self.rng.pick(&["-", "!"]), self.name(), self.args(d1), self.name()),
            _ => self.atom(),
        }
    }
    fn fun(&mut self, name: &str, d: usize) -> String {
        let gens = match self.rng.below(4) {
            0 => "[T]".to_string(),
            1 => "[T: Show + Lib::Eq, U, V: Show]".to_string(),
            _ => String::new(),
        };
        let n = self.rng.below(4);
        let ps: Vec<String> = (0..n).map(|_| format!("{}: {}", self.name(), self.ty(2))).collect();
        let ret = if self.rng.chance(3, 4) { format!(" -> {}", self.ty(2)) } else { String::new() };
        format!("fn {}{}({}){} {}\n", name, gens, ps.join(", "), ret, self.block(d))
    }
}

pub fn gen_program(rng: &mut Rng, depth: usize) -> String {
    let mut g = G { rng, names: POOL_SAME.to_vec() };
    let mut s = String::new();
    if g.rng.chance(1, 3) {
        s.push_str("package Main\n");
    }
    if g.rng.chance(1, 3) {
        s.push_str("import Lib\nimport Other\n");
    }
    let decl_here = g.rng.chance(3, 4);
    if decl_here {
        s.push_str("#[derive(ToString)]\nenum Color { red, Blue(int32), Rgb(int32, int32, int32) }\n");
        s.push_str("struct P { x: int32, y: int32 }\nenum Opt[T] { Some(T), None }\n");
    } else {
        // the same spellings are NOT constructors of this file
        s.push_str("struct Q[A, B] { fst: A, snd: (B, A) -> B }\n");
    }
    if g.rng.chance(1, 2) {
        let _ = write!(s, "trait Show {{ fn show(Self) -> string; fn cmp(Self, {}) -> bool; fn tick(Self); }}\n", g.ty(1));
        let _ = write!(s, "impl Show for P {{ {} {} }}\n", g.fun("show", 1), g.fun("cmp", 2));
        let _ = write!(s, "impl[T] Lib::Show for Vec[T] {{ {} }}\n", g.fun("show", 1));
    }
    if g.rng.chance(1, 2) {
        let _ = write!(s, "#[inline]\n#[doc(hidden)]\nimpl P {{ {} }}\n", g.fun("get", 2));
    }
    if g.rng.chance(1, 2) {
        s.push_str("extern type Handle\nextern \"go\" \"os\" type File\n");
        let _ = write!(s, "extern \"go\" \"fmt\" println(s: string, {}: {}) -> unit\n", g.name(), g.ty(1));
        s.push_str("extern \"go\" \"strings\" \"ToUpper\" upper(s: string) -> string\n");
        s.push_str("#[builtin]\nextern fn prim_add(a: int32, b: int32) -> int32\n");
    }
    let nf = 1 + g.rng.below(3);
    for i in 0..nf {
        if g.rng.chance(1, 5) {
            s.push_str("#[test]\n");
        }
        let f = g.fun(&format!("f{}", i), depth);
        s.push_str(&f);
    }
    s
}

// ------------------------------------------------------------------------------------------ mutants

fn mutate_tokens(src: &str, rng: &mut Rng) -> String {
    let toks = lexer::lex(src);
    let mut parts: Vec<String> = toks.iter().map(|t| t.text.to_string()).collect();
    if parts.len() < 2 {
        return src.to_string();
    }
    const INS: &[&str] = &["(", ")", "{", "}", "[", "]", ",", ";", ":", "::", "=>", "->", "=", ".", "|", "||", "-", "!", "+", "let", "fn", "if", "else", "match", "while", "go", "enum", "struct", "trait", "impl", "for", "extern", "type", "dyn", "#", "x", "X", "0", "1.5", "\"s\"", "true", "_", "99999999999999999999999"];
    for _ in 0..(1 + rng.below(3)) {
        let i = rng.below(parts.len());
        match rng.below(5) {
            0 => {
                parts.remove(i);
            }
            1 => {
                let j = rng.below(parts.len());
                let p = parts[i].clone();
                parts.insert(j, p);
            }
            2 => {
                let j = rng.below(parts.len());
                parts.swap(i, j);
            }
            3 => parts.insert(i, format!(" {} ", rng.pick(INS))),
            _ => parts[i] = format!(" {} ", rng.pick(INS)),
        }
        if parts.len() < 2 {
            break;
        }
    }
    parts.concat()
}

// ------------------------------------------------------------------------------------------ main

fn unesc(s: &str) -> String {
    let mut out = String::new();
    let mut it = s.chars();
    while let Some(c) = it.next() {
        if c == '\\' {
            match it.next() {
                Some('n') => out.push('\n'),
                Some('t') => out.push('\t'),
                Some('r') => out.push('\r'),
                Some(o) => out.push(o),
                None => {}
            }
        } else {
            out.push(c);
        }
    }
    out
}

fn verif_corpus() -> Vec<(String, String)> {
    fn walk(dir: &Path, out: &mut Vec<std::path::PathBuf>) {
        if let Ok(rd) = std::fs::read_dir(dir) {
            let mut es: Vec<_> = rd.filter_map(|e| e.ok().map(|e| e.path())).collect();
            es.sort();
            for p in es {
                if p.is_dir() {
                    walk(&p, out);
                } else if p.extension().map(|e| e == "gom").unwrap_or(false) {
                    out.push(p);
                }
            }
        }
    }
    let mut files = Vec::new();
    walk(&util::verif_root().join("corpus"), &mut files);
    walk(&util::verif_root().join("seeded"), &mut files);
    let mut out = Vec::new();
    for p in files {
        let Ok(t) = std::fs::read_to_string(&p) else { continue };
        let tag = p.strip_prefix(util::verif_root()).unwrap_or(&p).to_string_lossy().to_string();
        // multi-file witnesses travel as one text with `//// file: <path>` lines
        for (i, (rel, text)) in crate::c05::split_project(&t).into_iter().enumerate() {
            out.push((format!("{}#{}:{}", tag, i, rel), text));
        }
    }
    out
}

pub fn main(args: &util::Args) {
    util::quiet_panics();
    let mode = args.rest.first().map(|s| s.as_str()).unwrap_or("corpus").to_string();
    let thorough = args.tier == "thorough";
    let mut texts: Vec<(String, String, String)> = Vec::new(); // id, stream, text
    match mode.as_str() {
        "corpus" => {
            for (p, t) in crate::c12::corpus_files() {
                texts.push((format!("corpus:{}", p), "corpus".into(), t));
            }
            if let Ok(t) = std::fs::read_to_string(util::repo_root().join("crates/compiler/src/builtin.gom")) {
                texts.push(("corpus:builtin.gom".into(), "corpus".into(), t));
            }
            for (p, t) in verif_corpus() {
                texts.push((format!("witness:{}", p), "witness".into(), t));
            }
        }
        "names" => {
            for c in crate::namecat::catalogue(args.seed, thorough) {
                for (k, files) in [("p", &c.files), ("t", &c.twin)] {
                    for (rel, text) in files.iter() {
                        texts.push((format!("{}:{}:{}", c.id, k, rel), "names".into(), text.clone()));
                    }
                }
            }
        }
        "gen" => {
            let n = args.n.unwrap_or(if thorough { 6000 } else { 700 });
            let mut rng = Rng::new(args.seed ^ 0x10e7);
            for i in 0..n {
                let mut r = rng.fork(i as u64);
                let depth = 1 + (i % 4);
                texts.push((format!("gen{}", i), "gen".into(), gen_program(&mut r, depth)));
            }
        }
        "mutants" => {
            let n = args.n.unwrap_or(if thorough { 40000 } else { 2500 });
            let mut bases: Vec<String> = crate::c12::corpus_files().into_iter().map(|(_, t)| t).filter(|t| t.len() < 6000).collect();
            let mut rng = Rng::new(args.seed ^ 0x3u64);
            for i in 0..60 {
                let mut r = rng.fork(1000 + i as u64);
                bases.push(gen_program(&mut r, 2));
            }
            for i in 0..n {
                let mut r = rng.fork(i as u64);
                let b = &bases[r.below(bases.len())];
                texts.push((format!("mut{}", i), "mutants".into(), mutate_tokens(b, &mut r)));
            }
        }
        "crlf" => {
            // the same program with LF and with CRLF line ends must be read as the same tree
            let mut bases: Vec<(String, String)> = crate::c12::corpus_files().into_iter().filter(|(_, t)| !t.contains('\r')).collect();
            let mut rng = Rng::new(args.seed ^ 0xc41f);
            for i in 0..(if thorough { 400 } else { 60 }) {
                let mut r = rng.fork(i as u64);
                bases.push((format!("gen{}", i), gen_program(&mut r, 2)));
            }
            for (p, t) in bases {
                texts.push((format!("crlf:{}|lf", p), "crlf".into(), t.clone()));
                texts.push((format!("crlf:{}|crlf", p), "crlf".into(), t.replace('\n', "\r\n")));
            }
        }
        "chains" => {
            // prefix operator x postfix chains of length 3..=4 (5 in the thorough tier) mixing calls, fields and
            // projections, over an identifier and a constructor-spelled atom; the expected subtree is built here,
            // independently of parser, lowering and model: the prefix operator applies to the WHOLE chain
            let max = if thorough { 5 } else { 4 };
            let mut k = 0;
            for (atom, atom_sx) in [("g", "(path g)"), ("a . b", "(field (path a) b)")] {
                for pre in ["-", "!"] {
                    for len in 3..=max {
                        let total = 3usize.pow(len as u32);
                        for code in 0..total {
                            let mut c = code;
                            let mut text = atom.to_string();
                            let mut sx = atom_sx.to_string();
                            for j in 0..len {
                                match c % 3 {
                                    0 => {
                                        text.push_str(&format!("(x{})", j));
                                        sx = format!("(call {} (path x{}))", sx, j);
                                    }
                                    1 => {
                                        text.push_str(&format!(".f{}", j));
                                        sx = format!("(field {} f{})", sx, j);
                                    }
                                    _ => {
                                        text.push_str(&format!(".{} ", j));
                                        sx = format!("(proj {} {})", sx, j);
                                    }
                                }
                                c /= 3;
                            }
                            let op = if pre == "-" { "neg" } else { "not" };
                            let expected = format!("(un {} {})", op, sx);
                            let src = format!("fn t() -> unit {{ let r = {}{}; () }}\n", pre, text);
                            texts.push((format!("chain{}|{}", k, expected), "chains".into(), src));
                            k += 1;
                        }
                    }
                }
            }
        }
        "texts" => {
            let mut inp = String::new();
            let _ = std::io::stdin().read_to_string(&mut inp);
            for line in inp.lines() {
                let f: Vec<&str> = line.splitn(3, '\t').collect();
                if f.len() == 3 {
                    texts.push((f[0].to_string(), f[1].to_string(), unesc(f[2])));
                }
            }
        }
        other => {
            eprintln!("gv lower: unknown mode {}", other);
            std::process::exit(2);
        }
    }
    let mut out = String::new();
    let mut kinds: std::collections::BTreeMap<String, usize> = Default::default();
    let (mut n_ok, mut n_err, mut n_panic, mut n_pe) = (0, 0, 0, 0);
    for (id, stream, text) in texts.iter() {
        let r = lower_text(text);
        for k in r.kinds.iter() {
            *kinds.entry(k.clone()).or_default() += 1;
        }
        n_ok += r.ok as usize;
        n_err += (!r.ok && !r.panicked) as usize;
        n_panic += r.panicked as usize;
        n_pe += r.parse_errors as usize;
        let class = if r.class.is_empty() { "class=ok".to_string() } else { format!("class={}", r.class.join(",")) };
        let (id, expected) = match id.split_once('|') {
            Some((i, e)) if stream == "chains" => (i.to_string(), e.to_string()),
            _ => (id.clone(), String::new()),
        };
        let _ = writeln!(out, "{}\tLOWER\t{}\t{}\tpe={}\t{}\t{}\t{}\t{}", id, stream, r.cst, r.parse_errors as u8, r.outcome, esc_line(text), class, expected);
    }
    let ks: Vec<String> = kinds.iter().map(|(k, v)| format!("{}:{}", k, v)).collect();
    let _ = writeln!(out, "#KINDS\t{}", ks.join(" "));
    let _ = writeln!(out, "#STATS\ttexts={}\tok={}\tdiagnostics={}\tpanics={}\tparse_errors={}", texts.len(), n_ok, n_err, n_panic, n_pe);
    let _ = std::fs::create_dir_all(&args.out);
    let path = args.out.join(format!("lower.{}.tsv", mode));
    std::fs::write(&path, out).expect("write");
    println!("lower {}: texts={} ok={} diagnostics={} panics={} parse_errors={} -> {}", mode, texts.len(), n_ok, n_err, n_panic, n_pe, path.display());
}
