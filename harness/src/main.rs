mod c04;
mod c04gen;
mod c05;
mod c15;
mod c20;
mod crash;
mod jsonspan;
mod probe;
mod rng;
mod sexp;
mod util;

fn main() {
    let argv: Vec<String> = std::env::args().collect();
    if argv.len() < 2 {
        eprintln!("usage: gv <c05|…> [--seed N] [--tier quick|thorough] [--out DIR]");
        std::process::exit(2);
    }
    let args = util::parse_args(&argv[2..]);
    match argv[1].as_str() {
        "c04" => c04::main(&args),
        "c05" => c05::main(&args),
        "c15" => c15::main(&args),
        "c20" => c20::main(&args),
        "probe" => probe::main(&args),
        "stages" => probe::stages(&args),
        "golden" => probe::golden(&args),
        "hover" => probe::hover(&args),
        other => {
            eprintln!("unknown subcommand {}", other);
            std::process::exit(2);
        }
    }
}
