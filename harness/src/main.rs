mod c04;
mod c04gen;
mod arity;
mod patcat;
mod astdump;
mod c01;
mod c08;
mod c08spell;
mod c03;
mod c05;
mod c07;
mod c09;
mod c06;
mod c10;
mod c11;
mod c12;
mod c15;
mod c20;
mod crash;
mod jsonspan;
mod dump;
mod progen;
mod godump;
mod goparse;
mod c17;
mod c19;
mod c19univ;
mod goscope;
mod c13;
mod c16;
mod c16e;
mod c18;
mod c14;
mod dce;
mod gocomp;
mod namecat;
mod lower;
mod patpos;
mod patrule;
mod nametest;
mod deftypes;
mod gopp;
mod probe;
mod rng;
mod sexp;
mod util;
mod unify;
mod solve;
mod infer;

fn main() {
    let argv: Vec<String> = std::env::args().collect();
    if argv.len() < 2 {
        eprintln!("usage: gv <c05|…> [--seed N] [--tier quick|thorough] [--out DIR]");
        std::process::exit(2);
    }
    let args = util::parse_args(&argv[2..]);
    match argv[1].as_str() {
        "c04" => c04::main(&args),
        "c01" => c01::main(&args),
        "c03" => c03::main(&args),
        "c05" => c05::main(&args),
        "c08" => c08::main(&args),
        "c07" => c07::main(&args),
        "c09" => c09::main(&args),
        "c06" => c06::main(&args),
        "c10" => c10::main(&args),
        "c12" => c12::main(&args),
        "c15" => c15::main(&args),
        "c20" => c20::main(&args),
        "c11" => c11::main(&args),
        "c17" => c17::main(&args),
        "c17sem" => c17::main_sem(&args),
        "c19" => c19::main(&args),
        "c19inst" => c19::main_inst(&args),
        "c13" => c13::main(&args),
        "c16" => c16::main(&args),
        "c16e" => c16e::main(&args),
        "ep" => c16e::probe(&args),
        "c18" => c18::main(&args),
        "c14" => c14::main(&args),
        "dce" => dce::main(&args),
        "gocomp" => gocomp::main(&args),
        "c02names" => nametest::main(&args),
        "c02deftypes" => deftypes::main(&args),
        "unify" => unify::main(&args),
        "solve" => solve::main(&args),
        "infer" => infer::main(&args),
        "gopp" => gopp::main(&args),
        "golex" => goparse::golex_main(),
        "namecat" => namecat::main(&args),
        "lower" => lower::main(&args),
        "patpos" => patpos::main(&args),
        "probe" => probe::main(&args),
        "stages" => probe::stages(&args),
        "golden" => probe::golden(&args),
        "hover" => probe::hover(&args),
        "shrink" => probe::shrink(&args),
        other => {
            eprintln!("unknown subcommand {}", other);
            std::process::exit(2);
        }
    }
}
