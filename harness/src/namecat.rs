//! Catalogue "a local binder spelled like a package-level name": every binder kind x every use
//! position x every kind of package-level name (enum variant with / without payload, upper- and
//! lower-case, struct, enum type, function, builtin) x where that name is declared (same file /
//! another file of the package).  Lexical scoping says the spelling of a local binder is
//! irrelevant, so every program comes with a TWIN in which the binder (and the uses it binds) is
//! called by a fresh name of the same length: nothing else differs.  Three model-free oracles
//! follow (used by C01 and C05):
//!   * the program prints what it prints by construction (`expected`),
//!   * program and twin are accepted alike and behave alike at every stage,
//!   * CST->AST lowering commutes with the renaming (`lowering_alpha`).
//! `gv namecat` lists every single cell of the product with the outcome of compiling it alone.
use crate::util::{self, Outcome};
use std::fmt::Write as _;

#[derive(Clone, Copy, PartialEq, Eq, Debug)]
pub enum Site {
    /// the package-level names are declared in main.gom itself
    Same,
    /// ... in another file of package Main
    Other,
}

/// (kind, spelling); none of the templates below mentions any of these spellings
pub const SPELLINGS: [(&str, &str); 8] = [
    ("variant-payload-upper", "Square"),
    ("variant-payload-lower", "square"),
    ("variant-nullary-upper", "Dot"),
    ("variant-nullary-lower", "dot"),
    ("struct", "Box"),
    ("enum-type", "Tone"),
    ("function", "helper"),
    ("builtin", "int32_to_string"),
];

/// spellings that are constructors of the file that declares them: in PATTERN position of that
/// file such a name is a constructor pattern, not a binder (lower.rs; the property does not
/// decide that), so pattern binders cannot take them there
fn ctor_like(spelling: &str) -> bool {
    matches!(spelling, "Square" | "square" | "Dot" | "dot" | "Box")
}

/// same length, no declaration of that name anywhere
pub fn fresh_for(name: &str) -> String {
    let mut cs: Vec<char> = name.chars().collect();
    let n = cs.len();
    cs[0] = 'z';
    cs[n - 1] = 'q';
    cs.into_iter().collect()
}

const DECLS: &str = "enum Shape { Circle(int32), Square(int32), square(int32), Dot, dot }\n\
enum Tone { Hi, Lo }\n\
struct Box { w: int32 }\n\
fn helper(r: int32) -> Shape { Shape::Square(r * 100) }\n\
fn show(s: Shape) -> string { match s { Shape::Circle(k) => \"circle \" + int32_to_string(k), Shape::Square(k) => \"Square \" + int32_to_string(k), Shape::square(k) => \"square \" + int32_to_string(k), Shape::Dot => \"Dot\", Shape::dot => \"dot\", } }\n\
fn tone(t: Tone) -> int32 { match t { Tone::Hi => 1, Tone::Lo => 0, } }\n";

const SUPPORT: &str = "struct Pt { w: int32 }\n\
fn make_circle(r: int32) -> Shape { Shape::Circle(r + 1) }\n\
fn triple(r: int32) -> int32 { r * 3 }\n\
fn is_big(r: int32) -> bool { r > 100 }\n\
fn origin() -> Shape { Shape::Circle(0) }\n\
fn make2(p: int32, q: int32) -> Shape { Shape::Circle(p * 10 + q) }\n\
fn mk_pt() -> Pt { Pt { w: 5 } }\n\
fn announce(r: int32) -> unit { let _ = string_println(\"announce \" + int32_to_string(r)); () }\n\
fn apply1(f: (int32) -> Shape, k: int32) -> Shape { f(k) }\n\
fn wrap(s: Shape) -> Shape { match s { Shape::Circle(k) => Shape::Circle(k + 1000), _ => Shape::Dot, } }\n\
fn b2s(b: bool) -> string { if b { \"true\" } else { \"false\" } }\n";

#[derive(Clone, Copy, PartialEq, Eq)]
enum R {
    Shape,
    Int,
    Bool,
}

/// a use position: the binder has type `ty` and is given `value`; `use_` (with `@` for the binder
/// and `n` = 3 in scope) has type `res` and prints as `expected` (after `pre`, lines it prints itself)
pub struct UsePos {
    pub label: &'static str,
    ty: &'static str,
    value: &'static str,
    res: R,
    use_: &'static str,
    pre: &'static str,
    expected: &'static str,
}

const fn up(label: &'static str, ty: &'static str, value: &'static str, res: R, use_: &'static str, pre: &'static str, expected: &'static str) -> UsePos {
    UsePos { label, ty, value, res, use_, pre, expected }
}

pub const USES: [UsePos; 22] = [
    up("bare", "int32", "41", R::Int, "@ + n", "", "44"),
    up("callee", "(int32) -> Shape", "make_circle", R::Shape, "@(n)", "", "circle 4"),
    up("callee-int", "(int32) -> int32", "triple", R::Int, "@(n)", "", "9"),
    up("callee-parenthesised", "(int32) -> Shape", "make_circle", R::Shape, "(@)(n)", "", "circle 4"),
    up("callee-under-minus", "(int32) -> int32", "triple", R::Int, "-@(n)", "", "-9"),
    up("callee-under-not", "(int32) -> bool", "is_big", R::Bool, "!@(n)", "", "true"),
    up("callee-binary-lhs", "(int32) -> int32", "triple", R::Int, "@(n) + 1", "", "10"),
    up("callee-binary-rhs", "(int32) -> int32", "triple", R::Int, "1 + @(n)", "", "10"),
    up("callee-both-sides-of-and", "(int32) -> int32", "triple", R::Bool, "@(n) > 2 && @(1) < 9", "", "true"),
    up("passed-on", "(int32) -> Shape", "make_circle", R::Shape, "apply1(@, n)", "", "circle 4"),
    up("aliased-then-called", "(int32) -> Shape", "make_circle", R::Shape, "let f = @; f(n)", "", "circle 4"),
    up("callee-inside-closure", "(int32) -> Shape", "make_circle", R::Shape, "let f = |k: int32| @(k); f(n)", "", "circle 4"),
    up("callee-no-argument", "() -> Shape", "origin", R::Shape, "@()", "", "circle 0"),
    up("callee-two-arguments", "(int32, int32) -> Shape", "make2", R::Shape, "@(n, 1)", "", "circle 31"),
    up("callee-inside-argument", "(int32) -> Shape", "make_circle", R::Shape, "wrap(@(n))", "", "circle 1004"),
    up("callee-as-statement", "(int32) -> unit", "announce", R::Int, "let _ = @(n); n", "announce 3\n", "3"),
    up("callee-in-if-condition", "(int32) -> bool", "is_big", R::Int, "if @(n) { 1 } else { 2 }", "", "2"),
    up("callee-in-scrutinee", "(int32) -> Shape", "make_circle", R::Int, "match @(n) { Shape::Circle(k) => k + 10, _ => 0, }", "", "14"),
    up("field-receiver", "Pt", "mk_pt()", R::Int, "@.w + n", "", "8"),
    up("scrutinee", "Shape", "make_circle(1)", R::Int, "match @ { Shape::Circle(k) => k + n, _ => 0, }", "", "5"),
    up("argument", "int32", "41", R::Int, "triple(@)", "", "123"),
    up("if-condition", "bool", "is_big(7)", R::Int, "if @ { 1 } else { n }", "", "3"),
];

pub const BINDERS: [&str; 10] = [
    "fn-param",
    "closure-param",
    "struct-pattern-shorthand",
    "let",
    "let-annotated",
    "match-var",
    "let-tuple",
    "match-tuple",
    "struct-pattern-renamed",
    "enum-payload-pattern",
];

/// binder kinds that are pattern VARIABLES written as a bare name (a constructor pattern where the
/// name is a constructor of the file)
fn is_bare_pattern(binder: &str) -> bool {
    !matches!(binder, "fn-param" | "closure-param" | "struct-pattern-shorthand")
}

pub fn admissible(site: Site, spelling: &str) -> Vec<&'static str> {
    BINDERS.iter().copied().filter(|b| !(site == Site::Same && ctor_like(spelling) && is_bare_pattern(b))).collect()
}

fn res_ty(r: R) -> &'static str {
    match r {
        R::Shape => "Shape",
        R::Int => "int32",
        R::Bool => "bool",
    }
}

/// one cell: items (a struct / enum of its own where the binder kind needs one, the function
/// `u<i>`), and the call that runs it with n = 3
fn cell(i: usize, u: &UsePos, binder: &str, name: &str) -> (String, String) {
    let usage = u.use_.replace('@', name);
    let (ty, value, rt) = (u.ty, u.value, res_ty(u.res));
    let mut items = String::new();
    let mut call = format!("u{}(3)", i);
    match binder {
        "fn-param" => {
            writeln!(items, "fn u{i}({name}: {ty}, n: int32) -> {rt} {{ {usage} }}").unwrap();
            call = format!("u{}({}, 3)", i, value);
        }
        "closure-param" => {
            writeln!(items, "fn u{i}(m: int32) -> {rt} {{ let ap = |{name}: {ty}, n: int32| {{ {usage} }}; ap({value}, m) }}").unwrap();
        }
        "let" => writeln!(items, "fn u{i}(n: int32) -> {rt} {{ let {name} = {value}; {usage} }}").unwrap(),
        "let-annotated" => writeln!(items, "fn u{i}(n: int32) -> {rt} {{ let {name}: {ty} = {value}; {usage} }}").unwrap(),
        "match-var" => writeln!(items, "fn u{i}(n: int32) -> {rt} {{ let sv = {value}; match sv {{ {name} => {{ {usage} }}, }} }}").unwrap(),
        "let-tuple" => writeln!(items, "fn u{i}(n: int32) -> {rt} {{ let ({name}, _) = ({value}, 0); {usage} }}").unwrap(),
        "match-tuple" => writeln!(items, "fn u{i}(n: int32) -> {rt} {{ let sv = ({value}, n); match sv {{ ({name}, _) => {{ {usage} }}, }} }}").unwrap(),
        "struct-pattern-shorthand" => {
            writeln!(items, "struct H{i} {{ {name}: {ty}, q: int32 }}").unwrap();
            writeln!(items, "fn u{i}(n: int32) -> {rt} {{ let hv = H{i} {{ {name}: {value}, q: 0 }}; match hv {{ H{i} {{ {name}, q: _ }} => {{ {usage} }}, }} }}").unwrap();
        }
        "struct-pattern-renamed" => {
            writeln!(items, "struct H{i} {{ f: {ty}, q: int32 }}").unwrap();
            writeln!(items, "fn u{i}(n: int32) -> {rt} {{ let hv = H{i} {{ f: {value}, q: 0 }}; match hv {{ H{i} {{ f: {name}, q: _ }} => {{ {usage} }}, }} }}").unwrap();
        }
        "enum-payload-pattern" => {
            writeln!(items, "enum W{i} {{ Wr{i}({ty}), Wn{i} }}").unwrap();
            writeln!(items, "fn u{i}(n: int32) -> {rt} {{ let wv = W{i}::Wr{i}({value}); match wv {{ W{i}::Wr{i}({name}) => {{ {usage} }}, W{i}::Wn{i} => {usage0}, }} }}", usage0 = default_of(u.res)).unwrap();
        }
        other => panic!("binder kind {}", other),
    }
    (items, call)
}

fn default_of(r: R) -> &'static str {
    match r {
        R::Shape => "Shape::Circle(0)",
        R::Int => "0",
        R::Bool => "false",
    }
}

pub struct NameCase {
    pub id: String,
    pub site: Site,
    pub kind: &'static str,
    pub name: &'static str,
    pub fresh: String,
    /// `main.gom` first
    pub files: Vec<(String, String)>,
    pub twin: Vec<(String, String)>,
    pub expected: String,
    /// (use position, binder kind) of every cell
    pub cells: Vec<(&'static str, &'static str)>,
    cell_ix: Vec<(usize, &'static str)>,
}

impl NameCase {
    /// every cell of this program as a program of its own (`<id>:c<i>`): the smallest failing inputs
    pub fn split(&self) -> Vec<NameCase> {
        self.cell_ix.iter().enumerate().map(|(i, c)| case_of(format!("{}:c{}", self.id, i), self.site, self.kind, self.name, &[*c])).collect()
    }
}

fn assemble(site: Site, name: &str, cells: &[(usize, &'static str)]) -> (Vec<(String, String)>, String) {
    let mut items = String::new();
    let mut body = String::new();
    let mut expected = String::new();
    for (i, (ui, binder)) in cells.iter().enumerate() {
        let u = &USES[*ui];
        let (it, call) = cell(i, u, binder, name);
        items.push_str(&it);
        let shown = match u.res {
            R::Shape => format!("show({})", call),
            R::Int => format!("int32_to_string({})", call),
            R::Bool => format!("b2s({})", call),
        };
        // the call first: what it prints itself comes before its line
        writeln!(body, "    let r{i} = {shown};\n    let _ = string_println(\"{label}/{binder}: \" + r{i});", label = u.label).unwrap();
        write!(expected, "{}{}/{}: {}\n", u.pre, u.label, binder, u.expected).unwrap();
    }
    let main = format!("{}{}fn main() {{\n{}    ()\n}}\n", SUPPORT, items, body);
    let files = match site {
        Site::Same => vec![("main.gom".to_string(), format!("{}{}", DECLS, main))],
        Site::Other => vec![("main.gom".to_string(), main), ("types.gom".to_string(), DECLS.to_string())],
    };
    (files, expected)
}

fn case_of(id: String, site: Site, kind: &'static str, name: &'static str, cells: &[(usize, &'static str)]) -> NameCase {
    let fresh = fresh_for(name);
    let (files, expected) = assemble(site, name, cells);
    let (twin, _) = assemble(site, &fresh, cells);
    NameCase { id, site, kind, name, fresh, files, twin, expected, cells: cells.iter().map(|(u, b)| (USES[*u].label, *b)).collect(), cell_ix: cells.to_vec() }
}

/// the catalogue: one program per (site, spelling, rotation) holding every use position, use
/// position `u` under binder kind `admissible[(u + rotation) % len]`; all rotations (= the whole
/// product) in the thorough tier, three of them (chosen by the seed) in the quick tier
pub fn catalogue(seed: u64, thorough: bool) -> Vec<NameCase> {
    let mut out = Vec::new();
    for site in [Site::Same, Site::Other] {
        for (kind, name) in SPELLINGS.iter() {
            let adm = admissible(site, name);
            let rots: Vec<usize> = if thorough { (0..adm.len()).collect() } else { (0..3.min(adm.len())).map(|j| (seed as usize + j * (adm.len() / 3).max(1)) % adm.len()).collect() };
            let mut seen = Vec::new();
            for r in rots {
                if seen.contains(&r) {
                    continue;
                }
                seen.push(r);
                let cells: Vec<(usize, &'static str)> = (0..USES.len()).map(|u| (u, adm[(u + r) % adm.len()])).collect();
                out.push(case_of(format!("names:{:?}:{}:r{}", site, kind, r).to_lowercase(), site, kind, name, &cells));
            }
        }
    }
    out
}

/// every single cell of the product as a program of its own
pub fn single_cells() -> Vec<NameCase> {
    let mut out = Vec::new();
    for site in [Site::Same, Site::Other] {
        for (kind, name) in SPELLINGS.iter() {
            for b in admissible(site, name) {
                for u in 0..USES.len() {
                    out.push(case_of(format!("names1:{:?}:{}:{}:{}", site, kind, b, USES[u].label).to_lowercase(), site, kind, name, &[(u, b)]));
                }
            }
        }
    }
    out
}

pub fn write_project(root: &std::path::Path, files: &[(String, String)]) -> std::path::PathBuf {
    let _ = std::fs::remove_dir_all(root);
    for (rel, text) in files {
        let p = root.join(rel);
        std::fs::create_dir_all(p.parent().unwrap()).unwrap();
        std::fs::write(&p, text).unwrap();
    }
    root.join("main.gom")
}

/// CST->AST lowering commutes with renaming a local binder: the functions `u<i>` of main.gom,
/// lowered from the program, with the binder's spelling replaced by the fresh one, are the
/// functions lowered from the twin (same length of the two names: same source positions)
pub fn lowering_alpha(c: &NameCase, dir: &std::path::Path) -> Result<usize, String> {
    let lower = |files: &[(String, String)], sub: &str| -> Result<Vec<String>, String> {
        let entry = write_project(&dir.join(sub), files);
        let src = &files[0].1;
        let r = std::panic::catch_unwind(std::panic::AssertUnwindSafe(|| compiler::pipeline::pipeline::parse_ast_file(&entry, src)));
        match r {
            Ok(Ok(f)) => Ok(f
                .toplevels
                .iter()
                .filter_map(|it| match it {
                    ast::ast::Item::Fn(f) if f.name.0.starts_with('u') && f.name.0[1..].chars().all(|c| c.is_ascii_digit()) && f.name.0.len() > 1 => {
                        Some(format!("{:?}", f))
                    }
                    _ => None,
                })
                .collect()),
            Ok(Err(e)) => Err(format!("not lowered ({}): {}", sub, e.diagnostics().iter().map(|d| d.message().to_string()).collect::<Vec<_>>().join(" | "))),
            Err(_) => Err(format!("lowering panics ({})", sub)),
        }
    };
    let a = lower(&c.files, "la")?;
    let b = lower(&c.twin, "lb")?;
    if a.len() != b.len() || a.len() != c.cells.len() {
        return Err(format!("{} / {} functions lowered, {} written", a.len(), b.len(), c.cells.len()));
    }
    let quoted = |s: &str| format!("\"{}\"", s);
    for (i, (x, y)) in a.iter().zip(b.iter()).enumerate() {
        let renamed = x.replace(&quoted(c.name), &quoted(&c.fresh));
        if &renamed != y {
            let k = renamed.bytes().zip(y.bytes()).take_while(|(p, q)| p == q).count();
            let lo = k.saturating_sub(160);
            return Err(format!(
                "u{} ({} / {}): lowered under the name `{}` …{}… but under `{}` …{}…",
                i,
                c.cells[i].0,
                c.cells[i].1,
                c.name,
                &renamed[lo..(k + 160).min(renamed.len())],
                c.fresh,
                &y[lo..(k + 160).min(y.len())]
            ));
        }
    }
    Ok(a.len())
}

/// `gv namecat`: every single cell compiled alone (program and twin) — which cells the compiler
/// under test accepts; development aid and the map of the product
pub fn main(_args: &util::Args) {
    util::quiet_panics();
    let dir = util::scratch_dir("namecat");
    let mut bad = 0;
    // every cell alone, then the programs of the thorough catalogue (all rotations)
    let mut all = single_cells();
    all.extend(catalogue(1, true));
    for c in &all {
        let show = |o: Outcome| match o {
            Outcome::Ok(_) => "ok".to_string(),
            Outcome::Err(st, m) => format!("err:{}:{}", st, m.first().cloned().unwrap_or_default()),
            Outcome::Panic(m) => format!("panic:{}", m),
        };
        let ea = write_project(&dir.join("a"), &c.files);
        let a = show(util::compile_path(&ea, &c.files[0].1));
        let eb = write_project(&dir.join("b"), &c.twin);
        let b = show(util::compile_path(&eb, &c.twin[0].1));
        let la = match lowering_alpha(c, &dir) {
            Ok(_) => "ok".to_string(),
            Err(e) => format!("DIFF {}", e),
        };
        if a != "ok" || b != "ok" || la != "ok" {
            bad += 1;
            println!("{}\t{}\t{}\t{}", c.id, a, b, la);
        }
    }
    println!("cells={} not-all-ok={}", all.len(), bad);
    let _ = std::fs::remove_dir_all(&dir);
}
