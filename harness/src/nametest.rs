//! `gv c02names --stems w1,w2,…`: the name-test catalogue.
//!
//! The back end decides a few things by LOOKING AT A NAME (`f.name == "main"`, `name.contains("TParam")`,
//! `*name == "ref_get"`, …; the list of those literals is re-read from the Rust source on every run by
//! `tools/extract.py::c02_name_tests` and passed in as `--stems`).  A test of that kind is right only
//! if no name a user can write — or a name the compiler derives from one: `inherent#T#T#m`,
//! `trait_impl#Tr#T#m`, `Pkg::f`, `f__T_int32`, `closure_env_f_0` — passes it by accident.  So: every
//! kind of user-named item × every stem × every relation a sloppy test could confuse (equal, as a
//! suffix / prefix with and without a separator, in the middle, other case; a leading underscore is not
//! an identifier of the language),
//! one program per (kind, relation, stem), each compiled by the real pipeline; its Go AST is dumped in the
//! row format of `gv c01` (so `Go.Check` and the printer tie judge the real output).
use crate::util::{self, Outcome};
use std::fmt::Write as _;

/// (relation id, the user's name built from the stem `w`)
pub fn related_names(w: &str) -> Vec<(&'static str, String)> {
    let mut c = w.chars();
    let other_case = match c.next() {
        Some(f) if f.is_ascii_lowercase() => f.to_ascii_uppercase().to_string() + c.as_str(),
        Some(f) => f.to_ascii_lowercase().to_string() + c.as_str(),
        None => String::new(),
    };
    vec![
        ("=w", w.to_string()),
        ("x_w", format!("zq_{}", w)),
        ("xw", format!("zq{}", w)),
        ("w_x", format!("{}_zq", w)),
        ("wx", format!("{}zq", w)),
        ("x_w_x", format!("zq_{}_zq", w)),
        ("case", other_case),
    ]
}

/// single-package kinds that `c19::IDENT_KINDS` does not have: (kind, program with @A@ / @B@)
const MORE_KINDS: &[(&str, &str)] = &[
    ("generic-fn", "fn @A@[T](x: T, k: int32) -> T { x }\nfn @B@[T](x: T, k: int32) -> int32 { k }\nfn main() -> unit { string_println(int32_to_string(@A@(10, 1) * 100 + @B@(\"s\", 2)) + @A@(\"t\", 3)) }\n"),
    ("closure-host", "fn @A@(k: int32) -> int32 { let g = |x: int32| x + k; g(1) }\nfn @B@(k: int32) -> int32 { let g = |x: int32| x * k; g(2) }\nfn main() -> unit { string_println(int32_to_string(@A@(10) * 100 + @B@(10))) }\n"),
    ("branch-result-fn", "fn @A@(k: int32) -> int32 { k + 1 }\nfn @B@(k: int32) -> int32 { k * 2 }\nfn main() -> unit { let c = @B@(1) > 1; let r = if c { @A@(10) } else { @B@(10) }; let s = match r { 11 => @A@(r), _ => @B@(r), }; string_println(int32_to_string(r * 100 + s)) }\n"),
    ("generic-struct", "struct @A@[T] { p: T }\nstruct @B@[T] { q: T }\nfn main() -> unit { let x = @A@ { p: 1 }; let y = @B@ { q: \"s\" }; string_println(int32_to_string(x.p) + y.q) }\n"),
    ("generic-enum", "enum @A@[T] { Aa, Ab(T) }\nenum @B@[T] { Ba(T) }\nfn main() -> unit { let x = @A@::Ab(3); let y = @B@::Ba(\"t\"); let n = match x { @A@::Aa => 0, @A@::Ab(v) => v, }; let m = match y { @B@::Ba(w) => w, }; string_println(int32_to_string(n) + m) }\n"),
    // ---- the emission sites the kinds above do not reach (added for the Go-word dictionary, used for every stem too)
    // a trait method called through a trait object in every position a call can take: with arguments, as a unit
    // statement, inside a closure, inside a loop, inside a function that receives the object, two impls
    ("dyn-method", "trait Tt { fn @A@(Self, int32) -> int32; fn @B@(Self) -> unit; }\nstruct Pp { v: int32 }\nimpl Tt for Pp { fn @A@(self: Pp, k: int32) -> int32 { self.v + k } fn @B@(self: Pp) -> unit { string_println(\"p\") } }\nimpl Tt for int32 { fn @A@(self: int32, k: int32) -> int32 { self * k } fn @B@(self: int32) -> unit { string_println(\"i\") } }\nfn through(d: dyn Tt, k: int32) -> int32 { let _ = Tt::@B@(d); Tt::@A@(d, k) }\nfn main() -> unit { let p = Pp { v: 1 }; let d: dyn Tt = p; let n: int32 = 7; let e: dyn Tt = n; let g = |k: int32| Tt::@A@(d, k); let i: Ref[int32] = ref(0); let _ = while ref_get(i) < 2 { Tt::@B@(e); let _ = ref_set(i, ref_get(i) + 1); }; string_println(int32_to_string(through(d, 2) + g(3) * 10 + through(e, 4) * 100)) }\n"),
    // (a `dyn` of such an instance is the known C17 finding dyn-callee-undeclared / generic-instance, whatever the names: kept out)
    ("trait-instance-impl-method", "trait Tt { fn @A@(Self) -> int32; fn @B@(Self) -> int32; }\nstruct Bx[T] { v: T, n: int32 }\nimpl Tt for Bx[string] { fn @A@(self: Bx[string]) -> int32 { self.n + 1 } fn @B@(self: Bx[string]) -> int32 { self.n * 2 } }\nfn via[T: Tt](x: T) -> int32 { Tt::@A@(x) + Tt::@B@(x) * 100 }\nfn main() -> unit { let b: Bx[string] = Bx { v: \"s\", n: 10 }; string_println(int32_to_string(Tt::@A@(b) + Tt::@B@(b) * 100 + via(b) * 10000)) }\n"),
    ("generic-impl-method", "struct Bx[T] { v: T }\nimpl[T] Bx[T] { fn @A@(self: Bx[T]) -> T { self.v } fn @B@(self: Bx[T], o: T) -> Bx[T] { Bx { v: o } } }\nfn main() -> unit { let b: Bx[int32] = Bx { v: 1 }; let c: Bx[string] = Bx { v: \"s\" }; let b2: Bx[int32] = b.@B@(2); let c2: Bx[string] = c.@B@(\"t\"); string_println(int32_to_string(b.@A@() + Bx::@A@(b2)) + c2.@A@()) }\n"),
    ("closure-param", "fn main() -> unit { let g = |@A@: int32, @B@: int32| @A@ * 10 + @B@; let h = |@A@: string| { let k = |@B@: string| @A@ + @B@; k(\"t\") }; string_println(int32_to_string(g(1, 2)) + h(\"s\")) }\n"),
    ("pattern-binder", "enum Ee { Aa(int32), Bb(string, int32) }\nstruct Ss { p: int32, q: int32 }\nfn main() -> unit { let x = Ee::Bb(\"s\", 2); let (@A@, @B@) = (1, 20); let s = Ss { p: @A@, q: @B@ }; let Ss { p: @B@, q: @A@ } = s; let r = match x { Ee::Aa(@A@) => int32_to_string(@A@), Ee::Bb(@A@, @B@) => @A@ + int32_to_string(@B@), }; string_println(r + int32_to_string(@A@ + @B@)) }\n"),
    ("fn-value", "fn @A@(k: int32) -> int32 { k + 1 }\nfn @B@(k: int32) -> int32 { k * 2 }\nfn app(f: (int32) -> int32, k: int32) -> int32 { f(k) }\nfn main() -> unit { let f = @A@; string_println(int32_to_string(app(@A@, 1) + app(@B@, 2) * 10 + f(3) * 100)) }\n"),
    ("generic-variant", "enum Ee[T] { @A@(T), @B@ }\nfn pick[T](e: Ee[T], d: T) -> T { match e { Ee::@A@(v) => v, Ee::@B@ => d, } }\nfn main() -> unit { let x: Ee[int32] = Ee::@A@(3); let y: Ee[string] = Ee::@B@; string_println(int32_to_string(pick(x, 0)) + pick(y, \"d\")) }\n"),
    ("generic-field", "struct Ss[T] { @A@: T, @B@: int32 }\nfn first[T](s: Ss[T]) -> T { s.@A@ }\nfn main() -> unit { let s = Ss { @A@: \"s\", @B@: 2 }; let t = Ss { @A@: 1, @B@: 3 }; let Ss { @A@: p, @B@: q } = t; string_println(first(s) + int32_to_string(s.@B@ + first(t) + p + q)) }\n"),
];

/// items of a library package `Lib`, used from `Main` under the qualified name: (kind, Lib/lib.gom after
/// the `package` line, body of Main's `main`)
const PKG_KINDS: &[(&str, &str, &str)] = &[
    ("pkg-fn", "fn @A@(k: int32) -> int32 { k + 1 }\nfn @B@(k: int32) -> int32 { k * 2 }\n", "string_println(int32_to_string(Lib::@A@(10) * 100 + Lib::@B@(10)))"),
    ("pkg-generic-fn", "fn @A@[T](x: T, k: int32) -> T { x }\nfn @B@[T](x: T, k: int32) -> int32 { k }\n", "string_println(int32_to_string(Lib::@A@(10, 1) * 100 + Lib::@B@(\"s\", 2)) + Lib::@A@(\"t\", 3))"),
    ("pkg-struct", "struct @A@ { p: int32 }\nstruct @B@ { q: string }\n", "let x = Lib::@A@ { p: 1 }; let y = Lib::@B@ { q: \"s\" }; string_println(int32_to_string(x.p) + y.q)"),
    ("pkg-enum", "enum @A@ { Aa, Ab(int32) }\nenum @B@ { Ba(string) }\n", "let x = Lib::@A@::Ab(3); let y = Lib::@B@::Ba(\"t\"); let n = match x { Lib::@A@::Aa => 0, Lib::@A@::Ab(v) => v, }; let m = match y { Lib::@B@::Ba(w) => w, }; string_println(int32_to_string(n) + m)"),
    ("pkg-inherent-method", "struct Pp { v: int32 }\nimpl Pp { fn @A@(self: Pp) -> int32 { self.v + 1 } fn @B@(self: Pp) -> int32 { self.v * 2 } }\n", "let p = Lib::Pp { v: 10 }; string_println(int32_to_string(p.@A@() + p.@B@() * 100))"),
    ("pkg-trait-method", "trait Tt { fn @A@(Self) -> int32; fn @B@(Self) -> int32; }\nimpl Tt for int32 { fn @A@(self: int32) -> int32 { self + 1 } fn @B@(self: int32) -> int32 { self * 2 } }\n", "let n: int32 = 10; let d: dyn Lib::Tt = n; string_println(int32_to_string(Lib::Tt::@A@(n) + Lib::Tt::@B@(n) * 100 + Lib::Tt::@A@(d) * 10000))"),
    ("pkg-trait", "trait @A@ { fn mm(Self) -> int32; }\ntrait @B@ { fn mm(Self) -> int32; }\nimpl @A@ for int32 { fn mm(self: int32) -> int32 { self + 1 } }\nimpl @B@ for int32 { fn mm(self: int32) -> int32 { self * 2 } }\n", "let n: int32 = 10; let d: dyn Lib::@A@ = n; string_println(int32_to_string(Lib::@A@::mm(n) + Lib::@B@::mm(n) * 100 + Lib::@A@::mm(d) * 10000))"),
    ("pkg-variant", "enum Ee { @A@(int32), @B@(string), Zz }\n", "let x = Lib::Ee::@A@(3); let y = Lib::Ee::@B@(\"t\"); let n = match x { Lib::Ee::@A@(v) => v, _ => 0, }; let m = match y { Lib::Ee::@B@(w) => w, _ => \"z\", }; string_println(int32_to_string(n) + m)"),
    ("pkg-field", "struct Ss { @A@: int32, @B@: string }\n", "let s = Lib::Ss { @A@: 1, @B@: \"s\" }; string_println(int32_to_string(s.@A@) + s.@B@)"),
];

/// the package itself carries the name: (kind, lib text after the `package` line, body of main) with @A@ the package
const PKG_NAME_KIND: (&str, &str, &str) = ("pkg-name", "fn ff(k: int32) -> int32 { k + 1 }\nstruct Ss { p: int32 }\n", "let s = @A@::Ss { p: 2 }; string_println(int32_to_string(@A@::ff(10) * 100 + s.p))");

fn emit(id: &str, kind: &str, rel: &str, stem: &str, name: &str, outcome: Outcome, all_src: &str, out: &mut String) {
    let _ = writeln!(out, "{}\tNAME\t{}\t{}\t{}\t{}", id, kind, rel, stem, name);
    match outcome {
        Outcome::Ok(c) => {
            let _ = writeln!(out, "{}\tEXPECT\tnone\t", id);
            let _ = writeln!(out, "{}\tSRC\t{}", id, crate::sexp::esc_line(all_src));
            // the Go AST `Go.Check` judges, and the printer tie (what the user's `go build` reads is the printed text)
            let _ = writeln!(out, "{}\tSTAGE\tgo\t{}", id, crate::godump::gfile(&c.go).to_text());
            let text = c.go.to_pretty(&c.goenv, 120);
            let erased = crate::goparse::erase_file(&c.go);
            let verdict = match crate::goparse::parse_go(&text) {
                Ok(parsed) if parsed == erased => "ok".to_string(),
                Ok(parsed) => format!("diff\t{}", crate::sexp::esc_line(&format!("{:?}", crate::goparse::first_diff(&erased, &parsed, &mut Vec::new())))),
                Err(e) => format!("parse-error\t{}", crate::sexp::esc_line(&e)),
            };
            let _ = writeln!(out, "{}\tPPRINT\t{}", id, verdict);
        }
        Outcome::Err(stage, msgs) => {
            let _ = writeln!(out, "{}\tREJECT\t{}\t{}\t{}", id, stage, crate::sexp::esc_line(&msgs.join(" | ")), crate::sexp::esc_line(all_src));
        }
        Outcome::Panic(m) => {
            let _ = writeln!(out, "{}\tPANIC\t{}\t{}", id, crate::sexp::esc_line(&m), crate::sexp::esc_line(all_src));
        }
    }
}

/// negative controls of the text oracle itself: a Go file with `@` in one identifier position each — selector,
/// function name, parameter, local, field declaration, key of a composite literal, type name, type-switch
/// binding — must parse with an ordinary identifier there and must NOT parse with any of Go's keywords
/// (`x.range` and `func default()` are syntax errors in Go).  Returns the cells where `goparse.rs` answers otherwise.
fn goparse_keyword_selftest() -> Vec<String> {
    const POSITIONS: &[(&str, &str)] = &[
        ("selector", "package main\n\nfunc f(x T) int32 {\n    return x.@\n}\n"),
        ("selector-call", "package main\n\nfunc f(x T) int32 {\n    var t1 int32 = x.vtable.@(x.data, 0)\n    return t1\n}\n"),
        ("func-name", "package main\n\nfunc @() int32 {\n    return 1\n}\n"),
        ("parameter", "package main\n\nfunc f(@ int32) int32 {\n    return 1\n}\n"),
        ("local", "package main\n\nfunc f() int32 {\n    var @ int32 = 1\n    return 1\n}\n"),
        ("operand", "package main\n\nfunc f() int32 {\n    return @\n}\n"),
        ("field-decl", "package main\n\ntype T struct {\n    @ int32\n}\n"),
        ("literal-key", "package main\n\nfunc f() T {\n    return T{@: 1}\n}\n"),
        ("type-name", "package main\n\ntype @ struct {\n    a int32\n}\n"),
        ("type-use", "package main\n\nfunc f(x @) int32 {\n    return 1\n}\n"),
        ("type-switch-binding", "package main\n\nfunc f(x any) int32 {\n    switch @ := x.(type) {\n    case T:\n        return @.a\n    }\n    return 1\n}\n"),
    ];
    let mut bad = Vec::new();
    for (pos, text) in POSITIONS {
        if let Err(e) = crate::goparse::parse_go(&text.replace('@', "zqa")) {
            bad.push(format!("{}: the control `zqa` does not parse: {}", pos, e));
        }
        for kw in crate::goparse::GO_KEYWORDS {
            // in type position `struct` and `func` start a type literal, and `func`, `struct` … start other
            // well-formed or differently ill-formed phrases: only "must not parse AS AN IDENTIFIER" is asked
            if crate::goparse::parse_go(&text.replace('@', kw)).is_ok() {
                bad.push(format!("{}: accepted with the keyword `{}`", pos, kw));
            }
        }
    }
    bad
}

pub fn main(args: &util::Args) {
    util::quiet_panics();
    let _ = std::fs::create_dir_all(&args.out);
    let stems: Vec<String> = args
        .rest
        .iter()
        .position(|x| x == "--stems")
        .and_then(|i| args.rest.get(i + 1))
        .map(|s| s.split(',').filter(|x| !x.is_empty()).map(|x| x.to_string()).collect())
        .unwrap_or_default();
    // the Go-word dictionary: spellings that mean something to GO (keywords, predeclared identifiers, names the
    // runtime declares or relies on).  goml accepts most of them as ordinary identifiers, so every kind of item can
    // carry one, and every place that prints the item's name must print the same legal Go identifier.  Only the
    // name itself is tried (relation `=w`): the affix relations belong to tests on substrings.
    let words: Vec<String> = args
        .rest
        .iter()
        .position(|x| x == "--words")
        .and_then(|i| args.rest.get(i + 1))
        .map(|s| s.split(',').filter(|x| !x.is_empty()).map(|x| x.to_string()).collect())
        .unwrap_or_default();
    let only_kind: Option<&String> = args.rest.iter().position(|x| x == "--kind").and_then(|i| args.rest.get(i + 1));
    let mut out = String::new();
    let base = util::scratch_dir("c02names");
    let single = base.join("single");
    let mut n = 0usize;
    let mut kinds: Vec<(String, String)> = crate::c19::IDENT_KINDS.iter().map(|(k, t, _)| (k.to_string(), t.to_string())).collect();
    kinds.extend(MORE_KINDS.iter().map(|(k, t)| (k.to_string(), t.to_string())));
    // the controls: every template with two ordinary names must compile (a template that does not is a broken tie)
    let mut cases: Vec<(String, String, String)> = vec![("control".to_string(), "-".to_string(), "zqa".to_string())];
    for w in &stems {
        for (rel, name) in related_names(w) {
            cases.push((rel.to_string(), w.clone(), name));
        }
    }
    for w in &words {
        if !stems.contains(w) {
            cases.push(("=w".to_string(), w.clone(), w.clone()));
        }
    }
    for (rel, stem, name) in &cases {
        for (kind, tpl) in &kinds {
            if only_kind.is_some_and(|o| o != kind) {
                continue;
            }
            // `extern type w` stands for the Go type `pkg.w`: a Go keyword there is the user's own invalid request
            if kind == "extern-type" && crate::goparse::is_go_keyword(name) {
                continue;
            }
            let src = tpl.replace("@A@", name).replace("@B@", "zqb");
            let id = format!("name:{}:{}:{}", kind, rel, stem);
            emit(&id, kind, rel, stem, name, util::compile_text(&single, &src), &src, &mut out);
            n += 1;
        }
        let mut pk: Vec<(&str, String, String, String)> = PKG_KINDS.iter().map(|(k, l, m)| (*k, "Lib".to_string(), l.to_string(), m.to_string())).collect();
        // a package called like the name (package names start with an upper-case letter in the corpus; both are tried)
        pk.push((PKG_NAME_KIND.0, name.clone(), PKG_NAME_KIND.1.to_string(), PKG_NAME_KIND.2.to_string()));
        for (kind, pkg, lib, body) in pk {
            if only_kind.is_some_and(|o| o != kind) {
                continue;
            }
            let id = format!("name:{}:{}:{}", kind, rel, stem);
            let root = base.join(format!("p{}", n));
            let _ = std::fs::remove_dir_all(&root);
            let lib_src = format!("package {}\n\n{}", pkg, lib).replace("@A@", name).replace("@B@", "zqb");
            let main_src = format!("package Main\nimport {}\n\nfn main() {{\n    {};\n    ()\n}}\n", pkg, body).replace("@A@", name).replace("@B@", "zqb");
            let lib_rel = format!("{}/lib.gom", pkg);
            let _ = std::fs::create_dir_all(root.join(&pkg));
            let _ = std::fs::write(root.join(&lib_rel), &lib_src);
            let _ = std::fs::write(root.join("main.gom"), &main_src);
            let all = format!("// {}\n{}\n// main.gom\n{}", lib_rel, lib_src, main_src);
            emit(&id, kind, rel, stem, name, util::compile_path(&root.join("main.gom"), &main_src), &all, &mut out);
            let _ = std::fs::remove_dir_all(&root);
            n += 1;
        }
    }
    let _ = std::fs::remove_dir_all(&base);
    let selftest = goparse_keyword_selftest();
    let _ = writeln!(out, "#GOPARSE-KEYWORDS\t{}\t{}", if selftest.is_empty() { "ok" } else { "fail" }, crate::sexp::esc_line(&selftest.join(" | ")));
    let _ = writeln!(out, "#FEATS\tname-test catalogue: ({} stems x {} relations + {} Go words) x {} kinds = {} programs", stems.len(), related_names("w").len(), words.iter().filter(|w| !stems.contains(w)).count(), kinds.len() + PKG_KINDS.len() + 1, n);
    std::fs::write(args.out.join("c02names.cases.tsv"), out).unwrap();
    println!("c02names: {} programs, stems {:?}, {} words", n, stems, words.len());
}
