//! Deterministic catalogue "every pattern form × every scrutinee type × every way the scrutinee's type
//! becomes known × every place a pattern can sit".
//!
//! A pattern is checked against an *expected type*. That type is either already concrete when the pattern
//! is visited (a parameter, an annotated `let`) or still an inference variable that is resolved later — the
//! result of a call, of a generic call, of a method, a field of a generic struct, the payload of a generic
//! constructor, an un-annotated closure parameter (resolved by a later call, by a later use inside the
//! closure, through a generic higher-order function, or never), a `ref_get` / `vec_get` / `array_get`, the
//! join of an `if` / `match` / block.  The passes behind the typer (`tast_builder::build_pat`, the match
//! compiler, mono, the Go back end) rely on invariants that the typer must have established on BOTH routes
//! ("a literal pattern has the scrutinee's type", "no refutable pattern has a float type", "a constructor
//! pattern's arity is the constructor's", …); a mismatch of pattern and scrutinee must end in a diagnostic
//! on both routes, never in a panic further down.
//!
//! Nothing here is keyed to one pattern, one type or one route: the catalogue is the product, cut down in
//! the quick tier to (all types × all patterns × the main routes) + (all routes × representative types ×
//! representative patterns) + (all positions and both binding forms × three routes × the representatives).
//! Every pair of a pattern with its own type is the control (those programs compile).
//! Used by `gv c04` (stream `pat-scrut`, every entry point).

pub const ITEMS: &str = "enum Opt[T] { Non, Som(T) }\nenum Col { Red, Grn(int32) }\nstruct Pt { a: int32 }\nstruct Bx[T] { f: T }\n\
trait Tr { fn tm(Self) -> int32; }\nimpl Tr for int32 { fn tm(self: int32) -> int32 { self } }\n\
fn id[U](x: U) -> U { x }\nfn ap[A](f: (A) -> int32, a: A) -> int32 { f(a) }\nfn mkd() -> dyn Tr { let d: dyn Tr = 1; d }\n";

/// (name, type text, a value of that type, representative in the quick tier)
pub const TYPES: &[(&str, &str, &str, bool)] = &[
    ("int8", "int8", "1i8", true),
    ("int16", "int16", "1i16", false),
    ("int32", "int32", "1", false),
    ("int64", "int64", "1i64", true),
    ("uint8", "uint8", "1u8", true),
    ("uint16", "uint16", "1u16", false),
    ("uint32", "uint32", "1u32", false),
    ("uint64", "uint64", "1u64", false),
    ("float32", "float32", "1.5f32", true),
    ("float64", "float64", "1.5", true),
    ("bool", "bool", "true", false),
    ("string", "string", "\"s\"", true),
    ("unit", "unit", "()", false),
    ("tuple", "(int32, bool)", "(1, true)", true),
    ("tuple-float", "(float64, bool)", "(1.5, true)", false),
    ("opt-int", "Opt[int32]", "Som(1)", false),
    ("opt-float", "Opt[float64]", "Som(1.5)", true),
    ("opt-string", "Opt[string]", "Som(\"s\")", false),
    ("enum", "Col", "Grn(1)", false),
    ("struct", "Pt", "Pt { a: 1 }", false),
    ("box-float", "Bx[float64]", "Bx { f: 1.5 }", false),
    ("box-int64", "Bx[int64]", "Bx { f: 1i64 }", false),
    ("vec", "Vec[int32]", "vec_push(vec_new(), 1)", false),
    ("ref", "Ref[int32]", "ref(1)", false),
    ("array", "[int32; 2]", "[1, 2]", false),
    ("closure", "(int32) -> int32", "|q: int32| q", false),
    ("dyn", "dyn Tr", "mkd()", false),
];

/// (pattern text, representative in the quick tier)
pub const PATTERNS: &[(&str, bool)] = &[
    ("1", true),
    ("300", true),
    ("99999999999", false),
    ("1i8", false),
    ("1i16", false),
    ("1i32", false),
    ("1i64", true),
    ("1u8", false),
    ("1u16", false),
    ("1u32", false),
    ("1u64", false),
    ("\"s\"", true),
    ("true", false),
    ("()", false),
    ("(1, true)", false),
    ("(_, _)", false),
    ("(1, true, 2)", false),
    ("Som(1)", true),
    ("Som(_)", false),
    ("Som(\"s\")", false),
    ("Som(1, 2)", false),
    ("Opt::Non", false),
    ("Red", false),
    ("Grn(1)", false),
    ("Pt { a: 1 }", false),
    ("Bx { f: 1 }", false),
    ("Nowhere(1)", false),
    ("_", false),
    ("x", false),
];

/// the ways a scrutinee of type `T` (value `v`) reaches the pattern; `main` = in the quick tier's main slice
pub const ROUTES: &[(&str, bool)] = &[
    ("param", true),
    ("call", true),
    ("closure-param", true),
    ("closure-param-late", false),
    ("generic-call", false),
    ("field", true),
    ("hof-param", false),
    ("let-infer", false),
    ("literal", false),
    ("let-annot", false),
    ("method-call", false),
    ("trait-method-call", false),
    ("closure-param-unresolved", false),
    ("closure-call", false),
    ("ref-get", false),
    ("vec-get", false),
    ("array-get", false),
    ("if-join", false),
    ("block", false),
    ("match-result", false),
    ("tuple-binder", false),
    ("ctor-binder", false),
    ("tparam", false),
];

/// where the pattern sits: (name, scrutinee wrapper, pattern wrapper) with `$` the hole
pub const POSITIONS: &[(&str, &str, &str)] = &[
    ("top", "$", "$"),
    ("tuple-component", "($, 0)", "($, _)"),
    ("ctor-arg", "Som($)", "Som($)"),
    ("struct-field", "Bx { f: $ }", "Bx { f: $ }"),
    ("nested", "Som(($, Red))", "Som(($, _))"),
];

/// how the pattern is used: a `match` arm (with a catch-all behind it, and alone) or a `let`
pub const FORMS: &[&str] = &["match", "match-only-arm", "let"];

fn use_of(form: &str, s: &str, p: &str) -> String {
    match form {
        "match" => format!("match {} {{ {} => 1, _ => 0 }}", s, p),
        "match-only-arm" => format!("match {} {{ {} => 1 }}", s, p),
        // (a block is not an expression of its own in goml: the `let` sits in the branch of an `if`)
        _ => format!("if true {{ let {} = {}; 1 }} else {{ 0 }}", p, s),
    }
}

/// the whole program for one case
pub fn program(route: &str, ty: &str, v: &str, pos: (&str, &str), form: &str, pat: &str) -> String {
    let u = |s: &str| use_of(form, &pos.0.replace('$', s), &pos.1.replace('$', pat));
    let main = |extra: &str, body: String| format!("{}{}fn main() -> unit {{\n    {}\n    ()\n}}\n", ITEMS, extra, body);
    match route {
        "literal" => main("", format!("let r = {};", u(v))),
        "param" => main(&format!("fn w(s: {}) -> int32 {{ {} }}\n", ty, u("s")), format!("let r = w({});", v)),
        "let-annot" => main("", format!("let s: {} = {};\n    let r = {};", ty, v, u("s"))),
        "let-infer" => main("", format!("let s = {};\n    let r = {};", v, u("s"))),
        "call" => main(&format!("fn mk() -> {} {{ {} }}\n", ty, v), format!("let r = {};", u("mk()"))),
        "generic-call" => main("", format!("let r = {};", u(&format!("id({})", v)))),
        "method-call" => main(
            &format!("struct Hd {{ k: int32 }}\nimpl Hd {{ fn get(self: Hd) -> {} {{ {} }} }}\n", ty, v),
            format!("let r = {};", u("Hd { k: 1 }.get()")),
        ),
        "trait-method-call" => main(
            &format!("trait Mk {{ fn mk(Self) -> {}; }}\nimpl Mk for bool {{ fn mk(self: bool) -> {} {{ {} }} }}\n", ty, ty, v),
            format!("let r = {};", u("Mk::mk(true)")),
        ),
        "closure-param" => main("", format!("let f = |x| {};\n    let r = f({});", u("x"), v)),
        "closure-param-late" => main(
            &format!("fn eat(z: {}) -> unit {{ () }}\n", ty),
            format!("let f = |x| {{ let r0 = {}; let k = eat(x); r0 }};", u("x")),
        ),
        "closure-param-unresolved" => main("", format!("let f = |x| {};", u("x"))),
        "closure-call" => main("", format!("let f = || {};\n    let r = {};", v, u("f()"))),
        "hof-param" => main("", format!("let r = ap(|x| {}, {});", u("x"), v)),
        "field" => main("", format!("let b = Bx {{ f: {} }};\n    let r = {};", v, u("b.f"))),
        "ref-get" => main("", format!("let rf = ref({});\n    let r = {};", v, u("ref_get(rf)"))),
        "vec-get" => main("", format!("let vv = vec_push(vec_new(), {});\n    let r = {};", v, u("vec_get(vv, 0)"))),
        "array-get" => main("", format!("let ar = [{}, {}];\n    let r = {};", v, v, u("array_get(ar, 0)"))),
        "if-join" => main("", format!("let r = {};", u(&format!("if true {{ {} }} else {{ {} }}", v, v)))),
        "block" => main("", format!("let r = {};", u(&format!("if true {{ let z = {}; z }} else {{ {} }}", v, v)))),
        "match-result" => main("", format!("let r = {};", u(&format!("match true {{ true => {}, false => {} }}", v, v)))),
        "tuple-binder" => main("", format!("let (tb, _) = ({}, 0);\n    let r = {};", v, u("tb"))),
        "ctor-binder" => main("", format!("let r = match Som({}) {{ Som(cb) => {}, Non => 0 }};", v, u("cb"))),
        _ => main(&format!("fn w[U](s: U) -> int32 {{ {} }}\n", u("s")), format!("let r = w({});", v)),
    }
}

#[derive(Clone, Debug)]
pub struct PatCase {
    pub tag: String,
    pub src: String,
}

/// The catalogue in a fixed order. `full` = the whole product; otherwise the three slices described above.
pub fn catalogue(full: bool) -> Vec<PatCase> {
    let mut out = Vec::new();
    let mut seen = std::collections::HashSet::new();
    let mut push = |out: &mut Vec<PatCase>, route: &str, t: &(&str, &str, &str, bool), pos: &(&str, &str, &str), form: &str, pat: &str| {
        let tag = format!("pat={} type={} route={} pos={} form={}", pat.replace(' ', ""), t.0, route, pos.0, form);
        if seen.insert(tag.clone()) {
            out.push(PatCase { tag, src: program(route, t.1, t.2, (pos.1, pos.2), form, pat) });
        }
    };
    if full {
        for (route, _) in ROUTES {
            for t in TYPES {
                for pos in POSITIONS {
                    for form in FORMS {
                        // the whole pattern × type table for `match` at every position and for `let` at the top; the
                        // other forms take the representatives
                        let whole = *form == "match" || (*form == "let" && pos.0 == "top");
                        for (pat, rep) in PATTERNS {
                            if whole || (*rep && t.3) {
                                push(&mut out, route, t, pos, form, pat);
                            }
                        }
                    }
                }
            }
        }
        return out;
    }
    // slice A: every type × every pattern on the main routes
    for (route, main) in ROUTES {
        if *main {
            for t in TYPES {
                for (pat, _) in PATTERNS {
                    push(&mut out, route, t, &POSITIONS[0], "match", pat);
                }
            }
        }
    }
    // slice B: every route × the representatives
    for (route, _) in ROUTES {
        for t in TYPES.iter().filter(|t| t.3) {
            for (pat, _) in PATTERNS.iter().filter(|p| p.1) {
                push(&mut out, route, t, &POSITIONS[0], "match", pat);
            }
        }
    }
    // slice C: every position × every form on three routes × the representatives
    for route in ["param", "call", "closure-param"] {
        for pos in POSITIONS {
            for form in FORMS {
                for t in TYPES.iter().filter(|t| t.3) {
                    for (pat, _) in PATTERNS.iter().filter(|p| p.1) {
                        push(&mut out, route, t, pos, form, pat);
                    }
                }
            }
        }
    }
    out
}
