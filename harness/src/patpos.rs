//! Catalogue "a constructor name in PATTERN position while a local binder of the same spelling is in
//! scope".  In a pattern a name never refers to a local: a bare identifier that is a constructor of
//! the file tests that constructor (harness/src/patrule.rs, DESIGN.md §9.2), `name(..)` always does;
//! in the arm BODY the same spelling means the innermost local binder (C05).  The product
//!
//!   spelling of the colliding constructor (nullary lower / upper case, payload variant)
//! x kind of binder that puts the spelling in scope (fn parameter, closure parameter, struct-pattern
//!   shorthand field of a `let` / of an enclosing arm, method parameter, parameter seen from a nested
//!   block / from inside a closure body; none = control)
//! x type of that local (the scrutinee's enum — a misreading still type-checks — or int32)
//! x where the pattern stands (first / middle / last arm, before `_`, inside a tuple, inside another
//!   constructor's payload, in a struct field, in a destructuring `let`)
//! x whether the arm body uses the local
//!
//! is rendered as small runnable programs (two functions each) that are well-typed by construction and
//! print, by construction, what first-match semantics on the patterns AS THE GENERATOR MEANT THEM
//! prints (`expected`, computed here on the generator's own pattern / value terms: no parser, no
//! lowering, no model).  Used by C06 (sites under the first-match oracle + every stage against
//! `expected`), C05 (resolution map, must-be-accepted) and C01 (every stage against `expected`).
use std::fmt::Write as _;

#[derive(Clone, Debug)]
enum P {
    Wild,
    Var(&'static str),
    C(String, Vec<P>),
    Int(i32),
    Tup(Vec<P>),
    /// `holder { s: .., n: .. }`
    Holder(Box<P>, Box<P>),
}

#[derive(Clone, Debug)]
enum V {
    C(String, Vec<V>),
    Int(i32),
    Tup(Vec<V>),
    Holder(Box<V>, Box<V>),
}

fn c0(n: &str) -> P {
    P::C(n.to_string(), vec![])
}
fn c1(n: &str, p: P) -> P {
    P::C(n.to_string(), vec![p])
}
fn v0(n: &str) -> V {
    V::C(n.to_string(), vec![])
}
fn v1(n: &str, v: V) -> V {
    V::C(n.to_string(), vec![v])
}

/// pattern text: a nullary constructor is written BARE
fn ptext(p: &P) -> String {
    match p {
        P::Wild => "_".into(),
        P::Var(x) => x.to_string(),
        P::C(n, args) if args.is_empty() => n.clone(),
        P::C(n, args) => format!("{}({})", n, args.iter().map(ptext).collect::<Vec<_>>().join(", ")),
        P::Int(i) => i.to_string(),
        P::Tup(ps) => format!("({})", ps.iter().map(ptext).collect::<Vec<_>>().join(", ")),
        P::Holder(s, n) => format!("holder {{ s: {}, n: {} }}", ptext(s), ptext(n)),
    }
}

/// value text in EXPRESSION position: constructors always qualified (a bare name may be a local there)
fn vtext(v: &V) -> String {
    match v {
        V::C(n, args) => {
            let en = if n == "non" || n == "som" { "opt" } else { "shape" };
            if args.is_empty() { format!("{}::{}", en, n) } else { format!("{}::{}({})", en, n, args.iter().map(vtext).collect::<Vec<_>>().join(", ")) }
        }
        V::Int(i) => i.to_string(),
        V::Tup(vs) => format!("({})", vs.iter().map(vtext).collect::<Vec<_>>().join(", ")),
        V::Holder(s, n) => format!("holder {{ s: {}, n: {} }}", vtext(s), vtext(n)),
    }
}

/// first-match semantics on the generator's own terms
fn matches(p: &P, v: &V, b: &mut Vec<(&'static str, i32)>) -> bool {
    match (p, v) {
        (P::Wild, _) => true,
        (P::Var(x), V::Int(i)) => {
            b.push((x, *i));
            true
        }
        (P::Var(_), _) => panic!("patpos binds integers only"),
        (P::C(n, ps), V::C(m, vs)) => n == m && ps.len() == vs.len() && ps.iter().zip(vs).all(|(p, v)| matches(p, v, b)),
        (P::Int(i), V::Int(j)) => i == j,
        (P::Tup(ps), V::Tup(vs)) => ps.len() == vs.len() && ps.iter().zip(vs).all(|(p, v)| matches(p, v, b)),
        (P::Holder(s, n), V::Holder(sv, nv)) => matches(s, sv, b) && matches(n, nv, b),
        _ => false,
    }
}

fn pvars(p: &P, out: &mut Vec<&'static str>) {
    match p {
        P::Var(x) => out.push(x),
        P::C(_, ps) | P::Tup(ps) => ps.iter().for_each(|q| pvars(q, out)),
        P::Holder(s, n) => {
            pvars(s, out);
            pvars(n, out);
        }
        P::Wild | P::Int(_) => {}
    }
}

struct Form {
    label: &'static str,
    /// parameters of the function under test (after the colliding local)
    params: Vec<(&'static str, &'static str)>,
    scrut: &'static str,
    arms: Vec<P>,
    /// `let PAT = SCRUT;` instead of a match (arms = [PAT]); called on matching values only
    as_let: bool,
    /// argument lists the function is called with
    inputs: Vec<Vec<V>>,
}

fn shapes(v: &str) -> Vec<V> {
    vec![v0(v), v1("ring", V::Int(5)), v0("blob")]
}

/// `v`: the nullary variant written bare in pattern position
fn forms(v: &str) -> Vec<Form> {
    let ring_n = || c1("ring", P::Var("n"));
    let one = |vs: Vec<V>| vs.into_iter().map(|x| vec![x]).collect::<Vec<_>>();
    let sp = vec![("s", "shape")];
    let mut tup_inputs = Vec::new();
    for s in shapes(v) {
        for k in [0, 3] {
            tup_inputs.push(vec![s.clone(), V::Int(k)]);
        }
    }
    vec![
        Form { label: "first-arm", params: sp.clone(), scrut: "s", arms: vec![c0(v), ring_n(), c0("blob")], as_let: false, inputs: one(shapes(v)) },
        Form { label: "middle-arm", params: sp.clone(), scrut: "s", arms: vec![ring_n(), c0(v), c0("blob")], as_let: false, inputs: one(shapes(v)) },
        Form { label: "last-arm", params: sp.clone(), scrut: "s", arms: vec![ring_n(), c0("blob"), c0(v)], as_let: false, inputs: one(shapes(v)) },
        Form { label: "before-wildcard", params: sp.clone(), scrut: "s", arms: vec![c0(v), P::Wild], as_let: false, inputs: one(shapes(v)) },
        Form {
            label: "in-tuple",
            params: vec![("s", "shape"), ("k", "int32")],
            scrut: "(s, k)",
            arms: vec![
                P::Tup(vec![c0(v), P::Int(0)]),
                P::Tup(vec![c0(v), P::Var("j")]),
                P::Tup(vec![ring_n(), P::Wild]),
                P::Tup(vec![P::Wild, P::Var("j")]),
            ],
            as_let: false,
            inputs: tup_inputs,
        },
        Form {
            label: "in-payload",
            params: vec![("o", "opt")],
            scrut: "o",
            arms: vec![c0("non"), c1("som", c0(v)), c1("som", ring_n()), c1("som", P::Wild)],
            as_let: false,
            inputs: one(std::iter::once(v0("non")).chain(shapes(v).into_iter().map(|s| v1("som", s))).collect()),
        },
        Form {
            label: "in-struct-field",
            params: vec![("h", "holder")],
            scrut: "h",
            arms: vec![
                P::Holder(Box::new(c0(v)), Box::new(P::Var("m"))),
                P::Holder(Box::new(ring_n()), Box::new(P::Wild)),
                P::Holder(Box::new(P::Wild), Box::new(P::Var("m"))),
            ],
            as_let: false,
            inputs: one(shapes(v).into_iter().map(|s| V::Holder(Box::new(s), Box::new(V::Int(9)))).collect()),
        },
        Form {
            label: "let-tuple",
            params: sp.clone(),
            scrut: "(s, 7)",
            arms: vec![P::Tup(vec![c0(v), P::Var("j")])],
            as_let: true,
            inputs: vec![vec![v0(v)]],
        },
        Form { label: "let-bare", params: sp, scrut: "s", arms: vec![c0(v)], as_let: true, inputs: vec![vec![v0(v)]] },
    ]
}

pub const BINDERS: [&str; 8] = [
    "none",
    "fn-param",
    "closure-param",
    "shorthand-field-of-let",
    "shorthand-field-of-arm",
    "method-param",
    "fn-param-seen-from-nested-block",
    "fn-param-seen-from-closure-body",
];

/// (kind, nullary variant written bare in the patterns, spelling of the local binder)
pub const SPELLINGS: [(&str, &str, &str); 3] = [("nullary-lower", "dot", "dot"), ("nullary-upper", "Dot", "Dot"), ("payload-lower", "dot", "ring")];

pub const LOCAL_TYPES: [(&str, &str, &str, &str); 2] = [("enum", "shape", "shape::blob", "blob"), ("int", "int32", "41", "41")];

pub struct PatCase {
    pub id: String,
    pub src: String,
    pub expected: String,
    pub cell: String,
}

/// the scrutinee value of one call
fn scrut_val(f: &Form, args: &[V]) -> V {
    if f.label == "let-tuple" {
        V::Tup(vec![args[0].clone(), V::Int(7)])
    } else if args.len() == 1 {
        args[0].clone()
    } else {
        V::Tup(args.to_vec())
    }
}

/// one function `t<i>` (+ items it needs) and the statements of `main` that call it; appends what they print
fn function(i: usize, f: &Form, binder: &str, bn: &str, lt: &(&str, &str, &str, &str), uses: bool, items: &mut String, calls: &mut String, expected: &mut String) {
    let (_, ty, locval, locshown) = *lt;
    let name = format!("t{}", i);
    let loc_use = if !uses {
        String::new()
    } else if ty == "int32" {
        format!(" + \" loc=\" + int32_to_string({})", bn)
    } else {
        format!(" + \" loc=\" + show({})", bn)
    };
    let line = |tag: &str, p: &P| -> String {
        let mut vars = Vec::new();
        pvars(p, &mut vars);
        let mut s = format!("\"{}.{}\"", name, tag);
        for x in vars {
            write!(s, " + \" {}=\" + int32_to_string({})", x, x).unwrap();
        }
        format!("string_println({}{})", s, loc_use)
    };
    let body = if f.as_let {
        format!("let {} = {}; {}", ptext(&f.arms[0]), f.scrut, line("let", &f.arms[0]))
    } else {
        let mut s = format!("match {} {{ ", f.scrut);
        for (k, p) in f.arms.iter().enumerate() {
            write!(s, "{} => {}, ", ptext(p), line(&k.to_string(), p)).unwrap();
        }
        s.push('}');
        s
    };
    let params = f.params.iter().map(|(n, t)| format!("{}: {}", n, t)).collect::<Vec<_>>().join(", ");
    let call_prefix: String;
    match binder {
        "none" => {
            writeln!(items, "fn {name}({params}) -> unit {{ {body} }}").unwrap();
            call_prefix = format!("{name}(");
        }
        "fn-param" => {
            writeln!(items, "fn {name}({bn}: {ty}, {params}) -> unit {{ {body} }}").unwrap();
            call_prefix = format!("{name}({locval}, ");
        }
        "closure-param" => {
            writeln!(items, "fn {name}({params}) -> unit {{ let clo = |{bn}: {ty}| {{ {body} }}; clo({locval}) }}").unwrap();
            call_prefix = format!("{name}(");
        }
        "shorthand-field-of-let" => {
            writeln!(items, "struct cell{i} {{ {bn}: {ty}, bonus: int32 }}").unwrap();
            writeln!(items, "fn {name}(c: cell{i}, {params}) -> unit {{ let cell{i} {{ {bn}, bonus: _ }} = c; {body} }}").unwrap();
            call_prefix = format!("{name}(cell{i} {{ {bn}: {locval}, bonus: 0 }}, ");
        }
        "shorthand-field-of-arm" => {
            writeln!(items, "struct cell{i} {{ {bn}: {ty}, bonus: int32 }}").unwrap();
            writeln!(items, "fn {name}(c: cell{i}, {params}) -> unit {{ match c {{ cell{i} {{ {bn}, bonus: _ }} => {{ {body} }}, }} }}").unwrap();
            call_prefix = format!("{name}(cell{i} {{ {bn}: {locval}, bonus: 0 }}, ");
        }
        "method-param" => {
            writeln!(items, "impl holder {{ fn {name}({bn}: {ty}, {params}) -> unit {{ {body} }} }}").unwrap();
            call_prefix = format!("holder::{name}({locval}, ");
        }
        "fn-param-seen-from-nested-block" => {
            writeln!(items, "fn {name}({bn}: {ty}, {params}) -> unit {{ if true {{ let pad = 0; {body} }} else {{ () }} }}").unwrap();
            call_prefix = format!("{name}({locval}, ");
        }
        "fn-param-seen-from-closure-body" => {
            writeln!(items, "fn {name}({bn}: {ty}, {params}) -> unit {{ let clo = || {{ {body} }}; clo() }}").unwrap();
            call_prefix = format!("{name}({locval}, ");
        }
        other => panic!("binder kind {}", other),
    }
    for args in &f.inputs {
        writeln!(calls, "    let _ = {}{});", call_prefix, args.iter().map(vtext).collect::<Vec<_>>().join(", ")).unwrap();
        let sv = scrut_val(f, args);
        let mut hit = None;
        for (k, p) in f.arms.iter().enumerate() {
            let mut b = Vec::new();
            if matches(p, &sv, &mut b) {
                hit = Some((k, b));
                break;
            }
        }
        let (k, b) = hit.expect("patpos forms are exhaustive on their inputs");
        let tag = if f.as_let { "let".to_string() } else { k.to_string() };
        let mut s = format!("{}.{}", name, tag);
        for (x, val) in b {
            write!(s, " {}={}", x, val).unwrap();
        }
        if uses {
            write!(s, " loc={}", locshown).unwrap();
        }
        writeln!(expected, "{}", s).unwrap();
    }
}

fn decls(v: &str) -> String {
    format!(
        "enum shape {{ {v}, ring(int32), blob }}\nenum opt {{ non, som(shape) }}\nstruct holder {{ s: shape, n: int32 }}\n\
fn show(x: shape) -> string {{ match x {{ shape::{v} => \"{v}\", shape::ring(k) => \"ring \" + int32_to_string(k), shape::blob => \"blob\", }} }}\n"
    )
}

/// one program per cell of spelling x binder x local type x pattern position; `t0` does not use the
/// local in its arm bodies, `t1` does
pub fn catalogue() -> Vec<PatCase> {
    let mut out = Vec::new();
    for (sk, v, bn) in SPELLINGS {
        for binder in BINDERS {
            for lt in LOCAL_TYPES.iter() {
                if binder == "none" && lt.0 != "enum" {
                    continue;
                }
                for f in forms(v) {
                    let mut items = String::new();
                    let mut calls = String::new();
                    let mut expected = String::new();
                    function(0, &f, binder, bn, lt, false, &mut items, &mut calls, &mut expected);
                    if binder != "none" {
                        function(1, &f, binder, bn, lt, true, &mut items, &mut calls, &mut expected);
                    }
                    let src = format!("{}{}fn main() -> unit {{\n{}    ()\n}}\n", decls(v), items, calls);
                    let cell = format!("{}/{}/{}/{}", sk, binder, lt.0, f.label);
                    out.push(PatCase { id: format!("patpos:{}:{}:{}:{}", sk, binder, lt.0, f.label), src, expected, cell });
                }
            }
        }
    }
    out
}

/// `gv patpos`: every program of the catalogue through the real pipeline — development aid
pub fn main(_args: &crate::util::Args) {
    crate::util::quiet_panics();
    let dir = crate::util::scratch_dir("patpos");
    let cat = catalogue();
    let mut bad = 0;
    for c in &cat {
        let r = match crate::util::compile_text(&dir, &c.src) {
            crate::util::Outcome::Ok(_) => "ok".to_string(),
            crate::util::Outcome::Err(st, m) => format!("err:{}:{}", st, m.first().cloned().unwrap_or_default()),
            crate::util::Outcome::Panic(m) => format!("panic:{}", m),
        };
        let mm = crate::astdump::parse_lower(std::path::Path::new("main.gom"), &c.src).map(|f| crate::patrule::mismatches(&f).len());
        if r != "ok" || mm != Ok(0) {
            bad += 1;
            println!("{}\t{}\tmismatches={:?}", c.id, r, mm);
        }
    }
    if let Some(c) = cat.iter().find(|c| c.id.contains("fn-param:enum:first-arm")) {
        println!("---- {}\n{}---- expected\n{}", c.id, c.src, c.expected);
    }
    println!("programs={} not-ok={}", cat.len(), bad);
    let _ = std::fs::remove_dir_all(&dir);
}
