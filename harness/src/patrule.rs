//! The language's rule for a BARE IDENTIFIER IN PATTERN POSITION (DESIGN.md §9.2, "the real rule for
//! constructor names in PATTERN position"), written down once, independently of `ast/src/lower.rs`:
//!
//!   one identifier not followed by `::`, `(` or `{` (the parser's PATTERN_VARIABLE node) is a nullary
//!   constructor pattern iff its spelling is a variant of an enum or the name of a struct DECLARED IN
//!   THE SAME FILE — whatever its case, whatever the type of the scrutinee and whatever local binders
//!   are in scope (a pattern never *refers* to a local: it tests a constructor or introduces a binder);
//!   otherwise it is a variable binder.  A struct-pattern shorthand field (`P { x }`) is always a binder.
//!
//! The rule is applied to the real `ast::File`: the node kind comes from the syntax pointer the lowering
//! keeps (so a `PVar` made from a shorthand field or by `derive` is left alone), the constructor set from
//! the file's own declarations.  Used as the SOURCE side of C06's first-match oracle and of C05's scope
//! tree (neither may take lowering's word for what a pattern is), and as a direct, model-free oracle on
//! lowering's output (`mismatches`).
use crate::sexp::{S, a, l, tagged};
use ::ast::ast;
use parser::syntax::{MySyntaxKind, MySyntaxNodePtr};
use std::collections::BTreeSet;

/// spellings that are constructors of this file: variants of its enums, names of its structs
pub fn file_ctors(file: &ast::File) -> BTreeSet<String> {
    let mut s = BTreeSet::new();
    for item in &file.toplevels {
        match item {
            ast::Item::EnumDef(e) => s.extend(e.variants.iter().map(|(v, _)| v.0.clone())),
            ast::Item::StructDef(d) => {
                s.insert(d.name.0.clone());
            }
            _ => {}
        }
    }
    s
}

/// was this pattern written as one bare identifier?
pub fn is_bare_ident(ptr: &MySyntaxNodePtr) -> bool {
    ptr.kind() == MySyntaxKind::PATTERN_VARIABLE
}

#[derive(Clone, Copy, PartialEq, Eq, Debug)]
pub enum Class {
    Binder,
    Ctor,
}

/// what the rule says about the pattern node `p`, when `p` was written as one bare identifier
pub fn by_rule(p: &ast::Pat, ctors: &BTreeSet<String>) -> Option<(String, Class, Class)> {
    let (name, ptr, lowered) = match p {
        ast::Pat::PVar { name, astptr } => (name.0.clone(), astptr, Class::Binder),
        ast::Pat::PConstr { constructor, args, astptr } if args.is_empty() && constructor.len() == 1 => {
            (constructor.segments()[0].ident.0.clone(), astptr, Class::Ctor)
        }
        _ => return None,
    };
    if !is_bare_ident(ptr) {
        return None;
    }
    let rule = if ctors.contains(&name) { Class::Ctor } else { Class::Binder };
    Some((name, rule, lowered))
}

/// the pattern AS WRITTEN, in the format of `astdump::pat`, bare identifiers read by the rule
pub fn pat(p: &ast::Pat, ctors: &BTreeSet<String>) -> S {
    use ast::Pat as P;
    if let Some((name, rule, _)) = by_rule(p, ctors) {
        return match rule {
            Class::Ctor => tagged("pconstr", vec![tagged("path", vec![a(&name)])]),
            Class::Binder => tagged("pvar", vec![a(&name)]),
        };
    }
    match p {
        P::PConstr { constructor, args, .. } => {
            let mut v = vec![tagged("path", constructor.segments().iter().map(|s| a(&s.ident.0)).collect())];
            v.extend(args.iter().map(|x| pat(x, ctors)));
            tagged("pconstr", v)
        }
        P::PStruct { name, fields, .. } => {
            let mut v = vec![tagged("path", name.segments().iter().map(|s| a(&s.ident.0)).collect())];
            v.extend(fields.iter().map(|(f, x)| l(vec![a(&f.0), pat(x, ctors)])));
            tagged("pstruct", v)
        }
        P::PTuple { pats, .. } => tagged("ptuple", pats.iter().map(|x| pat(x, ctors)).collect()),
        other => crate::astdump::pat(other),
    }
}

/// the names a pattern BINDS by the rule, with the source offset of each binder occurrence
pub fn binders(p: &ast::Pat, ctors: &BTreeSet<String>, out: &mut Vec<(String, u32)>) {
    use ast::Pat as P;
    if let Some((name, rule, _)) = by_rule(p, ctors) {
        if rule == Class::Binder {
            let ptr = match p {
                P::PVar { astptr, .. } | P::PConstr { astptr, .. } => astptr,
                _ => unreachable!(),
            };
            out.push((name, u32::from(ptr.text_range().start())));
        }
        return;
    }
    match p {
        P::PVar { name, astptr } => out.push((name.0.clone(), u32::from(astptr.text_range().start()))),
        P::PConstr { args, .. } => args.iter().for_each(|x| binders(x, ctors, out)),
        P::PStruct { fields, .. } => fields.iter().for_each(|(_, x)| binders(x, ctors, out)),
        P::PTuple { pats, .. } => pats.iter().for_each(|x| binders(x, ctors, out)),
        _ => {}
    }
}

pub struct Mismatch {
    pub name: String,
    pub offset: u32,
    /// `constructor-pattern-lowered-as-binder` | `binder-lowered-as-constructor-pattern`
    pub kind: &'static str,
    /// function (or `impl#k#method`) the pattern occurs in
    pub func: String,
}

fn pat_mismatches(p: &ast::Pat, ctors: &BTreeSet<String>, func: &str, out: &mut Vec<Mismatch>) {
    use ast::Pat as P;
    if let Some((name, rule, lowered)) = by_rule(p, ctors) {
        if rule != lowered {
            let ptr = match p {
                P::PVar { astptr, .. } | P::PConstr { astptr, .. } => astptr,
                _ => unreachable!(),
            };
            out.push(Mismatch {
                name,
                offset: u32::from(ptr.text_range().start()),
                kind: if rule == Class::Ctor { "constructor-pattern-lowered-as-binder" } else { "binder-lowered-as-constructor-pattern" },
                func: func.to_string(),
            });
        }
        return;
    }
    match p {
        P::PConstr { args, .. } => args.iter().for_each(|x| pat_mismatches(x, ctors, func, out)),
        P::PStruct { fields, .. } => fields.iter().for_each(|(_, x)| pat_mismatches(x, ctors, func, out)),
        P::PTuple { pats, .. } => pats.iter().for_each(|x| pat_mismatches(x, ctors, func, out)),
        _ => {}
    }
}

fn expr_mismatches(e: &ast::Expr, ctors: &BTreeSet<String>, func: &str, out: &mut Vec<Mismatch>) {
    use ast::Expr as E;
    let mut go = |x: &ast::Expr, out: &mut Vec<Mismatch>| expr_mismatches(x, ctors, func, out);
    match e {
        E::EPath { .. } | E::EUnit { .. } | E::EBool { .. } | E::EInt { .. } | E::EInt8 { .. } | E::EInt16 { .. }
        | E::EInt32 { .. } | E::EInt64 { .. } | E::EUInt8 { .. } | E::EUInt16 { .. } | E::EUInt32 { .. } | E::EUInt64 { .. }
        | E::EFloat { .. } | E::EFloat32 { .. } | E::EFloat64 { .. } | E::EString { .. } => {}
        E::EConstr { args, .. } => args.iter().for_each(|x| go(x, out)),
        E::EStructLiteral { fields, .. } => fields.iter().for_each(|(_, x)| go(x, out)),
        E::ETuple { items, .. } | E::EArray { items, .. } => items.iter().for_each(|x| go(x, out)),
        E::ELet { pat, value, .. } => {
            pat_mismatches(pat, ctors, func, out);
            go(value, out);
        }
        E::EClosure { body, .. } => go(body, out),
        E::EMatch { expr, arms, .. } => {
            go(expr, out);
            for arm in arms {
                pat_mismatches(&arm.pat, ctors, func, out);
                go(&arm.body, out);
            }
        }
        E::EIf { cond, then_branch, else_branch, .. } => {
            go(cond, out);
            go(then_branch, out);
            go(else_branch, out);
        }
        E::EWhile { cond, body, .. } => {
            go(cond, out);
            go(body, out);
        }
        E::EGo { expr, .. } | E::EUnary { expr, .. } | E::EField { expr, .. } => go(expr, out),
        E::ECall { func: f, args, .. } => {
            go(f, out);
            args.iter().for_each(|x| go(x, out));
        }
        E::EBinary { lhs, rhs, .. } => {
            go(lhs, out);
            go(rhs, out);
        }
        E::EProj { tuple, .. } => go(tuple, out),
        E::EBlock { exprs, .. } => exprs.iter().for_each(|x| go(x, out)),
    }
}

/// every bare-identifier pattern of the file that lowering classified against the rule
pub fn mismatches(file: &ast::File) -> Vec<Mismatch> {
    let ctors = file_ctors(file);
    let mut out = Vec::new();
    let mut k = 0;
    for item in &file.toplevels {
        match item {
            ast::Item::Fn(f) => expr_mismatches(&f.body, &ctors, &f.name.0, &mut out),
            ast::Item::ImplBlock(b) => {
                for m in &b.methods {
                    expr_mismatches(&m.body, &ctors, &format!("impl#{}#{}", k, m.name.0), &mut out);
                }
                k += 1;
            }
            _ => {}
        }
    }
    out
}

/// number of bare-identifier patterns of the file the rule was applied to (coverage)
pub fn count_bare(file: &ast::File) -> (usize, usize) {
    // (ctor, binder) by the rule — counted through `binders` and the debug text would be heavier; walk again
    fn pc(p: &ast::Pat, ctors: &BTreeSet<String>, n: &mut (usize, usize)) {
        use ast::Pat as P;
        if let Some((_, rule, _)) = by_rule(p, ctors) {
            if rule == Class::Ctor { n.0 += 1 } else { n.1 += 1 }
            return;
        }
        match p {
            P::PConstr { args, .. } => args.iter().for_each(|x| pc(x, ctors, n)),
            P::PStruct { fields, .. } => fields.iter().for_each(|(_, x)| pc(x, ctors, n)),
            P::PTuple { pats, .. } => pats.iter().for_each(|x| pc(x, ctors, n)),
            _ => {}
        }
    }
    fn ec(e: &ast::Expr, ctors: &BTreeSet<String>, n: &mut (usize, usize)) {
        use ast::Expr as E;
        match e {
            E::ELet { pat, value, .. } => {
                pc(pat, ctors, n);
                ec(value, ctors, n);
            }
            E::EMatch { expr, arms, .. } => {
                ec(expr, ctors, n);
                for arm in arms {
                    pc(&arm.pat, ctors, n);
                    ec(&arm.body, ctors, n);
                }
            }
            E::EConstr { args, .. } => args.iter().for_each(|x| ec(x, ctors, n)),
            E::EStructLiteral { fields, .. } => fields.iter().for_each(|(_, x)| ec(x, ctors, n)),
            E::ETuple { items, .. } | E::EArray { items, .. } => items.iter().for_each(|x| ec(x, ctors, n)),
            E::EClosure { body, .. } => ec(body, ctors, n),
            E::EIf { cond, then_branch, else_branch, .. } => {
                ec(cond, ctors, n);
                ec(then_branch, ctors, n);
                ec(else_branch, ctors, n);
            }
            E::EWhile { cond, body, .. } => {
                ec(cond, ctors, n);
                ec(body, ctors, n);
            }
            E::EGo { expr, .. } | E::EUnary { expr, .. } | E::EField { expr, .. } => ec(expr, ctors, n),
            E::ECall { func, args, .. } => {
                ec(func, ctors, n);
                args.iter().for_each(|x| ec(x, ctors, n));
            }
            E::EBinary { lhs, rhs, .. } => {
                ec(lhs, ctors, n);
                ec(rhs, ctors, n);
            }
            E::EProj { tuple, .. } => ec(tuple, ctors, n),
            E::EBlock { exprs, .. } => exprs.iter().for_each(|x| ec(x, ctors, n)),
            _ => {}
        }
    }
    let ctors = file_ctors(file);
    let mut n = (0, 0);
    for item in &file.toplevels {
        match item {
            ast::Item::Fn(f) => ec(&f.body, &ctors, &mut n),
            ast::Item::ImplBlock(b) => b.methods.iter().for_each(|m| ec(&m.body, &ctors, &mut n)),
            _ => {}
        }
    }
    n
}
