//! `gv probe <file.gom> [--go]`: run the real pipeline on one file and print the outcome
use crate::util::{self, Outcome};
pub fn main(args: &util::Args) {
    let file = &args.rest[0];
    let src = std::fs::read_to_string(file).expect("read");
    let dir = util::scratch_dir("probe");
    match util::compile_text(&dir, &src) {
        Outcome::Ok(c) => {
            println!("OK");
            if args.rest.iter().any(|a| a == "--dump") {
                // the stage dumps `gomlmodel sem` / `gomlmodel srcsem` read (one TSV line per stage)
                let mut out = String::new();
                crate::c01::dump_src("probe", &dir.join("main.gom"), &src, &mut out);
                crate::c01::dump_case("probe", &c, &mut out);
                print!("{}", out);
            }
            if args.rest.iter().any(|a| a == "--go") {
                println!("{}", c.go.to_pretty(&c.goenv, 120));
            }
        }
        Outcome::Err(stage, msgs) => {
            println!("ERR {}", stage);
            for m in msgs {
                println!("  {}", m);
            }
        }
        Outcome::Panic(m) => println!("PANIC {}", m),
    }
    let _ = std::fs::remove_dir_all(&dir);
}
