//! `gv probe <file.gom> [--go]`: run the real pipeline on one file and print the outcome
use crate::util::{self, Outcome};
pub fn main(args: &util::Args) {
    let file = &args.rest[0];
    let src = std::fs::read_to_string(file).expect("read");
    let dir = util::scratch_dir("probe");
    // `--here`: compile the file where it lives (sibling files of the package, imported packages)
    let here = args.rest.iter().any(|a| a == "--here");
    let outcome = if here { util::compile_path(std::path::Path::new(file), &src) } else { util::compile_text(&dir, &src) };
    match outcome {
        Outcome::Ok(c) => {
            println!("OK");
            if args.rest.iter().any(|a| a == "--dump") {
                // the stage dumps `gomlmodel sem` / `gomlmodel srcsem` read (one TSV line per stage)
                let mut out = String::new();
                crate::c01::dump_src("probe", &dir.join("main.gom"), &src, &mut out);
                crate::c01::dump_case("probe", &c, &mut out);
                print!("{}", out);
            }
            if args.rest.iter().any(|a| a == "--go") {
                println!("{}", c.go.to_pretty(&c.goenv, 120));
            }
        }
        Outcome::Err(stage, msgs) => {
            println!("ERR {}", stage);
            for m in msgs {
                println!("  {}", m);
            }
        }
        Outcome::Panic(m) => println!("PANIC {}", m),
    }
    let _ = std::fs::remove_dir_all(&dir);
}

/// `gv stages <file.gom>`: time the front-end stages separately (used to localise blow-ups)
pub fn stages(args: &util::Args) {
    use std::time::Instant;
    let file = &args.rest[0];
    let src = std::fs::read_to_string(file).expect("read");
    let path = std::path::Path::new(file);
    let t = Instant::now();
    let res = parser::parse(path, &src);
    println!("parse   {:?} diagnostics={}", t.elapsed(), res.diagnostics().len());
    let root = parser::syntax::MySyntaxNode::new_root(res.green_node.clone());
    let cst = <cst::cst::File as cst::cst::CstNode>::cast(root).expect("cast");
    let t = Instant::now();
    let lower = ast::lower::lower(cst);
    println!("lower   {:?}", t.elapsed());
    let Some(file_ast) = lower.into_ast() else { return };
    let t = Instant::now();
    let (hir, table, _d) = compiler::hir::lower_to_hir(file_ast);
    println!("hir     {:?}", t.elapsed());
    let t = Instant::now();
    let (tast, genv, d) = compiler::typer::check_file(hir, table);
    println!("typer   {:?} diagnostics={}", t.elapsed(), d.len());
    if args.rest.iter().any(|a| a == "--tast") {
        println!("{}", tast.to_pretty(&genv, 120));
    }
    if args.rest.iter().any(|a| a == "--core") {
        let gensym = compiler::env::Gensym::new();
        let mut cd = diagnostics::Diagnostics::new();
        let core = compiler::compile_match::compile_file(&genv, &gensym, &mut cd, &tast);
        println!("{}", core.to_pretty(&genv, 120));
        if args.rest.iter().any(|a| a == "--all") {
            let (mono, monoenv) = compiler::mono::mono(genv, core);
            println!("== mono\n{}", mono.to_pretty(&monoenv, 120));
            let (lifted, liftenv) = compiler::lift::lambda_lift(monoenv, &gensym, mono);
            println!("== lift\n{}", lifted.to_pretty(&liftenv, 120));
            let (anf, anfenv) = compiler::anf::anf_file(liftenv, &gensym, lifted);
            println!("== anf\n{}\n{:#?}", anf.to_pretty(&anfenv, 120), anf.toplevels.last());
        }
    }
}

/// `gv golden`: compare the stage dumps of every corpus program with the recorded golden files
/// (`main.gom.{tast,core,mono,anf,go}`) — what `tests::test_cases` asserts before it needs a Go
/// toolchain. Used to validate `fix:` commits that touch the typer or a pass.
pub fn golden(_args: &util::Args) {
    let mut bad = 0;
    let mut n = 0;
    for d in util::corpus_pipeline_dirs() {
        let p = d.join("main.gom");
        let Ok(src) = std::fs::read_to_string(&p) else { continue };
        let r = std::panic::catch_unwind(std::panic::AssertUnwindSafe(|| compiler::pipeline::pipeline::compile(&p, &src)));
        let Ok(Ok(c)) = r else {
            println!("{}: does not compile", d.display());
            bad += 1;
            continue;
        };
        n += 1;
        let dumps = [
            ("tast", c.tast.to_pretty(&c.genv, 120)),
            ("core", c.core.to_pretty(&c.genv, 120)),
            ("mono", c.mono.to_pretty(&c.monoenv, 120)),
            ("anf", c.anf.to_pretty(&c.anfenv, 120)),
            ("go", c.go.to_pretty(&c.goenv, 120)),
        ];
        for (ext, text) in dumps {
            let g = d.join(format!("main.gom.{}", ext));
            if let Ok(want) = std::fs::read_to_string(&g) {
                if want != text {
                    println!("{}: .{} differs from the golden file", d.file_name().unwrap().to_string_lossy(), ext);
                    bad += 1;
                }
            }
        }
    }
    println!("golden: {} programs compiled, {} differences", n, bad);
    if bad > 0 {
        std::process::exit(1);
    }
}

/// `gv hover <file.gom> <line> <col>`: run the three editor queries at one position
pub fn hover(args: &util::Args) {
    let file = &args.rest[0];
    let line: u32 = args.rest.get(1).and_then(|s| s.parse().ok()).unwrap_or(0);
    let col: u32 = args.rest.get(2).and_then(|s| s.parse().ok()).unwrap_or(0);
    let src = std::fs::read_to_string(file).expect("read");
    let dir = util::scratch_dir("hover");
    let path = dir.join("main.gom");
    let t = std::time::Instant::now();
    println!("hover: {:?} ({:?})", compiler::query::hover_type(&path, &src, line, col), t.elapsed());
    let t = std::time::Instant::now();
    println!("dot: {:?} ({:?})", compiler::query::dot_completions(&path, &src, line, col), t.elapsed());
    let t = std::time::Instant::now();
    println!("colon: {:?} ({:?})", compiler::query::colon_colon_completions(&path, &src, line, col), t.elapsed());
    let _ = std::fs::remove_dir_all(&dir);
}

/// `gv shrink <file.gom> <text>`: minimise a program while `compile` still panics with a message
/// containing `<text>`; prints the result
pub fn shrink(args: &util::Args) {
    util::quiet_panics();
    let file = &args.rest[0];
    let needle = args.rest.get(1).cloned().unwrap_or_default();
    let src = std::fs::read_to_string(file).expect("read");
    let dir = util::scratch_dir("shrink");
    let mut pred = |cand: &str| matches!(util::compile_text(&dir, cand), Outcome::Panic(m) if m.contains(&needle));
    if !pred(&src) {
        println!("the input does not panic with a message containing {:?}", needle);
        return;
    }
    let mut cur = src;
    for _ in 0..4 {
        let next = crate::crash::shrink_text(&cur, &mut pred, 4000);
        if next.len() == cur.len() {
            break;
        }
        cur = next;
    }
    println!("{}", cur);
    let _ = std::fs::remove_dir_all(&dir);
}
