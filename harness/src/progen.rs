//! G-prog: type-directed generator of whole goml programs that print what they compute.
//! Every random choice comes from the one `Rng` passed in.
use crate::rng::Rng;
use std::collections::BTreeMap;
use std::fmt::Write as _;

#[derive(Clone, Debug, PartialEq)]
pub enum T {
    I32,
    I8,
    U8,
    I64,
    U32,
    Bool,
    Str,
    Unit,
    Tuple(Vec<T>),
    Struct(usize),
    Enum(usize),
    Opt(Box<T>),
    Arr(Box<T>, usize),
    Vec(Box<T>),
    Ref(Box<T>),
    Fn(Vec<T>, Box<T>),
    /// `Bx[T]` — generic struct with one field (rich_generics)
    Bx(Box<T>),
    /// `Pr[A, B]` — generic struct with two parameters (rich_generics)
    Pr(Box<T>, Box<T>),
    /// `Lst[T]` — recursive generic enum (rich_generics)
    Lst(Box<T>),
    /// a type parameter of the generic function being generated
    Param(usize),
}

#[derive(Clone, Copy, Debug, Default)]
pub struct Cfg {
    /// closures passed as arguments / stored in data (known Go-validity findings): separate stream
    pub closure_flows: bool,
    pub traits: bool,
    pub generics: bool,
    pub go_stmt: bool,
    pub max_depth: usize,
    pub effects: bool,
    /// let `array_set` results flow un-annotated (wildcard array length, known finding)
    pub wildcard_arrays: bool,
    /// surface forms whose meaning the front end decides: struct patterns with their fields in
    /// declaration / reversed / shuffled order (with `_`, shorthand, literal sub-patterns), nested
    /// struct-in-enum-in-tuple patterns, struct literals with fields out of order, string and
    /// integer literal patterns, locals spelled like functions, the three call forms of a method
    pub src_forms: bool,
    /// struct literals written out of declaration order whose initialisers have effects
    /// (evaluation order of the initialisers; known finding): separate stream
    pub lit_field_effects: bool,
    /// C07: a library of generic functions / methods / types, random generic functions, and
    /// instantiations at tuples, arrays, Ref, function types, structs, enums, nested generic types
    pub rich_generics: bool,
    /// C07: generic functions over `Vec[T]` and generic types inside `Vec`
    pub vec_generics: bool,
    /// C07: generic functions with a `dyn Trait` parameter, type parameters instantiated at `dyn Trait`
    pub dyn_generics: bool,
    /// C07: a generic function used as a first-class value (known finding): own stream
    pub generic_fn_values: bool,
    /// C07: next to the generic inherent impls of the library, inherent impls of single instantiations
    /// (`impl Bx[int32]`) that define the same method names with other bodies; calls on the exact
    /// instantiation, on others, through generic functions, nested, and as `Type::m(..)` paths
    pub overlapping_impls: bool,
    /// C07/C03: generic functions (and impl methods) whose type parameters occur only in the result type
    /// (`fn nothing[T]() -> Opt[T]`, `fn tagged[T, U](x: T) -> (T, Opt[U])`, `-> Vec[T]`, `-> (U) -> U`), or in result
    /// and body but in no parameter; called at several instantiations fixed by an annotation, by a later
    /// use, or by being passed on
    pub result_only_generics: bool,
    /// C07: finite polymorphic recursion — a generic function (pair of functions, impl method) that calls
    /// ITSELF at another, fixed instantiation under a bool/counter guard, with trait dispatch inside so
    /// that the instance matters observably (the set of instances is finite: the inner call is at a constant type)
    pub finite_polyrec: bool,
    /// C06: matches with nested patterns (tuples, structs, enums, literals) over random data types
    pub nested_patterns: bool,
    /// C09: the right operand of `&&` / `||` is a "nearly trivial" shape around a printing call
    /// (field of a returned struct / of a struct literal, tuple projection, `!`, `array_get` of a
    /// literal array) — must stay unevaluated when the left operand decides
    pub logic_rhs_shapes: bool,
    /// coverage audit: the shapes of `progen_cov.rs` (arms of the semantic passes no other generator reached)
    pub cov_shapes: bool,
}

#[path = "progen_cov.rs"]
mod cov;

struct StructD {
    fields: Vec<T>,
}
struct EnumD {
    variants: Vec<Vec<T>>,
}
struct FnD {
    name: String,
    params: Vec<T>,
    ret: T,
    /// number of type parameters (0 = monomorphic); parameter i is `Param(i)`
    tparams: usize,
    /// type parameters carrying a `Show` bound
    bounded: Vec<usize>,
}

pub struct Gen<'a> {
    rng: &'a mut Rng,
    cfg: Cfg,
    structs: Vec<StructD>,
    enums: Vec<EnumD>,
    fns: Vec<FnD>,
    show_impls: Vec<T>,
    /// type parameters with a `Show` bound while the body of a generic function is generated
    cur_bounded: Vec<usize>,
    /// C03: inject exactly one type error at the `at`-th site of kind `kind`
    pub inject: Option<(&'static str, usize)>,
    pub site_count: BTreeMap<&'static str, usize>,
    pub injected: Option<String>,
    /// the next `block` is the body of a top-level function (its tail must have the declared result type)
    top_block: bool,
    uid: usize,
    pub feats: BTreeMap<&'static str, usize>,
}

type Scope = Vec<(String, T)>;

impl<'a> Gen<'a> {
    pub fn new(rng: &'a mut Rng, cfg: Cfg) -> Self {
        // the flags that extend the rich-generics library mean nothing without it
        let cfg = Cfg {
            overlapping_impls: cfg.overlapping_impls && cfg.rich_generics,
            result_only_generics: cfg.result_only_generics && cfg.rich_generics,
            finite_polyrec: cfg.finite_polyrec && cfg.rich_generics,
            ..cfg
        };
        Gen { rng, cfg, structs: vec![], enums: vec![], fns: vec![], show_impls: vec![], cur_bounded: vec![], inject: None, site_count: BTreeMap::new(), injected: None, top_block: false, uid: 0, feats: BTreeMap::new() }
    }
    fn feat(&mut self, f: &'static str) {
        *self.feats.entry(f).or_default() += 1;
    }
    /// a place where the context forces the type of what is written there; true = write the error here
    fn hit(&mut self, kind: &'static str) -> bool {
        let c = self.site_count.entry(kind).or_default();
        let idx = *c;
        *c += 1;
        if self.injected.is_none() && self.inject == Some((kind, idx)) {
            self.injected = Some(format!("{}@{}", kind, idx));
            if std::env::var("GV_DEBUG_HIT").is_ok() {
                eprintln!("{}", std::backtrace::Backtrace::force_capture());
            }
            true
        } else {
            false
        }
    }
    /// a literal whose type is certainly not `t`
    fn wrong_value(t: &T) -> String {
        if *t == T::Bool { "\"w\"".into() } else { "true".into() }
    }
    fn fresh(&mut self, p: &str) -> String {
        self.uid += 1;
        format!("{}{}", p, self.uid)
    }
    pub fn ty_text(&self, t: &T) -> String {
        match t {
            T::I32 => "int32".into(),
            T::I8 => "int8".into(),
            T::U8 => "uint8".into(),
            T::I64 => "int64".into(),
            T::U32 => "uint32".into(),
            T::Bool => "bool".into(),
            T::Str => "string".into(),
            T::Unit => "unit".into(),
            T::Tuple(ts) => format!("({})", ts.iter().map(|t| self.ty_text(t)).collect::<Vec<_>>().join(", ")),
            T::Struct(i) => format!("S{}", i),
            T::Enum(i) => format!("E{}", i),
            T::Opt(t) => format!("Opt[{}]", self.ty_text(t)),
            T::Arr(t, n) => format!("[{}; {}]", self.ty_text(t), n),
            T::Vec(t) => format!("Vec[{}]", self.ty_text(t)),
            T::Ref(t) => format!("Ref[{}]", self.ty_text(t)),
            T::Fn(ps, r) => format!("({}) -> {}", ps.iter().map(|t| self.ty_text(t)).collect::<Vec<_>>().join(", "), self.ty_text(r)),
            T::Bx(t) => format!("Bx[{}]", self.ty_text(t)),
            T::Pr(a, b) => format!("Pr[{}, {}]", self.ty_text(a), self.ty_text(b)),
            T::Lst(t) => format!("Lst[{}]", self.ty_text(t)),
            T::Param(i) => ["A", "B", "C"][*i].to_string(),
        }
    }
    fn base_ty(&mut self) -> T {
        match self.rng.below(10) {
            0..=3 => T::I32,
            4 => T::Bool,
            5 => T::Str,
            6 => T::I8,
            7 => T::U8,
            8 => T::I64,
            _ => T::U32,
        }
    }
    fn data_ty(&mut self, depth: usize) -> T {
        if self.cfg.rich_generics {
            return self.rich_ty(depth);
        }
        if depth == 0 {
            return self.base_ty();
        }
        match self.rng.below(14) {
            0..=4 => self.base_ty(),
            5 => {
                let n = 2 + self.rng.below(2);
                T::Tuple((0..n).map(|_| self.data_ty(depth - 1)).collect())
            }
            6 if !self.structs.is_empty() => T::Struct(self.rng.below(self.structs.len())),
            7 if !self.enums.is_empty() => T::Enum(self.rng.below(self.enums.len())),
            8 if self.cfg.generics => T::Opt(Box::new(self.data_ty(depth - 1))),
            9 => T::Arr(Box::new(self.base_ty()), 2 + self.rng.below(2)),
            10 => T::Vec(Box::new(self.base_ty())),
            11 => T::Ref(Box::new(self.base_ty())),
            12 => T::Unit,
            _ => self.base_ty(),
        }
    }
    fn int_lit(&mut self, t: &T) -> String {
        let small = self.rng.chance(3, 4);
        let (v, suf): (String, &str) = match t {
            T::I32 => (
                if small { format!("{}", self.rng.below(10)) } else { format!("{}", [2147483647i64, 1000003, 46341, 65536][self.rng.below(4)]) },
                if self.rng.chance(1, 4) { "i32" } else { "" },
            ),
            T::I8 => (if small { format!("{}", self.rng.below(6)) } else { format!("{}", [127, 100, 64, 13][self.rng.below(4)]) }, "i8"),
            T::U8 => (if small { format!("{}", self.rng.below(6)) } else { format!("{}", [255, 200, 128, 16][self.rng.below(4)]) }, "u8"),
            T::I64 => (
                if small { format!("{}", self.rng.below(10)) } else { format!("{}", [9223372036854775807i64, 4294967296, 3037000500][self.rng.below(3)]) },
                "i64",
            ),
            T::U32 => (if small { format!("{}", self.rng.below(10)) } else { format!("{}", [4294967295u64, 65536, 3000000000][self.rng.below(3)]) }, "u32"),
            _ => ("0".into(), ""),
        };
        format!("{}{}", v, suf)
    }
    fn is_int(t: &T) -> bool {
        matches!(t, T::I32 | T::I8 | T::U8 | T::I64 | T::U32)
    }
    fn to_string_fn(t: &T) -> &'static str {
        match t {
            T::I32 => "int32_to_string",
            T::I8 => "int8_to_string",
            T::U8 => "uint8_to_string",
            T::I64 => "int64_to_string",
            T::U32 => "uint32_to_string",
            T::Bool => "bool_to_string",
            T::Unit => "unit_to_string",
            _ => "",
        }
    }
    fn vars_of<'s>(scope: &'s Scope, t: &T) -> Vec<&'s String> {
        scope.iter().filter(|(_, ty)| ty == t).map(|(n, _)| n).collect()
    }

    /// an expression of type `t`; may emit preparatory statements into `pre`
    fn expr(&mut self, t: &T, scope: &Scope, depth: usize, pre: &mut String) -> String {
        let vars = Self::vars_of(scope, t);
        if !vars.is_empty() && (depth == 0 || self.rng.chance(2, 5)) {
            return (*self.rng.pick(&vars)).clone();
        }
        if depth == 0 {
            return self.leaf(t, scope, pre);
        }
        let d = depth - 1;
        if self.cfg.cov_shapes && self.rng.chance(1, 5) && let Some(e) = cov::expr(self, t, scope, d, pre) {
            return e;
        }
        if self.cfg.src_forms && self.rng.chance(1, 4) {
            if let Some(e) = self.src_form(t, scope, d, pre) {
                return e;
            }
        }
        if self.cfg.rich_generics && self.rng.chance(2, 5) {
            if let Some(e) = self.generic_call(t, scope, d, pre) {
                return e;
            }
        }
        // forms available at every type
        match self.rng.below(12) {
            0 => {
                self.feat("if");
                let c = if self.hit("cond-type") { "7".to_string() } else { self.expr(&T::Bool, scope, d, pre) };
                let a = self.block(t, scope, d);
                let b = if self.hit("branch-type") { format!("{{ {} }}", Self::wrong_value(t)) } else { self.block(t, scope, d) };
                return format!("if {} {} else {}", c, a, b);
            }
            1 if !self.enums.is_empty() => {
                self.feat("match-enum");
                let ei = self.rng.below(self.enums.len());
                let s = self.expr(&T::Enum(ei), scope, d, pre);
                let nv = self.enums[ei].variants.len();
                let mut arms = String::new();
                let wildcard_from = if self.rng.chance(1, 4) { 1 + self.rng.below(nv) } else { nv };
                for vi in 0..nv.min(wildcard_from) {
                    let payload = self.enums[ei].variants[vi].clone();
                    let mut sc = scope.clone();
                    let mut pats = Vec::new();
                    for pt in &payload {
                        if self.rng.chance(1, 5) {
                            pats.push("_".to_string());
                        } else {
                            let v = self.fresh("p");
                            sc.push((v.clone(), pt.clone()));
                            pats.push(v);
                        }
                    }
                    let body = self.arm_body(t, &sc, d);
                    if payload.is_empty() {
                        write!(arms, "E{}::V{}_{} => {}, ", ei, ei, vi, body).unwrap();
                    } else {
                        write!(arms, "E{}::V{}_{}({}) => {}, ", ei, ei, vi, pats.join(", "), body).unwrap();
                    }
                }
                if wildcard_from < nv {
                    let body = self.arm_body(t, scope, d);
                    write!(arms, "_ => {}, ", body).unwrap();
                }
                return format!("match {} {{ {}}}", s, arms);
            }
            2 => {
                self.feat("match-int");
                let it = [T::I32, T::U8, T::I8][self.rng.below(3)].clone();
                let s = self.expr(&it, scope, d, pre);
                let a = self.arm_body(t, scope, d);
                let b = if self.hit("arm-type") { Self::wrong_value(t) } else { self.arm_body(t, scope, d) };
                let v = self.fresh("n");
                let mut sc = scope.clone();
                sc.push((v.clone(), it.clone()));
                let c = self.arm_body(t, &sc, d);
                let suf = match it { T::U8 => "u8", T::I8 => "i8", _ => "" };
                return format!("match {} {{ 0{} => {}, 1{} => {}, {} => {}, }}", s, suf, a, suf, b, v, c);
            }
            3 => {
                self.feat("match-tuple-bool");
                let s1 = self.expr(&T::Bool, scope, d, pre);
                let s2 = self.expr(&T::Bool, scope, d, pre);
                let a = self.arm_body(t, scope, d);
                let b = self.arm_body(t, scope, d);
                let c = self.arm_body(t, scope, d);
                return format!("match ({}, {}) {{ (true, false) => {}, (false, _) => {}, _ => {}, }}", s1, s2, a, b, c);
            }
            4 if !self.fns.is_empty() => {
                let cands: Vec<usize> = self.fns.iter().enumerate().filter(|(_, f)| f.tparams == 0 && &f.ret == t).map(|(i, _)| i).collect();
                if !cands.is_empty() {
                    self.feat("call");
                    let fi = *self.rng.pick(&cands);
                    let ps = self.fns[fi].params.clone();
                    let name = self.fns[fi].name.clone();
                    let mut args: Vec<String> =
                        ps.iter().map(|p| if self.hit("arg-type") { Self::wrong_value(p) } else { self.expr(p, scope, d, pre) }).collect();
                    if self.hit("arity") {
                        if args.is_empty() || self.rng.chance(1, 2) { args.push("0".into()) } else { args.pop(); }
                    }
                    return format!("{}({})", name, args.join(", "));
                }
            }
            5 if self.cfg.generics && !self.cfg.rich_generics => {
                self.feat("generic-call");
                let c = self.expr(&T::Bool, scope, d, pre);
                let a = self.expr(t, scope, d, pre);
                let b = self.expr(t, scope, d, pre);
                return format!("pick({}, {}, {})", c, a, b);
            }
            6 => {
                // closure bound and called
                self.feat("closure-call");
                let pt = self.base_ty();
                let p = self.fresh("a");
                let mut sc = scope.clone();
                sc.push((p.clone(), pt.clone()));
                let body = if self.rng.chance(1, 2) { self.block(t, &sc, d) } else { self.expr_nopre(t, &sc, d) };
                let f = self.fresh("fc");
                let arg = self.expr(&pt, scope, d, pre);
                write!(pre, "let {} = |{}: {}| {}; ", f, p, self.ty_text(&pt), body).unwrap();
                return format!("{}({})", f, arg);
            }
            7 => {
                // projection out of a tuple built in place
                self.feat("tuple-proj");
                let other = self.base_ty();
                let a = self.expr(t, scope, d, pre);
                let b = self.expr(&other, scope, d, pre);
                let v = self.fresh("tp");
                write!(pre, "let {} = ({}, {}); ", v, a, b).unwrap();
                return format!("{}.0", v);
            }
            8 => {
                self.feat("ref-roundtrip");
                let a = self.expr(t, scope, d, pre);
                let r = self.fresh("r");
                write!(pre, "let {} = ref({}); ", r, a).unwrap();
                if self.rng.chance(1, 2) {
                    let b = self.expr(t, scope, d, pre);
                    write!(pre, "let _ = ref_set({}, {}); ", r, b).unwrap();
                }
                return format!("ref_get({})", r);
            }
            9 => {
                self.feat("array-roundtrip");
                let a = self.expr(t, scope, d, pre);
                let b = if self.hit("elem-type") { Self::wrong_value(t) } else { self.expr(t, scope, d, pre) };
                let arr = self.fresh("ar");
                write!(pre, "let {} = [{}, {}]; ", arr, a, b).unwrap();
                let i = self.rng.below(2);
                return format!("array_get({}, {})", arr, i);
            }
            10 if self.cfg.nested_patterns => {
                self.feat("match-nested");
                let st = self.data_ty(2);
                let s = self.expr(&st, scope, d, pre);
                let mut arms = String::new();
                for _ in 0..1 + self.rng.below(4) {
                    let mut sc = scope.clone();
                    let p = self.pattern(&st, 2, &mut sc);
                    let body = self.arm_body(t, &sc, d);
                    write!(arms, "{} => {}, ", p, body).unwrap();
                }
                let body = self.arm_body(t, scope, d);
                write!(arms, "_ => {}, ", body).unwrap();
                return format!("match {} {{ {}}}", s, arms);
            }
            _ => {}
        }
        self.typed_expr(t, scope, d, pre)
    }

    fn shuffle(&mut self, xs: &mut Vec<usize>) {
        for i in (1..xs.len()).rev() {
            let j = self.rng.below(i + 1);
            xs.swap(i, j);
        }
    }

    /// a literal pattern of type `t` (integers carry their suffix half of the time where one exists)
    fn lit_pat(&mut self, t: &T) -> Option<String> {
        let n = self.rng.below(4);
        Some(match t {
            T::I32 => if self.rng.chance(1, 3) { format!("{}i32", n) } else { format!("{}", [0, 1, 2, 7, 1000003][self.rng.below(5)]) },
            T::I8 => format!("{}i8", [0, 1, 5, 127][n]),
            T::U8 => format!("{}u8", [0, 1, 16, 255][n]),
            T::I64 => format!("{}i64", [0i64, 3, 4294967296, 9223372036854775807][n]),
            T::U32 => format!("{}u32", [0u32, 2, 65536, 4294967295][n]),
            T::Bool => if n < 2 { "true".into() } else { "false".into() },
            T::Str => format!("\"{}\"", ["a", "bc", "", "goml"][n]),
            _ => return None,
        })
    }

    /// a pattern for struct `si` with its fields written in declaration, reversed or shuffled
    /// order; sub-patterns are variables (added to `sc`), `_`, shorthand `f0`, or — when
    /// `refutable` — literals
    fn struct_pat(&mut self, si: usize, sc: &mut Scope, refutable: bool) -> String {
        let fts = self.structs[si].fields.clone();
        let mut order: Vec<usize> = (0..fts.len()).collect();
        match self.rng.below(3) {
            0 => self.feat("struct-pat-declared-order"),
            1 => {
                order.reverse();
                self.feat("struct-pat-reversed-order");
            }
            _ => {
                self.shuffle(&mut order);
                self.feat("struct-pat-shuffled-order");
            }
        }
        let mut parts = Vec::new();
        for k in order {
            let ft = fts[k].clone();
            match self.rng.below(6) {
                0 => parts.push(format!("f{}: _", k)),
                1 => {
                    self.feat("struct-pat-shorthand");
                    // the shorthand binder shadows an earlier binder of that name (of any type)
                    sc.retain(|(n, _)| *n != format!("f{}", k));
                    sc.push((format!("f{}", k), ft));
                    parts.push(format!("f{}", k));
                }
                2 | 3 if refutable => match self.lit_pat(&ft) {
                    Some(l) => {
                        self.feat("struct-pat-literal-field");
                        parts.push(format!("f{}: {}", k, l));
                    }
                    None => parts.push(format!("f{}: _", k)),
                },
                _ => {
                    let v = self.fresh("b");
                    sc.push((v.clone(), ft));
                    parts.push(format!("f{}: {}", k, v));
                }
            }
        }
        format!("S{} {{ {} }}", si, parts.join(", "))
    }

    /// surface forms whose meaning the front end decides (Cfg::src_forms)
    fn src_form(&mut self, t: &T, scope: &Scope, d: usize, pre: &mut String) -> Option<String> {
        match self.rng.below(7) {
            0 | 1 => {
                // match on a struct: refutable arms with literal fields, then an irrefutable one
                self.feat("match-struct");
                let si = self.rng.below(self.structs.len());
                // (a struct literal cannot stand in scrutinee position: bind it first)
                let s = self.fresh("ms");
                let e = self.expr(&T::Struct(si), scope, d, pre);
                write!(pre, "let {} = {}; ", s, e).unwrap();
                let mut arms = String::new();
                for _ in 0..self.rng.below(3) {
                    let mut sc = scope.clone();
                    let p = self.struct_pat(si, &mut sc, true);
                    let body = self.arm_body(t, &sc, d);
                    write!(arms, "{} => {}, ", p, body).unwrap();
                }
                let mut sc = scope.clone();
                let p = if self.rng.chance(1, 3) { "_".to_string() } else { self.struct_pat(si, &mut sc, false) };
                let body = self.arm_body(t, &sc, d);
                write!(arms, "{} => {}, ", p, body).unwrap();
                Some(format!("match {} {{ {}}}", s, arms))
            }
            2 => {
                // struct inside an enum inside a tuple
                self.feat("match-nested-struct-enum-tuple");
                let k = self.expr(&T::I32, scope, d, pre);
                let scrut_enum = match self.rng.below(4) {
                    0 => "EN::NB".to_string(),
                    1 => format!("EN::NC({})", self.expr(&T::I32, scope, d, pre)),
                    _ => {
                        let sv = self.expr(&T::Struct(0), scope, d, pre);
                        let n = self.expr(&T::I32, scope, d, pre);
                        format!("EN::NA({}, {})", sv, n)
                    }
                };
                let mut arms = String::new();
                {
                    let mut sc = scope.clone();
                    let p = self.struct_pat(0, &mut sc, true);
                    let lit = self.lit_pat(&T::I32).unwrap();
                    let body = self.arm_body(t, &sc, d);
                    write!(arms, "(EN::NA({}, _), {}) => {}, ", p, lit, body).unwrap();
                }
                {
                    let mut sc = scope.clone();
                    let p = self.struct_pat(0, &mut sc, false);
                    let v = self.fresh("n");
                    sc.push((v.clone(), T::I32));
                    let body = self.arm_body(t, &sc, d);
                    write!(arms, "(EN::NA({}, {}), _) => {}, ", p, v, body).unwrap();
                }
                {
                    let v = self.fresh("n");
                    let mut sc = scope.clone();
                    sc.push((v.clone(), T::I32));
                    let body = self.arm_body(t, &sc, d);
                    write!(arms, "(EN::NC(7), {}) => {}, ", v, body).unwrap();
                }
                let body = self.arm_body(t, scope, d);
                write!(arms, "_ => {}, ", body).unwrap();
                // (the parser takes no struct literal anywhere inside a scrutinee: bind it first)
                let sv = self.fresh("ms");
                write!(pre, "let {} = ({}, {}); ", sv, scrut_enum, k).unwrap();
                Some(format!("match {} {{ {}}}", sv, arms))
            }
            3 => {
                // string / wide-integer literal patterns
                let st = [T::Str, T::I64, T::U32, T::I32, T::Bool][self.rng.below(5)].clone();
                self.feat(if st == T::Str { "match-string-literal" } else { "match-literal" });
                let s = self.expr(&st, scope, d, pre);
                let mut arms = String::new();
                for _ in 0..1 + self.rng.below(3) {
                    let l = self.lit_pat(&st).unwrap();
                    let body = self.arm_body(t, scope, d);
                    write!(arms, "{} => {}, ", l, body).unwrap();
                }
                let v = self.fresh("n");
                let mut sc = scope.clone();
                sc.push((v.clone(), st.clone()));
                let body = self.arm_body(t, &sc, d);
                write!(arms, "{} => {}, ", v, body).unwrap();
                Some(format!("match {} {{ {}}}", s, arms))
            }
            4 if *t == T::I32 => {
                // a local (let / closure parameter / pattern variable) spelled like a function
                self.feat("local-shadows-function");
                let name = ["fun0", "fun1", "fun2", "main", "pick", "show_twice", "string_len"][self.rng.below(7)];
                let a = self.int_lit(&T::I32);
                let b = self.int_lit(&T::I32);
                Some(match self.rng.below(3) {
                    0 => format!("if true {{ let {n} = {a}; ({n} + {b}) }} else {{ {b} }}", n = name, a = a, b = b),
                    1 => {
                        let c = self.fresh("fc");
                        write!(pre, "let {c} = |{n}: int32| ({n} * {b}); ", c = c, n = name, b = b).unwrap();
                        format!("{}({})", c, a)
                    }
                    _ => format!("match ({a}, {b}) {{ ({n}, _) => ({n} - 1), }}", a = a, b = b, n = name),
                })
            }
            5 if *t == T::I32 && self.cfg.traits => {
                // the three call forms of a method on one receiver; the inherent and the trait method
                // share their name and differ in what they compute
                self.feat("method-three-forms");
                let rv = self.fresh("rv");
                let e = self.expr(&T::Struct(0), scope, d, pre);
                write!(pre, "let {}: S0 = {}; ", rv, e).unwrap();
                let k = self.int_lit(&T::I32);
                Some(format!("((({rv}.tag({k}) * 3) + (S0::tag({rv}, {k}) * 5)) + (Tagged::tag({rv}, {k}) + Tagged::other({rv})))", rv = rv, k = k))
            }
            6 if *t == T::I32 && self.cfg.traits && self.cfg.generics => {
                self.feat("method-via-bound");
                let e = self.expr(&T::Enum(0), scope, d, pre);
                Some(format!("tag_via_bound({})", e))
            }
            _ => None,
        }
    }

    /// a pattern of type `t` with constructor nesting ≤ `depth`; its variables are added to `sc`
    fn pattern(&mut self, t: &T, depth: usize, sc: &mut Scope) -> String {
        let k = self.rng.below(8);
        if k == 0 {
            return "_".into();
        }
        if k == 1 || depth == 0 && !(Self::is_int(t) || matches!(t, T::Bool | T::Str | T::Unit)) {
            let v = self.fresh("pv");
            sc.push((v.clone(), t.clone()));
            return v;
        }
        let d = depth.saturating_sub(1);
        match t {
            t if Self::is_int(t) => {
                self.feat("pat-int");
                self.int_lit(t)
            }
            T::Bool => if self.rng.chance(1, 2) { "true".into() } else { "false".into() },
            T::Str => {
                self.feat("pat-str");
                format!("\"{}\"", ["a", "bc", "", "goml"][self.rng.below(4)])
            }
            T::Unit => "()".into(),
            T::Tuple(ts) => {
                self.feat("pat-tuple");
                let ps: Vec<String> = ts.iter().map(|t| self.pattern(t, d, sc)).collect();
                format!("({})", ps.join(", "))
            }
            T::Struct(i) => {
                self.feat("pat-struct");
                let fts = self.structs[*i].fields.clone();
                let ps: Vec<String> = fts.iter().enumerate().map(|(k, ft)| format!("f{}: {}", k, self.pattern(ft, d, sc))).collect();
                format!("S{} {{ {} }}", i, ps.join(", "))
            }
            T::Enum(i) => {
                self.feat("pat-enum");
                let vi = self.rng.below(self.enums[*i].variants.len());
                let payload = self.enums[*i].variants[vi].clone();
                if payload.is_empty() {
                    format!("E{}::V{}_{}", i, i, vi)
                } else {
                    let ps: Vec<String> = payload.iter().map(|p| self.pattern(p, d, sc)).collect();
                    format!("E{}::V{}_{}({})", i, i, vi, ps.join(", "))
                }
            }
            T::Opt(inner) => {
                self.feat("pat-generic-enum");
                if self.rng.chance(1, 3) { "Opt::Non".into() } else { format!("Opt::Som({})", self.pattern(inner, d, sc)) }
            }
            _ => {
                let v = self.fresh("pv");
                sc.push((v.clone(), t.clone()));
                v
            }
        }
    }

    fn expr_nopre(&mut self, t: &T, scope: &Scope, depth: usize) -> String {
        let mut pre = String::new();
        let e = self.expr(t, scope, depth, &mut pre);
        if pre.is_empty() { e } else { format!("{{ {}{} }}", pre, e) }
    }

    /// an expression that needs no preparatory statements (operand positions where hoisting
    /// statements in front would change what is evaluated, e.g. the right side of `&&`)
    fn pure_expr(&mut self, t: &T, scope: &Scope, depth: usize) -> String {
        let mut pre = String::new();
        // what is generated here may be thrown away: no injection site inside
        let saved = (self.inject.take(), self.site_count.clone());
        let e = self.expr(t, scope, depth, &mut pre);
        let restore = |g: &mut Self, saved: (Option<(&'static str, usize)>, BTreeMap<&'static str, usize>)| {
            g.inject = saved.0;
            g.site_count = saved.1;
        };
        if pre.is_empty() {
            restore(self, saved);
            return e;
        }
        let mut pre2 = String::new();
        let l = self.leaf(t, scope, &mut pre2);
        restore(self, saved);
        if pre2.is_empty() { l } else { "true".into() }
    }

    fn arm_body(&mut self, t: &T, scope: &Scope, depth: usize) -> String {
        if self.rng.chance(1, 2) { self.block(t, scope, depth) } else { self.expr_nopre(t, scope, depth) }
    }

    /// forms specific to the type
    fn typed_expr(&mut self, t: &T, scope: &Scope, d: usize, pre: &mut String) -> String {
        match t {
            t if Self::is_int(t) => {
                if self.rng.chance(1, 8) && *t == T::I32 {
                    self.feat("string_len");
                    let s = self.expr(&T::Str, scope, d, pre);
                    return format!("string_len({})", s);
                }
                if self.rng.chance(1, 8) && *t == T::I32 {
                    self.feat("vec_len");
                    let v = self.expr(&T::Vec(Box::new(T::I32)), scope, d, pre);
                    return format!("vec_len({})", v);
                }
                let a = self.expr(t, scope, d, pre);
                // `b` is not used by every operator below: no injection site inside it
                let saved = (self.inject.take(), self.site_count.clone());
                let b = self.expr(t, scope, d, pre);
                self.inject = saved.0;
                self.site_count = saved.1;
                match self.rng.below(5) {
                    0 => {
                        self.feat("arith-add");
                        let b = if self.hit("operand-type") { "true".to_string() } else { b };
                        format!("({} + {})", a, b)
                    }
                    1 => {
                        self.feat("arith-sub");
                        let b = if self.hit("operand-type") { "true".to_string() } else { b };
                        format!("({} - {})", a, b)
                    }
                    2 => {
                        self.feat("arith-mul");
                        let b = if self.hit("operand-type") { "true".to_string() } else { b };
                        format!("({} * {})", a, b)
                    }
                    3 => {
                        // division by a value that cannot be zero
                        self.feat("arith-div");
                        let lit = self.int_lit(t);
                        let nz = if lit.starts_with('0') { format!("3{}", &lit[1..]) } else { lit };
                        format!("({} / {})", a, nz)
                    }
                    _ => {
                        if matches!(t, T::I32 | T::I8 | T::I64) {
                            self.feat("arith-neg");
                            format!("(-{})", a)
                        } else {
                            format!("({} + {})", a, b)
                        }
                    }
                }
            }
            T::Bool => match self.rng.below(6) {
                0 => {
                    self.feat("cmp");
                    let it = self.base_ty();
                    let it = if Self::is_int(&it) { it } else { T::I32 };
                    let a = self.expr(&it, scope, d, pre);
                    let b = self.expr(&it, scope, d, pre);
                    let op = ["<", ">", "<=", ">=", "==", "!="][self.rng.below(6)];
                    format!("({} {} {})", a, op, b)
                }
                1 => {
                    self.feat("logic-and");
                    let a = self.expr(&T::Bool, scope, d, pre);
                    let b = if self.cfg.logic_rhs_shapes && self.rng.chance(1, 2) {
                        self.logic_rhs_shape(scope)
                    } else {
                        self.pure_expr(&T::Bool, scope, d)
                    };
                    format!("({} && {})", a, b)
                }
                2 => {
                    self.feat("logic-or");
                    let a = self.expr(&T::Bool, scope, d, pre);
                    let b = if self.cfg.logic_rhs_shapes && self.rng.chance(1, 2) {
                        self.logic_rhs_shape(scope)
                    } else {
                        self.pure_expr(&T::Bool, scope, d)
                    };
                    format!("({} || {})", a, b)
                }
                3 => {
                    self.feat("logic-not");
                    let a = self.expr(&T::Bool, scope, d, pre);
                    format!("(!{})", a)
                }
                4 => {
                    self.feat("str-eq");
                    let a = self.expr(&T::Str, scope, d, pre);
                    let b = self.expr(&T::Str, scope, d, pre);
                    format!("({} == {})", a, b)
                }
                _ => self.leaf(t, scope, pre),
            },
            T::Str if !self.cur_bounded.is_empty() && self.rng.chance(1, 2) && self.bounded_var(scope).is_some() => {
                self.feat("bounded-trait-call");
                let v = self.bounded_var(scope).unwrap();
                match self.rng.below(3) {
                    0 => format!("Show::show({})", v),
                    1 => format!("show_twice({})", v),
                    _ if v.starts_with('y') => format!("{}.show()", v),
                    _ => format!("Show::show({})", v),
                }
            }
            T::Str => match self.rng.below(5) {
                0 => {
                    self.feat("str-concat");
                    let a = self.expr(&T::Str, scope, d, pre);
                    let b = self.expr(&T::Str, scope, d, pre);
                    format!("({} + {})", a, b)
                }
                1 | 2 => {
                    self.feat("to_string");
                    let it = self.base_ty();
                    let it = if it == T::Str { T::I32 } else { it };
                    let a = if self.hit("arg-type") { Self::wrong_value(&it) } else { self.expr(&it, scope, d, pre) };
                    format!("{}({})", Self::to_string_fn(&it), a)
                }
                3 if self.cfg.traits && !self.show_impls.is_empty() => {
                    self.feat("trait-call");
                    let st = self.rng.pick(&self.show_impls.clone()).clone();
                    let a = if self.hit("annot-type") { Self::wrong_value(&st) } else { self.expr(&st, scope, d, pre) };
                    let tv = self.fresh("sv");
                    write!(pre, "let {}: {} = {}; ", tv, self.ty_text(&st), a).unwrap();
                    match self.rng.below(4) {
                        0 => format!("Show::show({})", tv),
                        1 => format!("show_twice({})", tv),
                        // (an instance of a generic type behind `dyn` does not reach its impl: C17's finding)
                        2 if !matches!(st, T::Bx(_) | T::Opt(_)) => {
                            self.feat("dyn-call");
                            let v = self.fresh("dy");
                            write!(pre, "let {}: dyn Show = {}; ", v, tv).unwrap();
                            format!("Show::show({})", v)
                        }
                        _ => format!("Show::show({})", tv),
                    }
                }
                _ => self.leaf(t, scope, pre),
            },
            T::Unit => {
                if self.cfg.effects && self.rng.chance(1, 2) {
                    self.feat("print");
                    let s = self.expr(&T::Str, scope, d, pre);
                    format!("string_println({})", s)
                } else {
                    "()".into()
                }
            }
            T::Tuple(ts) => {
                self.feat("tuple");
                let items: Vec<String> = ts.clone().iter().map(|t| self.expr(t, scope, d, pre)).collect();
                format!("({})", items.join(", "))
            }
            T::Struct(i) => {
                self.feat("struct-lit");
                let fts = self.structs[*i].fields.clone();
                let mut order: Vec<usize> = (0..fts.len()).collect();
                if self.cfg.src_forms && fts.len() > 1 && self.rng.chance(1, 2) {
                    self.feat("struct-lit-out-of-order");
                    if self.rng.chance(1, 2) { order.reverse() } else { self.shuffle(&mut order) }
                }
                let in_order = order.iter().enumerate().all(|(a, b)| a == *b);
                let mut fields = Vec::new();
                for k in order {
                    let mut e = if self.hit("field-type") { Self::wrong_value(&fts[k]) } else { self.expr(&fts[k], scope, d, pre) };
                    let unknown = self.hit("unknown-field");
                    if !in_order && !self.cfg.lit_field_effects {
                        // main stream: the initialisers are evaluated by `let`s in WRITTEN order and the
                        // literal only mentions variables (the order in which a literal's own
                        // initialisers run is the separate `lit_field_effects` stream)
                        let tv = self.fresh("li");
                        write!(pre, "let {} = {}; ", tv, e).unwrap();
                        e = tv;
                    } else if !in_order {
                        // every initialiser announces itself when it runs
                        self.feat("struct-lit-out-of-order-effectful");
                        e = format!("trace(\"f{}\", {})", k, e);
                    }
                    // shorthand `S { f0 }` when a variable of that name and type is in scope
                    // (`S { f0 }` with a single field is read as a block by the parser: needs two fields)
                    if unknown {
                        fields.push(format!("zz{}: {}", k, e));
                    } else if self.cfg.src_forms && fts.len() > 1 && e == format!("f{}", k) {
                        self.feat("struct-lit-shorthand");
                        fields.push(format!("f{}", k));
                    } else {
                        fields.push(format!("f{}: {}", k, e));
                    }
                }
                format!("S{} {{ {} }}", i, fields.join(", "))
            }
            T::Enum(i) => {
                self.feat("enum-ctor");
                let vi = self.rng.below(self.enums[*i].variants.len());
                let payload = self.enums[*i].variants[vi].clone();
                if payload.is_empty() {
                    format!("E{}::V{}_{}", i, i, vi)
                } else {
                    let args: Vec<String> = payload.iter().map(|p| self.expr(p, scope, d, pre)).collect();
                    format!("E{}::V{}_{}({})", i, i, vi, args.join(", "))
                }
            }
            T::Opt(inner) => {
                self.feat("generic-enum");
                if self.rng.chance(1, 3) {
                    // annotate so that the type argument is determined
                    let v = self.fresh("o");
                    write!(pre, "let {}: {} = Opt::Non; ", v, self.ty_text(t)).unwrap();
                    v
                } else {
                    let a = self.expr(inner, scope, d, pre);
                    format!("Opt::Som({})", a)
                }
            }
            T::Arr(e, n) => {
                self.feat("array-lit");
                let items: Vec<String> = (0..*n).map(|_| self.expr(e, scope, d, pre)).collect();
                if self.rng.chance(1, 3) {
                    let v = self.expr(e, scope, d, pre);
                    let i = self.rng.below(*n);
                    self.feat("array_set");
                    if self.cfg.wildcard_arrays {
                        // the builtin's result type carries a wildcard length (known finding): own stream
                        format!("array_set([{}], {}, {})", items.join(", "), i, v)
                    } else {
                        let name = self.fresh("as");
                        let mut items = items;
                        if self.hit("array-length") {
                            let extra = items[0].clone();
                            items.push(extra);
                        }
                        write!(pre, "let {}: {} = array_set([{}], {}, {}); ", name, self.ty_text(t), items.join(", "), i, v).unwrap();
                        name
                    }
                } else {
                    format!("[{}]", items.join(", "))
                }
            }
            T::Vec(e) => {
                self.feat("vec");
                let v0 = self.fresh("v");
                write!(pre, "let {}: {} = vec_new(); ", v0, self.ty_text(t)).unwrap();
                let mut cur = v0;
                for _ in 0..self.rng.below(3) {
                    let x = self.expr(e, scope, d, pre);
                    let nx = self.fresh("v");
                    write!(pre, "let {} = vec_push({}, {}); ", nx, cur, x).unwrap();
                    cur = nx;
                }
                cur
            }
            T::Ref(e) => {
                self.feat("ref");
                let a = self.expr(e, scope, d, pre);
                format!("ref({})", a)
            }
            T::Fn(ps, r) => {
                self.feat("closure-value");
                let mut sc = scope.clone();
                let mut names = Vec::new();
                for p in ps {
                    let n = self.fresh("c");
                    sc.push((n.clone(), p.clone()));
                    names.push(format!("{}: {}", n, self.ty_text(p)));
                }
                let body = self.expr_nopre(r, &sc, d);
                format!("|{}| {}", names.join(", "), body)
            }
            T::Bx(inner) => {
                self.feat("generic-struct");
                let a = self.expr(inner, scope, d, pre);
                if self.rng.chance(1, 2) { format!("Bx {{ v: {} }}", a) } else { format!("mkbx({})", a) }
            }
            T::Pr(x, y) => {
                self.feat("generic-struct2");
                let a = self.expr(x, scope, d, pre);
                let b = self.expr(y, scope, d, pre);
                match self.rng.below(3) {
                    0 => format!("mkpr({}, {})", a, b),
                    1 => format!("Pr::new({}, {})", a, b),
                    _ => format!("Pr {{ a: {}, b: {} }}", a, b),
                }
            }
            T::Lst(inner) => {
                self.feat("generic-rec-enum");
                let nil = self.fresh("nl");
                write!(pre, "let {}: {} = Lst::Nil; ", nil, self.ty_text(t)).unwrap();
                let mut cur = nil;
                for _ in 0..self.rng.below(3) {
                    let a = self.expr(inner, scope, d, pre);
                    cur = if self.rng.chance(1, 2) { format!("Lst::Cons({}, {})", a, cur) } else { format!("lcons({}, {})", a, cur) };
                }
                cur
            }
            T::Param(_) => {
                let vars = Self::vars_of(scope, t);
                (*self.rng.pick(&vars)).clone()
            }
            _ => self.leaf(t, scope, pre),
        }
    }

    /// `let <pattern> = <literal>;` / `match <literal> { <pattern> => … }` where the literal is a
    /// tuple, nested tuple, struct literal or constructor application whose components print, and
    /// the pattern names some components and ignores others with `_`: every component is an
    /// operand and runs exactly once, left to right
    fn let_literal_destructure(&mut self, sc: &mut Scope, s: &mut String) {
        self.feat("let-literal-destructure");
        let tag = self.fresh("dl");
        // component j: (effectful expression, type, named?)
        let mut comp = |g: &mut Self, j: usize, t: T| -> (String, Option<String>) {
            let e = match t {
                T::I32 => format!("nt_i(\"{}.{}\", {})", tag, j, g.rng.below(9)),
                T::Bool => format!("nt_b(\"{}.{}\", {})", tag, j, if g.rng.chance(1, 2) { "true" } else { "false" }),
                T::Str => format!("nt_s(\"{}.{}\", \"v{}\")", tag, j, j),
                _ => format!("string_println(\"{}.{}\")", tag, j),
            };
            if g.rng.chance(1, 2) {
                let v = g.fresh("dv");
                sc.push((v.clone(), t));
                (e, Some(v))
            } else {
                (e, None)
            }
        };
        let pat = |n: &Option<String>| n.clone().unwrap_or_else(|| "_".to_string());
        match self.rng.below(6) {
            0 => {
                self.feat("destructure:tuple");
                let ts = [T::I32, T::Bool, T::Str, T::Unit];
                let k = 2 + self.rng.below(2);
                let cs: Vec<(String, Option<String>)> = (0..k).map(|j| { let t = ts[self.rng.below(4)].clone(); comp(self, j, t) }).collect();
                write!(s, "let ({}) = ({}); ", cs.iter().map(|c| pat(&c.1)).collect::<Vec<_>>().join(", "), cs.iter().map(|c| c.0.clone()).collect::<Vec<_>>().join(", ")).unwrap();
            }
            1 => {
                self.feat("destructure:nested-tuple");
                let a = comp(self, 0, T::I32);
                let b = comp(self, 1, T::Unit);
                let c = comp(self, 2, T::Bool);
                write!(s, "let (({}, {}), {}) = (({}, {}), {}); ", pat(&a.1), pat(&b.1), pat(&c.1), a.0, b.0, c.0).unwrap();
            }
            2 => {
                self.feat("destructure:struct-literal");
                let a = comp(self, 0, T::I32);
                let b = comp(self, 1, T::Bool);
                let c = comp(self, 2, T::Str);
                write!(s, "let Ld {{ a: {}, b: {}, c: {} }} = Ld {{ a: {}, b: {}, c: {} }}; ", pat(&a.1), pat(&b.1), pat(&c.1), a.0, b.0, c.0).unwrap();
            }
            3 => {
                self.feat("destructure:ctor-match");
                let a = comp(self, 0, T::I32);
                let b = comp(self, 1, T::Bool);
                write!(s, "let _ = match Le::Mk({}, {}) {{ Le::Mk({}, {}) => string_println(\"{}.arm\"), Le::Other => (), }}; ", a.0, b.0, pat(&None), pat(&None), tag).unwrap();
                // (the arm's bindings are local to the arm: ignore both, bind nothing outside)
                for n in [a.1, b.1].into_iter().flatten() {
                    sc.retain(|(x, _)| *x != n);
                }
            }
            4 => {
                self.feat("destructure:tuple-match");
                let a = comp(self, 0, T::I32);
                let b = comp(self, 1, T::Unit);
                let keep = a.1.clone();
                for n in [a.1.clone(), b.1.clone()].into_iter().flatten() {
                    sc.retain(|(x, _)| *x != n);
                }
                let r = self.fresh("dm");
                match keep {
                    Some(x) => {
                        write!(s, "let {} = match ({}, {}) {{ ({}, _) => {}, }}; ", r, a.0, b.0, x, x).unwrap();
                        sc.push((r, T::I32));
                    }
                    None => write!(s, "let _ = match ({}, {}) {{ (_, _) => string_println(\"{}.arm\"), }}; ", a.0, b.0, tag).unwrap(),
                }
            }
            _ => {
                // inside a loop body, followed by the counter update
                self.feat("destructure:in-loop");
                let a = comp(self, 0, T::I32);
                let b = comp(self, 1, T::Unit);
                for n in [a.1.clone(), b.1.clone()].into_iter().flatten() {
                    sc.retain(|(x, _)| *x != n);
                }
                let c = self.fresh("i");
                write!(s, "let {c} = ref(0); while ref_get({c}) < 2 {{ let ({}, {}) = ({}, {}); let _ = ref_set({c}, ref_get({c}) + 1); }}; ", pat(&a.1), pat(&b.1), a.0, b.0, c = c).unwrap();
            }
        }
    }

    /// `go` as the first / a middle / the last statement of a loop body, of a branch or arm inside
    /// one, of a closure body, of nested loops: the statements after it still run, and the spawned
    /// activation itself prints
    fn go_in_position(&mut self, s: &mut String) {
        self.feat("go-in-position");
        let tag = self.fresh("gp");
        let c = self.fresh("i");
        let go = format!("go || {{ string_println(\"{}.spawned\") }}; ", tag);
        let after = format!("let _ = string_println(\"{}.after\"); ", tag);
        let bump = format!("let _ = ref_set({c}, ref_get({c}) + 1); ", c = c);
        match self.rng.below(7) {
            0 => {
                self.feat("go:loop-first");
                write!(s, "let {c} = ref(0); while ref_get({c}) < 2 {{ {go}{after}{bump} }}; ", c = c, go = go, after = after, bump = bump).unwrap();
            }
            1 => {
                self.feat("go:loop-middle");
                write!(s, "let {c} = ref(0); while ref_get({c}) < 2 {{ {bump}{go}{after} }}; ", c = c, go = go, after = after, bump = bump).unwrap();
            }
            2 => {
                self.feat("go:loop-last");
                write!(s, "let {c} = ref(0); while ref_get({c}) < 2 {{ {after}{bump}{go} }}; ", c = c, go = go, after = after, bump = bump).unwrap();
            }
            3 => {
                self.feat("go:branch-in-loop");
                write!(s, "let {c} = ref(0); while ref_get({c}) < 2 {{ {bump}if ref_get({c}) > 1 {{ {go}{after}() }} else {{ () }}; {after} }}; ", c = c, go = go, after = after, bump = bump).unwrap();
            }
            4 => {
                self.feat("go:arm-in-loop");
                write!(s, "let {c} = ref(0); while ref_get({c}) < 2 {{ {bump}let _ = match ref_get({c}) {{ 0 => (), _ => {{ {go}string_println(\"{tag}.arm\") }}, }}; {after} }}; ", c = c, go = go, after = after, bump = bump, tag = tag).unwrap();
            }
            5 => {
                self.feat("go:closure-body");
                let f = self.fresh("gf");
                write!(s, "let {f} = |gu: int32| {{ {go}{after}gu }}; let _ = {f}(1); let _ = {f}(2); ", f = f, go = go, after = after).unwrap();
            }
            _ => {
                self.feat("go:nested-loop");
                let j = self.fresh("j");
                write!(s, "let {c} = ref(0); while ref_get({c}) < 2 {{ {bump}let {j} = ref(0); while ref_get({j}) < 2 {{ {go}{after}let _ = ref_set({j}, ref_get({j}) + 1); }}; {after} }}; ", c = c, j = j, go = go, after = after, bump = bump).unwrap();
            }
        }
    }

    /// a boolean operand that prints when (and only when) it is evaluated, inside a shape that a
    /// shallow purity test may take for trivial
    /// right operand of `&&` / `||` under `logic_rhs_shapes`: a printing call inside a nearly-trivial shape, or
    /// (one time in three, when an int32 variable is in scope) a CALL-FREE guard idiom whose guarded operand
    /// fails when evaluated — `((x - x) != 0 && (7 / (x - x)) > 1)`, `((x - x) == 0 || (n / (x - x)) < 3)`:
    /// nothing is printed and nothing fails unless the inner right operand is evaluated although its left
    /// operand decides (a "no calls in it, so it needs no branch" shortcut)
    fn logic_rhs_shape(&mut self, scope: &Scope) -> String {
        let ints: Vec<String> = Self::vars_of(scope, &T::I32).into_iter().cloned().collect();
        if !ints.is_empty() && self.rng.chance(1, 3) {
            self.feat("logic-rhs-quiet-guard");
            let x = self.rng.pick(&ints).clone();
            let n = self.rng.pick(&ints).clone();
            let zero = format!("({} - {})", x, x);
            let num = if self.rng.chance(1, 2) { n } else { "7".to_string() };
            return match self.rng.below(4) {
                0 => format!("({z} != 0 && ({n} / {z}) > 1)", z = zero, n = num),
                1 => format!("({z} == 0 || ({n} / {z}) < 3)", z = zero, n = num),
                2 => format!("(0 < {z} && ({n} + 1) / {z} == {n})", z = zero, n = num),
                _ => format!("({z} <= 0 || {n} * 2 / {z} != 1)", z = zero, n = num),
            };
        }
        self.loud_bool_shape()
    }

    fn loud_bool_shape(&mut self) -> String {
        self.feat("logic-rhs-shape");
        let tag = self.fresh("rhs");
        let v = if self.rng.chance(1, 2) { "true" } else { "false" };
        match self.rng.below(5) {
            0 => format!("lb_mk(\"{}\", {}).v", tag, v),
            1 => format!("Lb {{ v: lb_say(\"{}\", {}) }}.v", tag, v),
            2 => format!("lb_pair(\"{}\", {}).0", tag, v),
            3 => format!("(!lb_say(\"{}\", {}))", tag, v),
            _ => format!("array_get([lb_say(\"{}\", {})], 0)", tag, v),
        }
    }

    fn leaf(&mut self, t: &T, scope: &Scope, pre: &mut String) -> String {
        match t {
            t if Self::is_int(t) => self.int_lit(t),
            T::Bool => if self.rng.chance(1, 2) { "true".into() } else { "false".into() },
            T::Str => format!("\"{}\"", ["a", "bc", "", "x y", "goml"][self.rng.below(5)]),
            T::Unit => "()".into(),
            other => self.typed_expr(other, scope, 0, pre),
        }
    }

    /// `{ stmts; tail }` of type `t`
    fn block(&mut self, t: &T, scope: &Scope, depth: usize) -> String {
        let is_top = std::mem::replace(&mut self.top_block, false);
        let mut sc = scope.clone();
        let mut s = String::from("{ ");
        let n = self.rng.below(3);
        for _ in 0..n {
            self.stmt(&mut sc, depth, &mut s);
        }
        let mut pre = String::new();
        let tail = if is_top && self.hit("ret-type") { Self::wrong_value(t) } else { self.expr(t, &sc, depth, &mut pre) };
        write!(s, "{}{} }}", pre, tail).unwrap();
        s
    }

    fn stmt(&mut self, sc: &mut Scope, depth: usize, s: &mut String) {
        if self.cfg.cov_shapes && self.rng.chance(1, 3) {
            return cov::stmt(self, sc, depth, s);
        }
        if self.cfg.logic_rhs_shapes && self.cfg.effects && self.rng.chance(1, 4) {
            // a `&&` / `||` whose right operand is one of the `logic_rhs_shape`s, shown (expression-level
            // logical operators are rare in this generator: one statement in four makes the stream dense)
            self.feat("logic-rhs-stmt");
            let mut pre = String::new();
            let a = self.expr(&T::Bool, sc, depth.min(1), &mut pre);
            let b = self.logic_rhs_shape(sc);
            let op = if self.rng.chance(1, 2) { "&&" } else { "||" };
            write!(s, "{}let _ = string_println(bool_to_string(({} {} {}))); ", pre, a, op, b).unwrap();
            return;
        }
        match self.rng.below(10) {
            0 | 1 if self.cfg.effects => {
                self.feat("print-stmt");
                let mut pre = String::new();
                let e = self.expr(&T::Str, sc, depth.min(1), &mut pre);
                write!(s, "{}let _ = string_println({}); ", pre, e).unwrap();
            }
            2 => {
                // counted loop over a ref
                self.feat("while");
                let c = self.fresh("i");
                let lim = 1 + self.rng.below(3);
                let mut pre = String::new();
                let body_e = if self.cfg.effects { self.expr(&T::Str, sc, depth.min(1), &mut pre) } else { "\"\"".into() };
                write!(
                    s,
                    "let {c} = ref(0); while ref_get({c}) < {lim} {{ {pre}let _ = string_print({e}); let _ = ref_set({c}, ref_get({c}) + 1); }}; ",
                    c = c,
                    lim = lim,
                    pre = pre,
                    e = body_e
                )
                .unwrap();
                sc.push((c, T::Ref(Box::new(T::I32))));
            }
            3 if !sc.iter().any(|(_, t)| matches!(t, T::Tuple(_))) => {}
            3 => {
                // destructuring let of a tuple in scope
                let (name, ty) = sc.iter().find(|(_, t)| matches!(t, T::Tuple(_))).cloned().unwrap();
                if let T::Tuple(ts) = ty {
                    self.feat("let-destructure");
                    let mut pats = Vec::new();
                    for t in &ts {
                        let v = self.fresh("d");
                        sc.push((v.clone(), t.clone()));
                        pats.push(v);
                    }
                    write!(s, "let ({}) = {}; ", pats.join(", "), name).unwrap();
                }
            }
            7 if self.cfg.src_forms && self.cfg.effects && self.rng.chance(1, 2) => {
                self.let_literal_destructure(sc, s);
            }
            7 if self.cfg.src_forms => {
                self.feat("let-struct-pattern");
                let si = self.rng.below(self.structs.len());
                let mut pre = String::new();
                let e = self.expr(&T::Struct(si), sc, depth.min(1), &mut pre);
                let p = self.struct_pat(si, sc, false);
                write!(s, "{}let {} = {}; ", pre, p, e).unwrap();
            }
            5 | 6 if self.cfg.traits => {
                // an effectful trait method called for effect in every call form and statement position
                self.feat("effect-method-call");
                let recv_ty = if self.rng.chance(1, 2) { T::I32 } else { T::Struct(0) };
                let mut pre = String::new();
                let v = self.expr(&recv_ty, sc, depth.min(1), &mut pre);
                let x = self.fresh("pk");
                write!(s, "{}let {}: {} = {}; ", pre, x, self.ty_text(&recv_ty), v).unwrap();
                let call = match self.rng.below(4) {
                    0 => format!("Poke::poke({})", x),
                    1 => format!("poke_via({})", x),
                    2 => {
                        let d = self.fresh("pd");
                        write!(s, "let {}: dyn Poke = {}; ", d, x).unwrap();
                        format!("Poke::poke({})", d)
                    }
                    _ => format!("Poke::poke({})", x),
                };
                match self.rng.below(5) {
                    0 => write!(s, "{}; ", call).unwrap(),
                    1 => write!(s, "let _ = {}; ", call).unwrap(),
                    2 => {
                        // tail of a loop body
                        let c = self.fresh("i");
                        write!(s, "let {c} = ref(0); while ref_get({c}) < 2 {{ let _ = ref_set({c}, ref_get({c}) + 1); {call} }}; ", c = c, call = call).unwrap();
                    }
                    3 => {
                        // tail of a branch that is the tail of a loop body
                        let c = self.fresh("i");
                        write!(s, "let {c} = ref(0); while ref_get({c}) < 2 {{ let _ = ref_set({c}, ref_get({c}) + 1); if ref_get({c}) > 1 {{ {call} }} else {{ () }} }}; ", c = c, call = call).unwrap();
                    }
                    _ => {
                        // tail of a match arm evaluated for effect
                        write!(s, "let _ = match ref_get(ref(1)) {{ 0 => (), _ => {call}, }}; ", call = call).unwrap();
                    }
                }
            }
            4 if self.cfg.go_stmt && self.rng.chance(2, 3) => {
                self.go_in_position(s);
            }
            4 if self.cfg.go_stmt => {
                self.feat("go");
                let mut pre = String::new();
                let e = self.expr(&T::Str, sc, 0, &mut pre);
                write!(s, "{}go || {{ string_println({}) }}; ", pre, e).unwrap();
            }
            _ => {
                self.feat("let");
                let t = self.data_ty(1);
                let mut pre = String::new();
                let e = self.expr(&t, sc, depth, &mut pre);
                let v = self.fresh("x");
                write!(s, "{}let {} = {}; ", pre, v, e).unwrap();
                sc.push((v, t));
            }
        }
    }


    // ------------------------------------------------------------------ rich generics (C07)

    /// a concrete type for the rich-generics stream: every type constructor, nested
    fn rich_ty(&mut self, depth: usize) -> T {
        if depth == 0 {
            return if self.rng.chance(1, 10) { T::Unit } else { self.base_ty() };
        }
        let d = depth - 1;
        match self.rng.below(20) {
            0..=3 => self.base_ty(),
            4 => {
                let n = 2 + self.rng.below(2);
                T::Tuple((0..n).map(|_| self.rich_ty(d)).collect())
            }
            5 if !self.structs.is_empty() => T::Struct(self.rng.below(self.structs.len())),
            6 if !self.enums.is_empty() => T::Enum(self.rng.below(self.enums.len())),
            7 | 8 => T::Opt(Box::new(self.rich_ty(d))),
            9 => T::Arr(Box::new(self.rich_ty(d)), 2 + self.rng.below(2)),
            10 => {
                if self.cfg.vec_generics { T::Vec(Box::new(self.rich_ty(d))) } else { T::Vec(Box::new(self.base_ty())) }
            }
            11 => T::Ref(Box::new(self.rich_ty(d))),
            12 | 13 => T::Bx(Box::new(self.rich_ty(d))),
            14 => T::Pr(Box::new(self.rich_ty(d)), Box::new(self.rich_ty(d))),
            15 | 16 => T::Lst(Box::new(self.rich_ty(d))),
            17 if self.cfg.closure_flows => T::Fn(vec![self.base_ty()], Box::new(self.rich_ty(d))),
            18 => T::Unit,
            _ => self.base_ty(),
        }
    }

    /// a type over the type parameters `0..np` (signature of a random generic function)
    fn pat_ty(&mut self, np: usize, depth: usize) -> T {
        let p = T::Param(self.rng.below(np));
        if depth == 0 {
            return if self.rng.chance(2, 3) { p } else { self.base_ty() };
        }
        let d = depth - 1;
        match self.rng.below(14) {
            0..=2 => p,
            3 => self.base_ty(),
            4 => T::Opt(Box::new(self.pat_ty(np, d))),
            5 => T::Tuple(vec![self.pat_ty(np, d), self.pat_ty(np, d)]),
            6 => T::Bx(Box::new(self.pat_ty(np, d))),
            7 => T::Lst(Box::new(self.pat_ty(np, d))),
            8 => T::Ref(Box::new(self.pat_ty(np, d))),
            9 => T::Arr(Box::new(self.pat_ty(np, d)), 2),
            10 => T::Pr(Box::new(self.pat_ty(np, d)), Box::new(self.pat_ty(np, d))),
            11 if self.cfg.vec_generics => T::Vec(Box::new(self.pat_ty(np, d))),
            12 if self.cfg.closure_flows => T::Fn(vec![self.pat_ty(np, 0)], Box::new(self.pat_ty(np, 0))),
            _ => p,
        }
    }

    fn match_ty(p: &T, t: &T, b: &mut Vec<Option<T>>) -> bool {
        match (p, t) {
            (T::Param(i), _) => match &b[*i] {
                Some(x) => x == t,
                None => {
                    b[*i] = Some(t.clone());
                    true
                }
            },
            (T::Tuple(ps), T::Tuple(ts)) => ps.len() == ts.len() && ps.iter().zip(ts.iter()).all(|(p, t)| Self::match_ty(p, t, b)),
            (T::Opt(p), T::Opt(t)) | (T::Bx(p), T::Bx(t)) | (T::Lst(p), T::Lst(t)) | (T::Vec(p), T::Vec(t)) | (T::Ref(p), T::Ref(t)) => {
                Self::match_ty(p, t, b)
            }
            (T::Arr(p, n), T::Arr(t, m)) => n == m && Self::match_ty(p, t, b),
            (T::Pr(p1, p2), T::Pr(t1, t2)) => Self::match_ty(p1, t1, b) && Self::match_ty(p2, t2, b),
            (T::Fn(ps, pr), T::Fn(ts, tr)) => {
                ps.len() == ts.len() && ps.iter().zip(ts.iter()).all(|(p, t)| Self::match_ty(p, t, b)) && Self::match_ty(pr, tr, b)
            }
            _ => p == t,
        }
    }

    fn subst_ty(p: &T, b: &[T]) -> T {
        match p {
            T::Param(i) => b[*i].clone(),
            T::Tuple(ps) => T::Tuple(ps.iter().map(|p| Self::subst_ty(p, b)).collect()),
            T::Opt(p) => T::Opt(Box::new(Self::subst_ty(p, b))),
            T::Bx(p) => T::Bx(Box::new(Self::subst_ty(p, b))),
            T::Lst(p) => T::Lst(Box::new(Self::subst_ty(p, b))),
            T::Vec(p) => T::Vec(Box::new(Self::subst_ty(p, b))),
            T::Ref(p) => T::Ref(Box::new(Self::subst_ty(p, b))),
            T::Arr(p, n) => T::Arr(Box::new(Self::subst_ty(p, b)), *n),
            T::Pr(x, y) => T::Pr(Box::new(Self::subst_ty(x, b)), Box::new(Self::subst_ty(y, b))),
            T::Fn(ps, r) => T::Fn(ps.iter().map(|p| Self::subst_ty(p, b)).collect(), Box::new(Self::subst_ty(r, b))),
            t => t.clone(),
        }
    }

    fn is_showable(&self, t: &T) -> bool {
        self.show_impls.contains(t) || matches!(t, T::Param(i) if self.cur_bounded.contains(i))
    }

    fn showable_ty(&mut self) -> T {
        let v = self.show_impls.clone();
        self.rng.pick(&v).clone()
    }

    fn bounded_var(&self, scope: &Scope) -> Option<String> {
        scope.iter().rev().find(|(_, t)| matches!(t, T::Param(i) if self.cur_bounded.contains(i))).map(|(n, _)| n.clone())
    }

    /// a call of a generic function / method whose result has type `t`
    fn generic_call(&mut self, t: &T, scope: &Scope, d: usize, pre: &mut String) -> Option<String> {
        // calls of the random generic functions declared so far
        if !self.fns.is_empty() && self.rng.chance(1, 3) {
            let mut cands = Vec::new();
            for (i, f) in self.fns.iter().enumerate() {
                if f.tparams == 0 {
                    continue;
                }
                let mut b = vec![None; f.tparams];
                if Self::match_ty(&f.ret, t, &mut b) {
                    cands.push((i, b));
                }
            }
            if !cands.is_empty() {
                let (fi, b) = self.rng.pick(&cands).clone();
                let bounded = self.fns[fi].bounded.clone();
                let mut bind = Vec::new();
                let mut ok = true;
                for (k, x) in b.into_iter().enumerate() {
                    let needs_show = bounded.contains(&k);
                    match x {
                        Some(ty) => {
                            if needs_show && !self.is_showable(&ty) {
                                ok = false;
                            }
                            bind.push(ty);
                        }
                        None => bind.push(if needs_show { self.showable_ty() } else { self.rich_ty(1) }),
                    }
                }
                if ok {
                    self.feat("generic-call-random-fn");
                    let ps = self.fns[fi].params.clone();
                    let name = self.fns[fi].name.clone();
                    let args: Vec<String> = ps.iter().map(|p| self.expr(&Self::subst_ty(p, &bind), scope, d, pre)).collect();
                    return Some(format!("{}({})", name, args.join(", ")));
                }
            }
        }
        // type-specific library functions
        if self.rng.chance(1, 2) {
            match t {
                T::Tuple(ts) if self.cfg.result_only_generics && ts.len() == 2 && matches!(ts[1], T::Opt(_)) && self.rng.chance(1, 2) => {
                    self.feat("g-result-only-nested");
                    let a = self.expr(&ts[0], scope, d, pre);
                    let v = self.fresh("ro");
                    write!(pre, "let {}: {} = tagged({}); ", v, self.ty_text(t), a).unwrap();
                    return Some(v);
                }
                T::Pr(x, y) if self.cfg.result_only_generics && matches!(**y, T::Opt(_)) && self.rng.chance(1, 2) => {
                    self.feat("g-result-only-nested");
                    let a = self.expr(x, scope, d, pre);
                    let v = self.fresh("ro");
                    write!(pre, "let {}: {} = defpair({}); ", v, self.ty_text(t), a).unwrap();
                    return Some(v);
                }
                T::Tuple(ts) if ts.len() == 2 => {
                    if ts[0] == ts[1] && self.rng.chance(1, 2) {
                        self.feat("g-dup");
                        let a = self.expr(&ts[0], scope, d, pre);
                        return Some(format!("dup({})", a));
                    }
                    self.feat("g-swp");
                    let a = self.expr(&ts[1], scope, d, pre);
                    let b = self.expr(&ts[0], scope, d, pre);
                    return Some(format!("swp(({}, {}))", a, b));
                }
                T::Bx(u) => {
                    if let T::Bx(w) = &**u {
                        self.feat("g-nested-struct");
                        let a = self.expr(w, scope, d, pre);
                        return Some(format!("bxbx({})", a));
                    }
                    self.feat("g-method-set");
                    let other = self.expr(u, scope, d, pre);
                    let a = self.expr(u, scope, d, pre);
                    let v = self.fresh("bx");
                    write!(pre, "let {}: {} = mkbx({}); ", v, self.ty_text(t), other).unwrap();
                    return Some(format!("{}.set({})", v, a));
                }
                T::Pr(x, y) => {
                    self.feat("g-method-swap");
                    let a = self.expr(y, scope, d, pre);
                    let b = self.expr(x, scope, d, pre);
                    let v = self.fresh("pr");
                    write!(pre, "let {}: {} = mkpr({}, {}); ", v, self.ty_text(&T::Pr(y.clone(), x.clone())), a, b).unwrap();
                    return Some(format!("{}.swap()", v));
                }
                T::Opt(_) if self.cfg.result_only_generics && self.rng.chance(1, 3) => {
                    // the type argument of `nothing[T]() -> Opt[T]` is known from the result only
                    let v = self.fresh("ro");
                    return Some(match self.rng.below(3) {
                        0 => {
                            self.feat("g-result-only-annotated");
                            write!(pre, "let {}: {} = nothing(); ", v, self.ty_text(t)).unwrap();
                            v
                        }
                        1 => {
                            self.feat("g-result-only-passed-on");
                            let c = self.expr(&T::Bool, scope, d, pre);
                            let e = self.expr(t, scope, d, pre);
                            format!("pick({}, nothing(), {})", c, e)
                        }
                        _ => {
                            self.feat("g-result-only-impl-method");
                            write!(pre, "let {}: {} = Opt::empty(); ", v, self.ty_text(t)).unwrap();
                            v
                        }
                    });
                }
                T::Lst(u) if self.cfg.result_only_generics && self.rng.chance(1, 3) => {
                    let v = self.fresh("ro");
                    return Some(match self.rng.below(4) {
                        0 => {
                            self.feat("g-result-only-annotated");
                            write!(pre, "let {}: {} = lnil(); ", v, self.ty_text(t)).unwrap();
                            v
                        }
                        1 => {
                            self.feat("g-result-only-passed-on");
                            let a = self.expr(u, scope, d, pre);
                            format!("lcons({}, lnil())", a)
                        }
                        2 => {
                            self.feat("g-result-and-body-only");
                            write!(pre, "let {}: {} = mkl({}); ", v, self.ty_text(t), self.rng.below(2)).unwrap();
                            v
                        }
                        _ => {
                            self.feat("g-result-only-impl-method");
                            write!(pre, "let {}: {} = Lst::nil(); ", v, self.ty_text(t)).unwrap();
                            v
                        }
                    });
                }
                T::Vec(u) if self.cfg.result_only_generics && self.cfg.vec_generics && self.rng.chance(1, 3) => {
                    let v = self.fresh("ro");
                    return Some(if self.rng.chance(1, 2) {
                        self.feat("g-result-only-annotated");
                        write!(pre, "let {}: {} = vempty(); ", v, self.ty_text(t)).unwrap();
                        v
                    } else {
                        self.feat("g-result-only-later-use");
                        let a = self.expr(u, scope, d, pre);
                        write!(pre, "let {} = vempty(); ", v).unwrap();
                        format!("vec_push({}, {})", v, a)
                    });
                }
                T::Opt(u) => {
                    if let T::Opt(w) = &**u {
                        if self.rng.chance(1, 2) {
                            self.feat("g-nested-enum");
                            let a = self.expr(w, scope, d, pre);
                            return Some(format!("nest({})", a));
                        }
                    }
                    self.feat("g-opt-map");
                    let w = self.rich_ty(1);
                    let o = self.expr(&T::Opt(Box::new(w.clone())), scope, d, pre);
                    let z = self.fresh("z");
                    let mut sc = scope.clone();
                    sc.push((z.clone(), w.clone()));
                    let body = self.expr_nopre(u, &sc, d);
                    return Some(format!("opt_map({}, |{}: {}| {})", o, z, self.ty_text(&w), body));
                }
                T::Lst(u) => {
                    self.feat("g-lcons");
                    let a = self.expr(u, scope, d, pre);
                    let l = self.expr(t, scope, d, pre);
                    return Some(format!("lcons({}, {})", a, l));
                }
                T::Arr(u, 2) => {
                    self.feat("g-arrswap");
                    let a = self.expr(u, scope, d, pre);
                    let b = self.expr(u, scope, d, pre);
                    return Some(format!("arrswap([{}, {}])", a, b));
                }
                T::Vec(u) if self.cfg.vec_generics => {
                    self.feat("g-vsingle");
                    let a = self.expr(u, scope, d, pre);
                    return Some(format!("vsingle({})", a));
                }
                T::I32 if self.cfg.finite_polyrec && self.rng.chance(1, 5) => {
                    self.feat("g-finite-polyrec");
                    let u = self.rich_ty(1);
                    if self.rng.chance(1, 2) {
                        let a = self.expr(&u, scope, d, pre);
                        return Some(format!("sized({}, {})", a, if self.rng.chance(3, 4) { "true" } else { "false" }));
                    }
                    let bt = T::Bx(Box::new(u));
                    let a = self.expr(&bt, scope, d, pre);
                    let v = self.fresh("fp");
                    write!(pre, "let {}: {} = {}; ", v, self.ty_text(&bt), a).unwrap();
                    return Some(format!("{}.depth(true)", v));
                }
                T::I32 if self.cfg.overlapping_impls && self.rng.chance(1, 4) => {
                    self.feat("g-overlap-only-exact");
                    let bt = T::Bx(Box::new(T::I32));
                    let a = self.expr(&bt, scope, d, pre);
                    let v = self.fresh("ov");
                    write!(pre, "let {}: {} = {}; ", v, self.ty_text(&bt), a).unwrap();
                    return Some(format!("{}.only_int()", v));
                }
                T::I32 => {
                    if self.cfg.vec_generics && self.rng.chance(1, 2) {
                        self.feat("g-vlen");
                        let u = self.rich_ty(1);
                        let v = self.expr(&T::Vec(Box::new(u)), scope, d, pre);
                        return Some(format!("vlen2({})", v));
                    }
                    self.feat("g-llen");
                    let u = self.rich_ty(1);
                    let l = self.expr(&T::Lst(Box::new(u)), scope, d, pre);
                    return Some(format!("llen({})", l));
                }
                T::Str if self.cfg.overlapping_impls && self.rng.chance(1, 2) => {
                    // a method that a generic impl and impls of single instantiations both define
                    return Some(match self.rng.below(8) {
                        0..=3 => {
                            self.feat("g-overlap-method");
                            let u = match self.rng.below(6) {
                                0 | 1 => T::I32,
                                2 => T::Str,
                                3 => T::Bx(Box::new(T::I32)),
                                4 => T::Bx(Box::new(T::Bool)),
                                _ => self.rich_ty(1),
                            };
                            let bt = T::Bx(Box::new(u));
                            let a = self.expr(&bt, scope, d, pre);
                            let v = self.fresh("ov");
                            write!(pre, "let {}: {} = {}; ", v, self.ty_text(&bt), a).unwrap();
                            match self.rng.below(5) {
                                0 | 1 => format!("{}.tag()", v),
                                2 => format!("tag_of({})", v),
                                3 => format!("Bx::tag({})", v),
                                _ => {
                                    if bt == T::Bx(Box::new(T::I32)) { format!("tag_of_int({})", v) } else { format!("{}.tag()", v) }
                                }
                            }
                        }
                        4 | 5 => {
                            self.feat("g-overlap-enum-method");
                            let u = if self.rng.chance(1, 2) { T::Bool } else { self.rich_ty(1) };
                            let ot = T::Opt(Box::new(u));
                            let a = self.expr(&ot, scope, d, pre);
                            let v = self.fresh("ov");
                            write!(pre, "let {}: {} = {}; ", v, self.ty_text(&ot), a).unwrap();
                            match self.rng.below(3) {
                                0 => format!("{}.kind()", v),
                                1 => format!("kind_of({})", v),
                                _ => format!("Opt::kind({})", v),
                            }
                        }
                        _ => {
                            self.feat("g-overlap-swap");
                            // `swap` of exactly Pr[int32, string] is the exact impl (appends "!"), of others the generic one
                            let first = if self.rng.chance(2, 3) { T::I32 } else { T::Bool };
                            let pt = T::Pr(Box::new(first.clone()), Box::new(T::Str));
                            let a = self.expr(&pt, scope, d, pre);
                            let (v, w) = (self.fresh("ov"), self.fresh("ov"));
                            write!(pre, "let {}: {} = {}; let {}: {} = {}.swap(); ", v, self.ty_text(&pt), a, w,
                                self.ty_text(&T::Pr(Box::new(T::Str), Box::new(first))), v).unwrap();
                            format!("{}.a", w)
                        }
                    });
                }
                T::Str if self.cfg.finite_polyrec && self.cfg.traits && self.rng.chance(1, 3) => {
                    // the outer instance is at a Show type other than the one the function calls itself at
                    let st = self.showable_ty();
                    let st = if matches!(st, T::Param(_)) { T::Bool } else { st };
                    let a = self.expr(&st, scope, d, pre);
                    let tv = self.fresh("sv");
                    write!(pre, "let {}: {} = {}; ", tv, self.ty_text(&st), a).unwrap();
                    self.feat("g-finite-polyrec");
                    return Some(match self.rng.below(3) {
                        0 => format!("descr({}, {})", tv, if self.rng.chance(3, 4) { "true" } else { "false" }),
                        1 => format!("countd({}, {})", tv, self.rng.below(3)),
                        _ => format!("pa({}, {})", tv, self.rng.below(2)),
                    });
                }
                T::Str if self.cfg.traits => {
                    let st = if !self.cur_bounded.is_empty() && self.rng.chance(1, 2) {
                        T::Param(*self.rng.pick(&self.cur_bounded.clone()))
                    } else {
                        self.showable_ty()
                    };
                    if matches!(st, T::Param(_)) && Self::vars_of(scope, &st).is_empty() {
                        return None;
                    }
                    let a = self.expr(&st, scope, d, pre);
                    let tv = self.fresh("sv");
                    write!(pre, "let {}: {} = {}; ", tv, self.ty_text(&st), a).unwrap();
                    return Some(match self.rng.below(5) {
                        0 => {
                            self.feat("g-show-twice");
                            format!("show_twice({})", tv)
                        }
                        1 => {
                            self.feat("g-show-pair");
                            let st2 = self.showable_ty();
                            let b = self.expr(&st2, scope, d, pre);
                            format!("show_pair({}, {})", tv, b)
                        }
                        2 => {
                            self.feat("g-show-opt");
                            if self.rng.chance(1, 3) {
                                let o = self.fresh("o");
                                write!(pre, "let {}: Opt[{}] = Opt::Non; ", o, self.ty_text(&st)).unwrap();
                                format!("show_opt({})", o)
                            } else {
                                format!("show_opt(Opt::Som({}))", tv)
                            }
                        }
                        3 => {
                            self.feat("g-show-pick");
                            let c = self.expr(&T::Bool, scope, d, pre);
                            format!("show_pick({}, {}, {})", c, tv, tv)
                        }
                        _ => {
                            self.feat("g-show-lst");
                            let nl = self.fresh("nl");
                            write!(pre, "let {}: Lst[{}] = Lst::Nil; ", nl, self.ty_text(&st)).unwrap();
                            format!("show_lst(Lst::Cons({}, lcons({}, {})))", tv, tv, nl)
                        }
                    });
                }
                _ => {}
            }
        }
        if self.cfg.dyn_generics && self.cfg.traits && self.rng.chance(1, 4) {
            // a generic function with a `dyn Show` parameter / a type parameter instantiated at `dyn Show`
            // (Sem has no type key for an instance of a generic type behind `dyn`: monomorphic impls only)
            let st = self.showable_ty();
            let st = if matches!(st, T::Param(_) | T::Bx(_) | T::Opt(_)) { T::I32 } else { st };
            let a = self.expr(&st, scope, d, pre);
            let dv = self.fresh("dy");
            let tv = self.fresh("sv");
            write!(pre, "let {}: {} = {}; let {}: dyn Show = {}; ", tv, self.ty_text(&st), a, dv, tv).unwrap();
            let e = self.expr(t, scope, d, pre);
            return Some(if self.rng.chance(1, 2) {
                self.feat("g-dyn-param");
                format!("lab({}, {})", dv, e)
            } else {
                self.feat("g-dyn-instance");
                format!("konst({}, {})", e, dv)
            });
        }
        // functions polymorphic in the result type
        let other = self.rich_ty(1);
        if self.cfg.result_only_generics && self.rng.chance(1, 8) {
            // the type argument of `nothing()` is fixed by what is done with the result later
            self.feat("g-result-only-later-use");
            let v = self.fresh("ro");
            let a = self.expr(t, scope, d, pre);
            write!(pre, "let {} = nothing(); ", v).unwrap();
            return Some(format!("opt_or({}, {})", v, a));
        }
        let k = self.rng.below(if self.cfg.vec_generics { 17 } else { 16 });
        Some(match k {
            0 => {
                self.feat("g-idg");
                let a = self.expr(t, scope, d, pre);
                format!("idg({})", a)
            }
            1 => {
                self.feat("g-pick");
                let c = self.expr(&T::Bool, scope, d, pre);
                let a = self.expr(t, scope, d, pre);
                let b = self.expr(t, scope, d, pre);
                format!("pick({}, {}, {})", c, a, b)
            }
            2 => {
                self.feat("g-fst");
                let a = self.expr(t, scope, d, pre);
                let b = self.expr(&other, scope, d, pre);
                format!("fst(({}, {}))", a, b)
            }
            3 => {
                self.feat("g-snd");
                let a = self.expr(t, scope, d, pre);
                let b = self.expr(&other, scope, d, pre);
                format!("snd(({}, {}))", b, a)
            }
            4 => {
                self.feat("g-unbx");
                let a = self.expr(&T::Bx(Box::new(t.clone())), scope, d, pre);
                format!("unbx({})", a)
            }
            5 => {
                self.feat("g-method-get");
                let a = self.expr(&T::Bx(Box::new(t.clone())), scope, d, pre);
                let v = self.fresh("bx");
                write!(pre, "let {}: {} = {}; ", v, self.ty_text(&T::Bx(Box::new(t.clone()))), a).unwrap();
                format!("{}.get()", v)
            }
            6 => {
                self.feat("g-pra");
                let a = self.expr(&T::Pr(Box::new(t.clone()), Box::new(other.clone())), scope, d, pre);
                format!("pra({})", a)
            }
            7 => {
                self.feat("g-opt-or");
                let o = self.expr(&T::Opt(Box::new(t.clone())), scope, d, pre);
                let a = self.expr(t, scope, d, pre);
                format!("opt_or({}, {})", o, a)
            }
            8 => {
                self.feat("g-twice");
                let z = self.fresh("z");
                let mut sc = scope.clone();
                sc.push((z.clone(), t.clone()));
                let body = self.expr_nopre(t, &sc, d);
                let a = self.expr(t, scope, d, pre);
                format!("twice(|{}: {}| {}, {})", z, self.ty_text(t), body, a)
            }
            9 => {
                self.feat("g-lhead");
                let l = self.expr(&T::Lst(Box::new(t.clone())), scope, d, pre);
                let a = self.expr(t, scope, d, pre);
                format!("lhead({}, {})", l, a)
            }
            10 => {
                self.feat("g-arr0");
                let a = self.expr(t, scope, d, pre);
                let b = self.expr(t, scope, d, pre);
                format!("arr0([{}, {}])", a, b)
            }
            11 => {
                self.feat("g-rget");
                let a = self.expr(t, scope, d, pre);
                format!("rget(ref({}))", a)
            }
            12 => {
                self.feat("g-rput");
                let a = self.expr(t, scope, d, pre);
                let b = self.expr(t, scope, d, pre);
                let r = self.fresh("r");
                write!(pre, "let {} = ref({}); let _ = rput({}, {}); ", r, a, r, b).unwrap();
                format!("rget({})", r)
            }
            13 => {
                self.feat("g-unnest");
                let a = self.expr(t, scope, d, pre);
                let b = self.expr(t, scope, d, pre);
                format!("unnest(nest({}), {})", a, b)
            }
            14 => {
                self.feat("g-dup-proj");
                let a = self.expr(t, scope, d, pre);
                let v = self.fresh("dp");
                write!(pre, "let {}: {} = dup({}); ", v, self.ty_text(&T::Tuple(vec![t.clone(), t.clone()])), a).unwrap();
                format!("{}.{}", v, self.rng.below(2))
            }
            15 => {
                self.feat("g-opt-map-or");
                let o = self.expr(&T::Opt(Box::new(other.clone())), scope, d, pre);
                let z = self.fresh("z");
                let mut sc = scope.clone();
                sc.push((z.clone(), other.clone()));
                let body = self.expr_nopre(t, &sc, d);
                let a = self.expr(t, scope, d, pre);
                format!("opt_or(opt_map({}, |{}: {}| {}), {})", o, z, self.ty_text(&other), body, a)
            }
            _ => {
                self.feat("g-vfirst");
                let v = self.expr(&T::Vec(Box::new(t.clone())), scope, d, pre);
                let a = self.expr(t, scope, d, pre);
                format!("vfirst({}, {})", v, a)
            }
        })
    }

    fn generic_library(&mut self, src: &mut String) {
        src.push_str(
            r#"struct Bx[T] { v: T }
struct Pr[A, B] { a: A, b: B }
enum Lst[T] { Nil, Cons(T, Lst[T]) }
fn idg[T](x: T) -> T { x }
fn fst[A, B](p: (A, B)) -> A { p.0 }
fn snd[A, B](p: (A, B)) -> B { p.1 }
fn swp[A, B](p: (A, B)) -> (B, A) { (p.1, p.0) }
fn unbx[T](b: Bx[T]) -> T { b.v }
fn mkbx[T](x: T) -> Bx[T] { Bx { v: x } }
fn bxbx[T](x: T) -> Bx[Bx[T]] { mkbx(mkbx(x)) }
fn mkpr[A, B](a: A, b: B) -> Pr[A, B] { Pr { a: a, b: b } }
fn pra[A, B](p: Pr[A, B]) -> A { p.a }
fn opt_or[T](o: Opt[T], d: T) -> T { match o { Opt::Som(x) => x, Opt::Non => d } }
fn opt_map[T, U](o: Opt[T], f: (T) -> U) -> Opt[U] { match o { Opt::Som(x) => Opt::Som(f(x)), Opt::Non => Opt::Non } }
fn twice[T](f: (T) -> T, x: T) -> T { f(f(x)) }
fn lcons[T](x: T, l: Lst[T]) -> Lst[T] { Lst::Cons(x, l) }
fn llen[T](l: Lst[T]) -> int32 { match l { Lst::Nil => 0, Lst::Cons(_, t) => 1 + llen(t) } }
fn lhead[T](l: Lst[T], d: T) -> T { match l { Lst::Nil => d, Lst::Cons(h, _) => h } }
fn arr0[T](a: [T; 2]) -> T { array_get(a, 0) }
fn arrswap[T](a: [T; 2]) -> [T; 2] { [array_get(a, 1), array_get(a, 0)] }
fn rget[T](r: Ref[T]) -> T { ref_get(r) }
fn rput[T](r: Ref[T], x: T) -> T { let o = ref_get(r); let _ = ref_set(r, x); o }
fn dup[T](x: T) -> (T, T) { (idg(x), pick(true, x, x)) }
fn nest[T](x: T) -> Opt[Opt[T]] { Opt::Som(Opt::Som(x)) }
fn unnest[T](o: Opt[Opt[T]], d: T) -> T { opt_or(opt_or(o, Opt::Som(d)), d) }
impl[T] Bx[T] {
    fn get(self: Bx[T]) -> T { self.v }
    fn set(self: Bx[T], x: T) -> Bx[T] { Bx { v: x } }
    fn tag(self: Bx[T]) -> string { "bx" }
}
impl[A, B] Pr[A, B] {
    fn new(a: A, b: B) -> Pr[A, B] { Pr { a: a, b: b } }
    fn swap(self: Pr[A, B]) -> Pr[B, A] { Pr { a: self.b, b: self.a } }
}
"#,
        );
        if self.cfg.finite_polyrec {
            src.push_str(
                r#"fn sized[T](x: T, again: bool) -> int32 { if again { 1 + sized((1, true), false) } else { 0 } }
impl[T] Bx[T] { fn depth(self: Bx[T], again: bool) -> int32 { if again { let inner: Bx[bool] = Bx { v: true }; 1 + inner.depth(false) } else { 0 } } }
"#,
            );
            if self.cfg.traits {
                src.push_str(
                    r#"fn descr[T: Show](x: T, again: bool) -> string { if again { x.show() + "/" + descr(7, false) } else { x.show() } }
fn countd[T: Show](x: T, n: int32) -> string { if n > 0 { Show::show(x) + countd(true, n - 1) } else { Show::show(x) } }
fn pa[T: Show](x: T, n: int32) -> string { if n == 0 { x.show() } else { pb(x, n - 1) } }
fn pb[T: Show](x: T, n: int32) -> string { x.show() + ">" + pa(n, 0) }
"#,
                );
            }
        }
        if self.cfg.result_only_generics {
            src.push_str(
                r#"fn nothing[T]() -> Opt[T] { Opt::Non }
fn lnil[T]() -> Lst[T] { Lst::Nil }
fn tagged[T, U](x: T) -> (T, Opt[U]) { (x, Opt::Non) }
fn idfn[U](n: int32) -> (U) -> U { |z: U| z }
fn defpair[A, B](a: A) -> Pr[A, Opt[B]] { Pr { a: a, b: Opt::Non } }
fn mkl[T](n: int32) -> Lst[T] { let e: Lst[T] = Lst::Nil; if n > 0 { e } else { lnil() } }
impl[T] Opt[T] { fn empty() -> Opt[T] { Opt::Non } }
impl[T] Lst[T] { fn nil() -> Lst[T] { Lst::Nil } }
"#,
            );
            if self.cfg.vec_generics {
                src.push_str("fn vempty[T]() -> Vec[T] { let v: Vec[T] = vec_new(); v }\n");
            }
        }
        if self.cfg.overlapping_impls {
            // a generic inherent impl AND inherent impls of single instantiations that define the same
            // method names with bodies that print something else (the typer: the exact impl wins for a
            // receiver of exactly that type; generic code and `Type::m(..)` paths take the generic impl)
            src.push_str(
                r#"impl Bx[int32] {
    fn tag(self: Bx[int32]) -> string { "bx-int " + int32_to_string(self.v) }
    fn only_int(self: Bx[int32]) -> int32 { self.v + 1 }
}
impl Bx[string] { fn tag(self: Bx[string]) -> string { "bx-str " + self.v } }
impl Bx[Bx[int32]] { fn tag(self: Bx[Bx[int32]]) -> string { let inner: Bx[int32] = self.v; "bx-bx " + inner.tag() } }
impl[T] Opt[T] { fn kind(self: Opt[T]) -> string { match self { Opt::Som(_) => "som", Opt::Non => "non" } } }
impl Opt[bool] { fn kind(self: Opt[bool]) -> string { match self { Opt::Som(b) => "som-" + bool_to_string(b), Opt::Non => "non-bool" } } }
impl Pr[int32, string] { fn swap(self: Pr[int32, string]) -> Pr[string, int32] { Pr { a: self.b + "!", b: self.a + 1 } } }
fn tag_of[T](b: Bx[T]) -> string { b.tag() }
fn tag_of_int(b: Bx[int32]) -> string { b.tag() }
fn kind_of[U](o: Opt[U]) -> string { o.kind() }
"#,
            );
        }
        if self.cfg.vec_generics {
            src.push_str(
                r#"fn vsingle[T](x: T) -> Vec[T] { let v: Vec[T] = vec_new(); vec_push(v, x) }
fn vfirst[T](v: Vec[T], d: T) -> T { if vec_len(v) > 0 { vec_get(v, 0) } else { d } }
fn vlen2[T](v: Vec[T]) -> int32 { vec_len(v) }
"#,
            );
        }
        if self.cfg.traits {
            src.push_str(
                r#"impl Show for Bx[int32] { fn show(self: Bx[int32]) -> string { "Bx" + int32_to_string(self.v) } }
impl Show for Opt[bool] { fn show(self: Opt[bool]) -> string { match self { Opt::Som(b) => bool_to_string(b), Opt::Non => "non" } } }
fn show_pair[A: Show, B: Show](a: A, b: B) -> string { show_twice(a) + Show::show(b) }
fn show_opt[T: Show](o: Opt[T]) -> string { match o { Opt::Som(x) => { let y: T = x; Show::show(y) }, Opt::Non => "-" } }
fn show_pick[T: Show](c: bool, a: T, b: T) -> string { let r: T = pick(c, a, b); Show::show(r) }
fn lab[T](d: dyn Show, x: T) -> T { let _ = string_println(Show::show(d)); x }
fn konst[A, B](a: A, b: B) -> A { a }
fn show_lst[T: Show](l: Lst[T]) -> string { match l { Lst::Nil => ".", Lst::Cons(h, t) => { let y: T = h; show_twice(y) + show_lst(t) } } }
"#,
            );
            self.show_impls.push(T::Bx(Box::new(T::I32)));
            self.show_impls.push(T::Opt(Box::new(T::Bool)));
        }
    }

    /// random generic functions `g<i>[A, B…](…) -> …` whose bodies are generated type-directed with the
    /// type parameters as opaque types
    fn random_generic_fns(&mut self, src: &mut String) {
        let n = 1 + self.rng.below(3);
        for i in 0..n {
            let np = 1 + self.rng.below(2);
            let mut bounded = Vec::new();
            for k in 0..np {
                if self.cfg.traits && self.rng.chance(1, 3) {
                    bounded.push(k);
                }
            }
            let mut params: Vec<T> = (0..np).map(T::Param).collect();
            for _ in 0..self.rng.below(3) {
                let p = if self.rng.chance(1, 3) { self.base_ty() } else { self.pat_ty(np, 1) };
                params.push(p);
            }
            let ret = self.pat_ty(np, 2);
            let mut scope: Scope = Vec::new();
            let mut ptxt = Vec::new();
            for (k, p) in params.iter().enumerate() {
                let nm = format!("y{}_{}", i, k);
                ptxt.push(format!("{}: {}", nm, self.ty_text(p)));
                scope.push((nm, p.clone()));
            }
            let gtxt: Vec<String> =
                (0..np).map(|k| if bounded.contains(&k) { format!("{}: Show", ["A", "B", "C"][k]) } else { ["A", "B", "C"][k].to_string() }).collect();
            self.cur_bounded = bounded.clone();
            let depth = self.cfg.max_depth;
            let body = self.block(&ret, &scope, depth);
            self.cur_bounded.clear();
            writeln!(src, "fn g{}[{}]({}) -> {} {}", i, gtxt.join(", "), ptxt.join(", "), self.ty_text(&ret), body).unwrap();
            self.feat("random-generic-fn");
            self.fns.push(FnD { name: format!("g{}", i), params, ret, tparams: np, bounded });
        }
    }

    /// code that prints a value of type `t` held in variable `v`
    fn show(&mut self, t: &T, v: &str, out: &mut String) {
        match t {
            T::Str => write!(out, "let _ = string_println({}); ", v).unwrap(),
            t if !Self::to_string_fn(t).is_empty() => write!(out, "let _ = string_println({}({})); ", Self::to_string_fn(t), v).unwrap(),
            T::Tuple(ts) => {
                let names: Vec<String> = ts.iter().map(|_| self.fresh("s")).collect();
                write!(out, "let ({}) = {}; ", names.join(", "), v).unwrap();
                for (n, t) in names.iter().zip(ts.iter()) {
                    self.show(t, n, out);
                }
            }
            T::Struct(i) => {
                let fts = self.structs[*i].fields.clone();
                for (k, ft) in fts.iter().enumerate() {
                    let n = self.fresh("s");
                    if self.hit("unknown-field") {
                        write!(out, "let {} = {}.zz{}; ", n, v, k).unwrap();
                    } else {
                        write!(out, "let {} = {}.f{}; ", n, v, k).unwrap();
                    }
                    self.show(ft, &n, out);
                }
            }
            T::Enum(i) => {
                let vs = self.enums[*i].variants.clone();
                let mut arms = String::new();
                for (vi, payload) in vs.iter().enumerate() {
                    let names: Vec<String> = payload.iter().map(|_| self.fresh("s")).collect();
                    let mut body = format!("let _ = string_println(\"V{}_{}\"); ", i, vi);
                    for (n, t) in names.iter().zip(payload.iter()) {
                        self.show(t, n, &mut body);
                    }
                    if payload.is_empty() {
                        write!(arms, "E{}::V{}_{} => {{ {}() }}, ", i, i, vi, body).unwrap();
                    } else {
                        write!(arms, "E{}::V{}_{}({}) => {{ {}() }}, ", i, i, vi, names.join(", "), body).unwrap();
                    }
                }
                write!(out, "let _ = match {} {{ {}}}; ", v, arms).unwrap();
            }
            T::Opt(inner) => {
                let n = self.fresh("s");
                let mut body = String::from("let _ = string_println(\"Som\"); ");
                self.show(inner, &n, &mut body);
                write!(out, "let _ = match {} {{ Opt::Som({}) => {{ {}() }}, Opt::Non => {{ string_println(\"Non\") }}, }}; ", v, n, body).unwrap();
            }
            T::Arr(e, n) => {
                for i in 0..*n {
                    let nm = self.fresh("s");
                    write!(out, "let {} = array_get({}, {}); ", nm, v, i).unwrap();
                    self.show(e, &nm, out);
                }
            }
            T::Vec(e) => {
                write!(out, "let _ = string_println(int32_to_string(vec_len({}))); ", v).unwrap();
                let nm = self.fresh("s");
                let mut body = String::new();
                self.show(e, &nm, &mut body);
                write!(out, "let _ = if vec_len({v}) > 0 {{ let {nm} = vec_get({v}, 0); {body}() }} else {{ () }}; ", v = v, nm = nm, body = body).unwrap();
            }
            T::Ref(e) => {
                let nm = self.fresh("s");
                write!(out, "let {} = ref_get({}); ", nm, v).unwrap();
                self.show(e, &nm, out);
            }
            T::Bx(e) => {
                let nm = self.fresh("s");
                if self.rng.chance(1, 2) {
                    write!(out, "let {} = {}.v; ", nm, v).unwrap();
                } else {
                    let tmp = self.fresh("s");
                    write!(out, "let {}: {} = {}; let {} = {}.get(); ", tmp, self.ty_text(t), v, nm, tmp).unwrap();
                }
                self.show(e, &nm, out);
            }
            T::Pr(x, y) => {
                let (n1, n2) = (self.fresh("s"), self.fresh("s"));
                write!(out, "let {} = {}.a; let {} = {}.b; ", n1, v, n2, v).unwrap();
                self.show(x, &n1, out);
                self.show(y, &n2, out);
            }
            T::Lst(e) => {
                write!(out, "let _ = string_println(int32_to_string(llen({}))); ", v).unwrap();
                let nm = self.fresh("s");
                let mut body = String::new();
                self.show(e, &nm, &mut body);
                write!(out, "let _ = match {} {{ Lst::Cons({}, _) => {{ {}() }}, Lst::Nil => {{ string_println(\"Nil\") }}, }}; ", v, nm, body).unwrap();
            }
            T::Fn(ps, r) => {
                let mut pre = String::new();
                let args: Vec<String> = ps.iter().map(|p| self.expr(p, &Vec::new(), 0, &mut pre)).collect();
                let nm = self.fresh("s");
                write!(out, "{}let {} = {}({}); ", pre, nm, v, args.join(", ")).unwrap();
                self.show(r, &nm, out);
            }
            _ => {}
        }
    }

    pub fn program(&mut self) -> String {
        let mut src = String::new();
        // declarations
        let ns = 1 + self.rng.below(2);
        for i in 0..ns {
            let nf = 1 + self.rng.below(3);
            let fields: Vec<T> = (0..nf).map(|_| self.data_ty(0)).collect();
            let txt: Vec<String> = fields.iter().enumerate().map(|(k, t)| format!("f{}: {}", k, self.ty_text(t))).collect();
            writeln!(src, "struct S{} {{ {} }}", i, txt.join(", ")).unwrap();
            self.structs.push(StructD { fields });
        }
        let ne = 1 + self.rng.below(2);
        for i in 0..ne {
            let nv = 2 + self.rng.below(2);
            let mut variants = Vec::new();
            let mut txt = Vec::new();
            for vi in 0..nv {
                let np = self.rng.below(3);
                let payload: Vec<T> = (0..np).map(|_| if self.rng.chance(1, 4) && i > 0 { T::Enum(i - 1) } else { self.data_ty(0) }).collect();
                if payload.is_empty() {
                    txt.push(format!("V{}_{}", i, vi));
                } else {
                    txt.push(format!("V{}_{}({})", i, vi, payload.iter().map(|t| self.ty_text(t)).collect::<Vec<_>>().join(", ")));
                }
                variants.push(payload);
            }
            writeln!(src, "enum E{} {{ {} }}", i, txt.join(", ")).unwrap();
            self.enums.push(EnumD { variants });
        }
        if self.cfg.src_forms {
            writeln!(src, "enum EN {{ NA(S0, int32), NB, NC(int32) }}").unwrap();
        }
        if self.cfg.src_forms && self.cfg.traits {
            writeln!(src, "impl S0 {{ fn tag(self: S0, k: int32) -> int32 {{ k + 1 }} }}").unwrap();
            writeln!(src, "trait Tagged {{ fn tag(Self, int32) -> int32; fn other(Self) -> int32; }}").unwrap();
            writeln!(src, "impl Tagged for S0 {{ fn tag(self: S0, k: int32) -> int32 {{ k + 100 }} fn other(self: S0) -> int32 {{ 7 }} }}").unwrap();
            writeln!(src, "impl Tagged for E0 {{ fn tag(self: E0, k: int32) -> int32 {{ k + 200 }} fn other(self: E0) -> int32 {{ 8 }} }}").unwrap();
            if self.cfg.generics {
                writeln!(src, "fn tag_via_bound[T: Tagged](x: T) -> int32 {{ x.tag(1) + Tagged::other(x) }}").unwrap();
            }
        }
        if self.cfg.lit_field_effects {
            writeln!(src, "fn trace[T](s: string, v: T) -> T {{ let _ = string_println(s); v }}").unwrap();
        }
        if self.cfg.generics {
            writeln!(src, "enum Opt[T] {{ Non, Som(T) }}").unwrap();
            writeln!(src, "fn pick[T](c: bool, a: T, b: T) -> T {{ if c {{ a }} else {{ b }} }}").unwrap();
        }
        if self.cfg.effects && self.cfg.src_forms {
            // destructuring of literal right-hand sides (every component is an operand, also under `_`)
            writeln!(src, "struct Ld {{ a: int32, b: bool, c: string }}").unwrap();
            writeln!(src, "enum Le {{ Mk(int32, bool), Other }}").unwrap();
            writeln!(src, "fn nt_i(s: string, v: int32) -> int32 {{ let _ = string_println(s); v }}").unwrap();
            writeln!(src, "fn nt_b(s: string, v: bool) -> bool {{ let _ = string_println(s); v }}").unwrap();
            writeln!(src, "fn nt_s(s: string, v: string) -> string {{ let _ = string_println(s); v }}").unwrap();
        }
        if self.cfg.logic_rhs_shapes {
            writeln!(src, "struct Lb {{ v: bool }}").unwrap();
            writeln!(src, "fn lb_say(s: string, v: bool) -> bool {{ let _ = string_println(s); v }}").unwrap();
            writeln!(src, "fn lb_mk(s: string, v: bool) -> Lb {{ let _ = string_println(s); Lb {{ v: v }} }}").unwrap();
            writeln!(src, "fn lb_pair(s: string, v: bool) -> (bool, int32) {{ let _ = string_println(s); (v, 0) }}").unwrap();
        }
        if self.cfg.traits {
            writeln!(src, "trait Show {{ fn show(Self) -> string; }}").unwrap();
            writeln!(src, "impl Show for int32 {{ fn show(self: int32) -> string {{ \"i\" + int32_to_string(self) }} }}").unwrap();
            self.show_impls.push(T::I32);
            writeln!(src, "impl Show for bool {{ fn show(self: bool) -> string {{ if self {{ \"yes\" }} else {{ \"no\" }} }} }}").unwrap();
            self.show_impls.push(T::Bool);
            writeln!(src, "impl Show for S0 {{ fn show(self: S0) -> string {{ \"S0\" }} }}").unwrap();
            self.show_impls.push(T::Struct(0));
            writeln!(src, "impl Show for E0 {{ fn show(self: E0) -> string {{ match self {{ E0::V0_0{} => \"first\", _ => \"other\", }} }} }}",
                if self.enums[0].variants[0].is_empty() { "".to_string() } else { format!("({})", vec!["_"; self.enums[0].variants[0].len()].join(", ")) }).unwrap();
            self.show_impls.push(T::Enum(0));
            writeln!(src, "fn show_twice[T: Show](x: T) -> string {{ Show::show(x) + x.show() }}").unwrap();
            writeln!(src, "trait Poke {{ fn poke(Self) -> unit; }}").unwrap();
            writeln!(src, "impl Poke for int32 {{ fn poke(self: int32) -> unit {{ string_println(\"poke \" + int32_to_string(self)) }} }}").unwrap();
            writeln!(src, "impl Poke for S0 {{ fn poke(self: S0) -> unit {{ string_println(\"poke S0\") }} }}").unwrap();
            writeln!(src, "fn poke_via[T: Poke](x: T) -> unit {{ Poke::poke(x) }}").unwrap();
        }
        if self.cfg.cov_shapes {
            cov::decls(self, &mut src);
        }
        if self.cfg.rich_generics {
            self.generic_library(&mut src);
            self.random_generic_fns(&mut src);
        }
        // functions; each may call the earlier ones only
        let nf = 2 + self.rng.below(3);
        for i in 0..nf {
            let np = self.rng.below(3);
            let params: Vec<T> = (0..np).map(|_| if self.cfg.closure_flows && self.rng.chance(1, 3) { T::Fn(vec![T::I32], Box::new(T::I32)) } else { self.data_ty(1) }).collect();
            let ret = self.data_ty(1);
            let mut scope: Scope = Vec::new();
            let mut ptxt = Vec::new();
            for (k, p) in params.iter().enumerate() {
                let n = format!("q{}_{}", i, k);
                ptxt.push(format!("{}: {}", n, self.ty_text(p)));
                scope.push((n, p.clone()));
            }
            let depth = self.cfg.max_depth;
            self.top_block = true;
            let body = self.block(&ret, &scope, depth);
            writeln!(src, "fn fun{}({}) -> {} {}", i, ptxt.join(", "), self.ty_text(&ret), body).unwrap();
            self.fns.push(FnD { name: format!("fun{}", i), params, ret, tparams: 0, bounded: vec![] });
        }
        // main: call every function and print what it returns
        let mut body = String::new();
        for i in 0..self.fns.len() {
            let mut ps = self.fns[i].params.clone();
            let mut ret = self.fns[i].ret.clone();
            let name = self.fns[i].name.clone();
            if self.fns[i].tparams > 0 {
                // call the generic function at concrete type arguments
                let bounded = self.fns[i].bounded.clone();
                let bind: Vec<T> = (0..self.fns[i].tparams).map(|k| if bounded.contains(&k) { self.showable_ty() } else { self.rich_ty(2) }).collect();
                ps = ps.iter().map(|p| Self::subst_ty(p, &bind)).collect();
                ret = Self::subst_ty(&ret, &bind);
            }
            let mut pre = String::new();
            let args: Vec<String> = ps.iter().map(|p| self.expr(p, &Vec::new(), 1, &mut pre)).collect();
            let r = self.fresh("res");
            write!(body, "{}let {} = {}({}); ", pre, r, name, args.join(", ")).unwrap();
            self.show(&ret, &r, &mut body);
        }
        if self.cfg.finite_polyrec {
            body.push_str("let _ = string_println(int32_to_string(sized(\"s\", true) + sized(1, true))); let fpb: Bx[int32] = Bx { v: 1 }; let _ = string_println(int32_to_string(fpb.depth(true))); ");
            if self.cfg.traits {
                body.push_str("let _ = string_println(descr(true, true) + \" \" + descr(3, true)); let _ = string_println(countd(5, 2) + \" \" + pa(false, 1)); ");
            }
        }
        if self.cfg.result_only_generics {
            // every result-only generic at two instantiations, each with its own observable output
            body.push_str(
                "let rn1: Opt[int32] = nothing(); let rn2: Opt[string] = nothing(); \
                 let _ = string_println(int32_to_string(opt_or(rn1, 5))); let _ = string_println(opt_or(rn2, \"d\")); \
                 let rn3 = nothing(); let _ = string_println(bool_to_string(opt_or(rn3, true))); \
                 let _ = string_println(int32_to_string(opt_or(nothing(), 9))); \
                 let rt1: (string, Opt[bool]) = tagged(\"k\"); let rt2: (int32, Opt[int32]) = tagged(3); \
                 let _ = string_println(rt1.0 + bool_to_string(opt_or(rt1.1, false))); let _ = string_println(int32_to_string(opt_or(rt2.1, rt2.0))); \
                 let rl1: Lst[bool] = lnil(); let _ = string_println(int32_to_string(llen(lcons(1, lnil())) + llen(rl1))); \
                 let rf1: (int32) -> int32 = idfn(0); let rf2: (string) -> string = idfn(1); let _ = string_println(int32_to_string(rf1(4)) + rf2(\"q\")); \
                 let rp1: Pr[int32, Opt[string]] = defpair(1); let rp2: Pr[bool, Opt[int32]] = defpair(true); \
                 let _ = string_println(opt_or(rp1.b, \"dp\") + int32_to_string(opt_or(rp2.b, 8))); \
                 let rm1: Lst[int32] = mkl(1); let rm2: Lst[string] = mkl(0); let _ = string_println(int32_to_string(llen(rm1) + llen(rm2))); \
                 let re1: Opt[int32] = Opt::empty(); let re2: Opt[bool] = Opt::empty(); let re3: Lst[string] = Lst::nil(); \
                 let _ = string_println(int32_to_string(opt_or(re1, 2) + llen(re3)) + bool_to_string(opt_or(re2, true))); ",
            );
            if self.cfg.vec_generics {
                body.push_str("let rv1: Vec[int32] = vempty(); let rv2 = vec_push(vempty(), \"s\"); let _ = string_println(int32_to_string(vec_len(rv1) + vec_len(rv2))); ");
            }
        }
        writeln!(src, "fn main() {{ {}() }}", body).unwrap();
        src
    }
}

/// like `gen_program`, with one type error injected at the `at`-th site of `kind` (None = none);
/// returns the source, the number of sites of each kind seen, and what was injected
pub fn gen_program_inject(rng: &mut Rng, cfg: Cfg, inject: Option<(&'static str, usize)>) -> (String, BTreeMap<&'static str, usize>, Option<String>) {
    let mut g = Gen::new(rng, cfg);
    g.inject = inject;
    let src = g.program();
    (src, g.site_count, g.injected)
}

pub fn gen_program(rng: &mut Rng, cfg: Cfg) -> (String, BTreeMap<&'static str, usize>) {
    let mut g = Gen::new(rng, cfg);
    let src = g.program();
    (src, g.feats)
}

// ------------------------------------------------------------------------------------------
// C08: closure-centred programs.  Every capture set (params, lets, pattern variables, outer
// closure params, Ref cells mutated before and after creation), nesting up to `nest`, and one
// flow of a function value per flag.  Flows whose emitted Go is known to be ill-typed (C02's
// findings) are only produced when their flag is set, so they cannot mask the main stream.

pub mod flow {
    // flows the pass rewrites (main stream)
    pub const ALIAS: u32 = 1 << 0; //            let g = f
    pub const TUPLE: u32 = 1 << 1; //            let (h, n) = (f, 3)
    pub const RETURN_EARLIER: u32 = 1 << 2; //   fn mk(..) -> (int32) -> int32 declared before its caller
    pub const STRUCT_OWN: u32 = 1 << 3; //       one struct type per stored closure
    pub const TOPFN: u32 = 1 << 4; //            top-level function used as a value
    pub const TUPLE_RETURN: u32 = 1 << 5; //     fn returning a tuple of closures (corpus 038)
    pub const MAIN_STREAM: u32 = ALIAS | TUPLE | RETURN_EARLIER | STRUCT_OWN | TOPFN | TUPLE_RETURN;
    // flows outside the rewriting (one per program, separate stream)
    pub const ARGUMENT: u32 = 1 << 8; //         apply(f, 1), apply(|x| .., 1)
    pub const BRANCH_IF: u32 = 1 << 9; //        let h = if c { f } else { g }
    pub const BRANCH_MATCH: u32 = 1 << 10;
    pub const ARRAY: u32 = 1 << 11; //           [f, g]
    pub const RETURN_LATER: u32 = 1 << 12; //    callee declared after the caller
    pub const STRUCT_SHARED: u32 = 1 << 13; //   two closures stored in the same struct type
    pub const CURRIED: u32 = 1 << 14; //         |a| |b| a + b
    pub const REFCELL: u32 = 1 << 15; //         ref(f)
    pub const CLOSURE_PARAM: u32 = 1 << 16; //   |h: (int32) -> int32, x: int32| h(x)
    pub const MIXED_TOP: u32 = 1 << 17; //       if c { topfn } else { closure }
    pub const RETURN_BRANCH: u32 = 1 << 18; //   fn returning if c { clo1 } else { clo2 }
    pub const GO_STMT: u32 = 1 << 19; //         go closure
    pub const OTHER: [(u32, &str); 12] = [
        (ARGUMENT, "argument"),
        (BRANCH_IF, "branch-if"),
        (BRANCH_MATCH, "branch-match"),
        (ARRAY, "array"),
        (RETURN_LATER, "return-later"),
        (STRUCT_SHARED, "struct-shared"),
        (CURRIED, "curried"),
        (REFCELL, "refcell"),
        (CLOSURE_PARAM, "closure-param"),
        (MIXED_TOP, "mixed-top"),
        (RETURN_BRANCH, "return-branch"),
        (GO_STMT, "go"),
    ];
}

#[derive(Clone, Copy, Debug)]
pub struct CloCfg {
    pub flows: u32,
    /// closure nesting depth (≤ 4)
    pub nest: usize,
    /// statements per block
    pub stmts: usize,
}

#[derive(Clone, PartialEq, Debug)]
enum CT {
    I,
    R,
    /// function value of n int32 parameters returning int32
    F(usize),
}

#[derive(Clone, Debug)]
struct CV {
    name: String,
    ty: CT,
}

pub struct CloGen<'a> {
    rng: &'a mut Rng,
    cfg: CloCfg,
    uid: usize,
    /// declarations placed before `main`
    before: String,
    /// declarations placed after `main`
    after: String,
    decls: String,
    pub feats: BTreeMap<&'static str, usize>,
}

impl<'a> CloGen<'a> {
    fn feat(&mut self, f: &'static str) {
        *self.feats.entry(f).or_default() += 1;
    }
    fn on(&self, f: u32) -> bool {
        self.cfg.flows & f != 0
    }
    fn fresh(&mut self, p: &str) -> String {
        self.uid += 1;
        format!("{}{}", p, self.uid)
    }
    fn fty(n: usize) -> String {
        format!("({}) -> int32", vec!["int32"; n].join(", "))
    }
    fn vars<'s>(sc: &'s [CV], t: &CT) -> Vec<&'s CV> {
        sc.iter().filter(|v| &v.ty == t).collect()
    }
    fn fvars(sc: &[CV]) -> Vec<&CV> {
        sc.iter().filter(|v| matches!(v.ty, CT::F(_))).collect()
    }

    fn int_expr(&mut self, sc: &[CV], d: usize) -> String {
        let ints = Self::vars(sc, &CT::I);
        let refs = Self::vars(sc, &CT::R);
        let fs = Self::fvars(sc);
        if d == 0 {
            return match self.rng.below(4) {
                0 if !ints.is_empty() => self.rng.pick(&ints).name.clone(),
                1 if !refs.is_empty() => format!("ref_get({})", self.rng.pick(&refs).name),
                2 if !ints.is_empty() => self.rng.pick(&ints).name.clone(),
                _ => format!("{}", self.rng.below(10)),
            };
        }
        match self.rng.below(9) {
            0 | 1 if !fs.is_empty() => {
                self.feat("call-through-variable");
                let f = (*self.rng.pick(&fs)).clone();
                let CT::F(n) = f.ty else { unreachable!() };
                let args: Vec<String> = (0..n).map(|_| self.int_expr(sc, d - 1)).collect();
                format!("{}({})", f.name, args.join(", "))
            }
            2 | 3 => {
                let a = self.int_expr(sc, d - 1);
                let b = self.int_expr(sc, d - 1);
                format!("({} {} {})", a, ["+", "*", "-"][self.rng.below(3)], b)
            }
            4 => {
                let a = self.int_expr(sc, d - 1);
                let b = self.int_expr(sc, d - 1);
                let t = self.int_expr(sc, d - 1);
                let e = self.int_expr(sc, d - 1);
                format!("(if {} < {} {{ {} }} else {{ {} }})", a, b, t, e)
            }
            _ => self.int_expr(sc, 0),
        }
    }

    /// `|p..| body`; the body may be a block with its own statements (nested closures, mutation)
    fn closure_lit(&mut self, sc: &[CV], n: usize, nest: usize) -> String {
        let mut inner: Vec<CV> = sc.to_vec();
        let mut ps = Vec::new();
        for _ in 0..n {
            let p = self.fresh("a");
            ps.push(format!("{}: int32", p));
            inner.push(CV { name: p, ty: CT::I });
        }
        self.feat(match n {
            0 => "closure-0-params",
            1 => "closure-1-param",
            _ => "closure-2-params",
        });
        let body = if nest > 0 && self.rng.chance(2, 3) {
            let mut s = String::from("{ ");
            let k = 1 + self.rng.below(self.cfg.stmts.max(1));
            self.stmts(&mut inner, nest - 1, k, &mut s, false);
            let e = self.int_expr(&inner, 2);
            write!(s, "{} }}", e).unwrap();
            s
        } else {
            self.int_expr(&inner, 2)
        };
        format!("|{}| {}", ps.join(", "), body)
    }

    fn print(&mut self, e: &str, out: &mut String) {
        write!(out, "let _ = string_println(int32_to_string({})); ", e).unwrap();
    }

    fn call_of(&mut self, f: &str, n: usize, sc: &[CV]) -> String {
        let args: Vec<String> = (0..n).map(|_| self.int_expr(sc, 1)).collect();
        format!("{}({})", f, args.join(", "))
    }

    /// a function value expression of arity 1 that is a variable in scope, else a fresh closure
    fn some_f1(&mut self, sc: &mut Vec<CV>, nest: usize, out: &mut String) -> String {
        let c = Self::vars(sc, &CT::F(1));
        if !c.is_empty() && self.rng.chance(1, 2) {
            return self.rng.pick(&c).name.clone();
        }
        let f = self.fresh("f");
        let lit = self.closure_lit(sc, 1, nest.min(1));
        write!(out, "let {} = {}; ", f, lit).unwrap();
        sc.push(CV { name: f.clone(), ty: CT::F(1) });
        f
    }

    fn stmts(&mut self, sc: &mut Vec<CV>, nest: usize, n: usize, out: &mut String, top: bool) {
        for _ in 0..n {
            self.stmt(sc, nest, out, top);
        }
    }

    fn stmt(&mut self, sc: &mut Vec<CV>, nest: usize, out: &mut String, top: bool) {
        let k = self.rng.below(16);
        match k {
            0 => {
                self.feat("let-int");
                let e = self.int_expr(sc, 2);
                let x = self.fresh("x");
                write!(out, "let {} = {}; ", x, e).unwrap();
                sc.push(CV { name: x, ty: CT::I });
            }
            1 => {
                let ints = Self::vars(sc, &CT::I);
                if !ints.is_empty() {
                    let v = self.rng.pick(&ints).name.clone();
                    // rebinding after a closure may have captured the old value
                    self.feat("shadow-after-capture");
                    let e = self.int_expr(sc, 1);
                    write!(out, "let {} = ({} + {}); ", v, v, e).unwrap();
                }
            }
            2 => {
                self.feat("let-ref");
                let e = self.int_expr(sc, 1);
                let r = self.fresh("r");
                write!(out, "let {} = ref({}); ", r, e).unwrap();
                sc.push(CV { name: r, ty: CT::R });
            }
            3 | 4 => {
                let refs = Self::vars(sc, &CT::R);
                if !refs.is_empty() {
                    self.feat("ref-mutation");
                    let r = self.rng.pick(&refs).name.clone();
                    let e = self.int_expr(sc, 2);
                    write!(out, "let _ = ref_set({}, {}); ", r, e).unwrap();
                }
            }
            5 | 6 | 7 if nest > 0 => {
                self.feat("let-closure");
                let n = [1, 1, 1, 0, 2][self.rng.below(5)];
                let lit = self.closure_lit(sc, n, nest - 1);
                let f = self.fresh("f");
                write!(out, "let {} = {}; ", f, lit).unwrap();
                sc.push(CV { name: f.clone(), ty: CT::F(n) });
                if self.rng.chance(2, 3) {
                    let c = self.call_of(&f, n, sc);
                    self.print(&c, out);
                }
            }
            8 => {
                let e = self.int_expr(sc, 3);
                self.print(&e, out);
            }
            9 => {
                // pattern variables as captures
                self.feat("pattern-vars");
                let a = self.int_expr(sc, 1);
                let b = self.int_expr(sc, 1);
                if self.rng.chance(1, 2) {
                    let p = self.fresh("p");
                    let q = self.fresh("q");
                    write!(out, "let ({}, {}) = ({}, {}); ", p, q, a, b).unwrap();
                    sc.push(CV { name: p, ty: CT::I });
                    sc.push(CV { name: q, ty: CT::I });
                } else {
                    let p = self.fresh("p");
                    let q = self.fresh("q");
                    let m = self.fresh("m");
                    let mut inner = sc.clone();
                    inner.push(CV { name: p.clone(), ty: CT::I });
                    inner.push(CV { name: q.clone(), ty: CT::I });
                    let mut body = String::from("{ ");
                    self.stmts(&mut inner, nest, 2, &mut body, false);
                    let e = self.int_expr(&inner, 2);
                    write!(body, "{} }}", e).unwrap();
                    let other = self.int_expr(sc, 1);
                    write!(out, "let {} = match Pair::Two({}, {}) {{ Pair::Two({}, {}) => {}, Pair::Zero => {} }}; ", m, a, b, p, q, body, other).unwrap();
                    sc.push(CV { name: m, ty: CT::I });
                }
            }
            10 => {
                let fs = Self::fvars(sc);
                if !fs.is_empty() {
                    // a closure called in a loop (the cell it shares with its creator changes between calls)
                    self.feat("loop-call");
                    let f = (*self.rng.pick(&fs)).clone();
                    let CT::F(n) = f.ty else { unreachable!() };
                    let i = self.fresh("i");
                    let c = self.call_of(&f.name, n, sc);
                    write!(out, "let {i} = ref(0); while ref_get({i}) < 2 {{ let _ = ref_set({i}, ref_get({i}) + 1); let _ = string_println(int32_to_string({c})); () }}; ", i = i, c = c).unwrap();
                    sc.push(CV { name: i, ty: CT::R });
                }
            }
            11 if self.on(flow::ALIAS) => {
                let fs = Self::fvars(sc);
                if !fs.is_empty() {
                    self.feat("flow:alias");
                    let f = (*self.rng.pick(&fs)).clone();
                    let g = self.fresh("g");
                    write!(out, "let {} = {}; ", g, f.name).unwrap();
                    sc.push(CV { name: g, ty: f.ty });
                }
            }
            12 if self.on(flow::TUPLE) => {
                let f = self.some_f1(sc, nest, out);
                let e = self.int_expr(sc, 1);
                match self.rng.below(3) {
                    0 if nest > 0 => {
                        // a tuple holding a closure is captured by another closure and taken apart inside it
                        self.feat("flow:tuple-captured-by-closure");
                        let (t, g, a) = (self.fresh("t"), self.fresh("f"), self.fresh("a"));
                        let (h, m) = (self.fresh("h"), self.fresh("n"));
                        write!(out, "let {t} = ({f}, {e}); let {g} = |{a}: int32| {{ let ({h}, {m}) = {t}; {h}({a}) + {m} }}; ", t = t, f = f, e = e, g = g, a = a, h = h, m = m).unwrap();
                        sc.push(CV { name: g.clone(), ty: CT::F(1) });
                        let c = self.call_of(&g, 1, sc);
                        self.print(&c, out);
                    }
                    1 if nest > 0 => {
                        // a closure shadows the closure it captures (same source name)
                        self.feat("closure-shadows-captured-closure");
                        let a = self.fresh("a");
                        let k = self.int_expr(sc, 1);
                        write!(out, "let {f} = |{a}: int32| {f}({a}) + {k}; ", f = f, a = a, k = k).unwrap();
                        let c = self.call_of(&f, 1, sc);
                        self.print(&c, out);
                    }
                    _ => {
                        self.feat("flow:tuple");
                        let (h, m) = (self.fresh("h"), self.fresh("n"));
                        write!(out, "let ({}, {}) = ({}, {}); ", h, m, f, e).unwrap();
                        sc.push(CV { name: h.clone(), ty: CT::F(1) });
                        sc.push(CV { name: m.clone(), ty: CT::I });
                        self.print(&format!("{}({})", h, m), out);
                    }
                }
            }
            13 if self.on(flow::STRUCT_OWN) && top => {
                self.feat("flow:struct-field");
                let f = self.some_f1(sc, nest, out);
                let s = self.fresh("Box");
                writeln!(self.decls, "struct {} {{ f: (int32) -> int32, k: int32 }}", s).unwrap();
                let (b, h) = (self.fresh("b"), self.fresh("h"));
                let e = self.int_expr(sc, 1);
                write!(out, "let {} = {} {{ f: {}, k: {} }}; let {} = {}.f; ", b, s, f, e, h, b).unwrap();
                sc.push(CV { name: h.clone(), ty: CT::F(1) });
                self.print(&format!("{}({}.k)", h, b), out);
                if nest > 0 && self.rng.chance(1, 2) {
                    // the struct holding the closure is captured by another closure
                    self.feat("flow:struct-captured-by-closure");
                    let (g, a, hh) = (self.fresh("f"), self.fresh("a"), self.fresh("h"));
                    write!(out, "let {g} = |{a}: int32| {{ let {hh} = {b}.f; {hh}({a} + {b}.k) }}; ", g = g, a = a, hh = hh, b = b).unwrap();
                    sc.push(CV { name: g.clone(), ty: CT::F(1) });
                    let c = self.call_of(&g, 1, sc);
                    self.print(&c, out);
                }
            }
            14 if self.on(flow::TOPFN) && top && self.rng.chance(1, 3) => {
                // closures created inside a trait method and an inherent method (context names with `#`)
                self.feat("closure-in-method");
                let tr = self.fresh("Scale");
                let st = self.fresh("Acc");
                let c = self.rng.below(5);
                writeln!(self.decls, "trait {tr} {{ fn scale(Self, int32) -> int32; }}\nimpl {tr} for int32 {{ fn scale(self: int32, k: int32) -> int32 {{ let pr = (|x: int32| x * k + self + {c}, k); let (f, n) = pr; f(self) + f(n) }} }}\nstruct {st} {{ v: int32 }}\nimpl {st} {{ fn bump(self: {st}, d: int32) -> int32 {{ let g = |y: int32| {{ let h = |z: int32| z + self.v + y; h(d) }}; g(d) }} }}", tr = tr, st = st, c = c).unwrap();
                let e = self.int_expr(sc, 1);
                let e2 = self.int_expr(sc, 1);
                self.print(&format!("{}::scale({}, {})", tr, e, e2), out);
                let e3 = self.int_expr(sc, 1);
                let a = self.fresh("acc");
                write!(out, "let {} = {} {{ v: {} }}; ", a, st, e3).unwrap();
                self.print(&format!("{}.bump({})", a, e), out);
            }
            14 if self.on(flow::TOPFN) => {
                self.feat("flow:top-level-fn-value");
                let t = self.fresh("top");
                let c = self.rng.below(5);
                writeln!(self.before, "fn {}(x: int32) -> int32 {{ x * 3 + {} }}", t, c).unwrap();
                let h = self.fresh("h");
                write!(out, "let {} = {}; ", h, t).unwrap();
                sc.push(CV { name: h, ty: CT::F(1) });
            }
            15 if top && self.on(flow::RETURN_EARLIER) => self.returned_flow(false, sc, nest, out),
            _ => {
                let e = self.int_expr(sc, 2);
                self.print(&e, out);
            }
        }
    }

    /// a function that returns a closure sharing a Ref cell with its caller; `later`: declared after `main`
    fn returned_flow(&mut self, later: bool, sc: &mut Vec<CV>, nest: usize, out: &mut String) {
        self.feat(if later { "flow:returned(callee-declared-later)" } else { "flow:returned" });
        let mk = self.fresh("mk");
        // the maker captures its own parameters and lets
        let mut inner = vec![CV { name: "k".into(), ty: CT::I }, CV { name: "cell".into(), ty: CT::R }];
        let mut body = String::new();
        self.stmts(&mut inner, nest.min(2), 2, &mut body, false);
        let lit = self.closure_lit(&inner, 1, nest.min(2).saturating_sub(1));
        let text = format!("fn {}(k: int32, cell: Ref[int32]) -> (int32) -> int32 {{ {}{} }}\n", mk, body, lit);
        if later { self.after.push_str(&text) } else { self.before.push_str(&text) }
        let refs = Self::vars(sc, &CT::R);
        let r = if refs.is_empty() {
            let r = self.fresh("r");
            write!(out, "let {} = ref(1); ", r).unwrap();
            sc.push(CV { name: r.clone(), ty: CT::R });
            r
        } else {
            self.rng.pick(&refs).name.clone()
        };
        let e = self.int_expr(sc, 1);
        let h = self.fresh("h");
        write!(out, "let {} = {}({}, {}); ", h, mk, e, r).unwrap();
        sc.push(CV { name: h.clone(), ty: CT::F(1) });
        let c = self.call_of(&h, 1, sc);
        self.print(&c, out);
        write!(out, "let _ = ref_set({}, ref_get({}) + 1); ", r, r).unwrap();
        let c = self.call_of(&h, 1, sc);
        self.print(&c, out);
    }

    /// one use of a flow outside the rewriting; each leaves a call whose result is printed
    fn other_flow(&mut self, f: u32, sc: &mut Vec<CV>, nest: usize, out: &mut String) {
        let e1 = self.int_expr(sc, 1);
        match f {
            flow::ARGUMENT => {
                let ap = self.fresh("apply");
                writeln!(self.before, "fn {}(f: (int32) -> int32, x: int32) -> int32 {{ f(f(x)) + 1 }}", ap).unwrap();
                if self.rng.chance(1, 2) {
                    let g = self.some_f1(sc, nest, out);
                    self.print(&format!("{}({}, {})", ap, g, e1), out);
                } else {
                    let lit = self.closure_lit(sc, 1, nest.min(1));
                    self.print(&format!("{}({}, {})", ap, lit, e1), out);
                }
            }
            flow::BRANCH_IF | flow::BRANCH_MATCH | flow::MIXED_TOP => {
                let a = self.some_f1(sc, nest, out);
                let b = if f == flow::MIXED_TOP {
                    let t = self.fresh("top");
                    writeln!(self.before, "fn {}(x: int32) -> int32 {{ x + 100 }}", t).unwrap();
                    t
                } else {
                    let g = self.fresh("f");
                    let lit = self.closure_lit(sc, 1, nest.min(1));
                    write!(out, "let {} = {}; ", g, lit).unwrap();
                    sc.push(CV { name: g.clone(), ty: CT::F(1) });
                    g
                };
                let h = self.fresh("h");
                let c = self.int_expr(sc, 1);
                if f == flow::BRANCH_MATCH {
                    write!(out, "let {} = match {} {{ 0 => {}, _ => {} }}; ", h, c, a, b).unwrap();
                } else {
                    write!(out, "let {} = if {} < 5 {{ {} }} else {{ {} }}; ", h, c, a, b).unwrap();
                }
                sc.push(CV { name: h.clone(), ty: CT::F(1) });
                self.print(&format!("{}({})", h, e1), out);
            }
            flow::ARRAY => {
                let a = self.some_f1(sc, nest, out);
                let g = self.fresh("f");
                let lit = self.closure_lit(sc, 1, nest.min(1));
                write!(out, "let {} = {}; ", g, lit).unwrap();
                let (arr, h) = (self.fresh("arr"), self.fresh("h"));
                write!(out, "let {} = [{}, {}]; let {} = array_get({}, {}); ", arr, a, g, h, arr, self.rng.below(2)).unwrap();
                sc.push(CV { name: h.clone(), ty: CT::F(1) });
                self.print(&format!("{}({})", h, e1), out);
            }
            flow::STRUCT_SHARED => {
                let s = self.fresh("Shared");
                writeln!(self.decls, "struct {} {{ f: (int32) -> int32 }}", s).unwrap();
                let a = self.some_f1(sc, nest, out);
                let g = self.fresh("f");
                let lit = self.closure_lit(sc, 1, nest.min(1));
                write!(out, "let {} = {}; ", g, lit).unwrap();
                let (b1, b2, h) = (self.fresh("b"), self.fresh("b"), self.fresh("h"));
                write!(out, "let {} = {} {{ f: {} }}; let {} = {} {{ f: {} }}; let {} = {}.f; ", b1, s, a, b2, s, g, h, b1).unwrap();
                let _ = b2;
                sc.push(CV { name: h.clone(), ty: CT::F(1) });
                self.print(&format!("{}({})", h, e1), out);
            }
            flow::CURRIED => {
                let add = self.fresh("add");
                let (a, b) = (self.fresh("a"), self.fresh("b"));
                let mut inner = sc.clone();
                inner.push(CV { name: a.clone(), ty: CT::I });
                inner.push(CV { name: b.clone(), ty: CT::I });
                let body = self.int_expr(&inner, 2);
                let h = self.fresh("h");
                write!(out, "let {} = |{}: int32| |{}: int32| {}; let {} = {}({}); ", add, a, b, body, h, add, e1).unwrap();
                sc.push(CV { name: h.clone(), ty: CT::F(1) });
                let c = self.call_of(&h, 1, sc);
                self.print(&c, out);
            }
            flow::REFCELL => {
                let a = self.some_f1(sc, nest, out);
                let (r, h) = (self.fresh("rc"), self.fresh("h"));
                write!(out, "let {} = ref({}); let {} = ref_get({}); ", r, a, h, r).unwrap();
                sc.push(CV { name: h.clone(), ty: CT::F(1) });
                self.print(&format!("{}({})", h, e1), out);
            }
            flow::CLOSURE_PARAM => {
                let a = self.some_f1(sc, nest, out);
                let ap = self.fresh("ap");
                let (h, x) = (self.fresh("h"), self.fresh("a"));
                write!(out, "let {} = |{}: (int32) -> int32, {}: int32| {}({}) + 1; ", ap, h, x, h, x).unwrap();
                self.print(&format!("{}({}, {})", ap, a, e1), out);
            }
            flow::RETURN_BRANCH => {
                let mk = self.fresh("choose");
                writeln!(self.before, "fn {}(c: bool, k: int32) -> (int32) -> int32 {{ if c {{ |x: int32| x + k }} else {{ |y: int32| y * k }} }}", mk).unwrap();
                let h = self.fresh("h");
                write!(out, "let {} = {}({} < 5, {}); ", h, mk, e1, self.rng.below(7)).unwrap();
                sc.push(CV { name: h.clone(), ty: CT::F(1) });
                let c = self.call_of(&h, 1, sc);
                self.print(&c, out);
            }
            flow::RETURN_LATER => self.returned_flow(true, sc, nest, out),
            flow::GO_STMT => {
                let refs = Self::vars(sc, &CT::R);
                let e = if refs.is_empty() { e1 } else { format!("ref_get({})", self.rng.pick(&refs).name) };
                write!(out, "go || {{ string_println(int32_to_string({})) }}; ", e).unwrap();
            }
            _ => {}
        }
    }

    pub fn program(&mut self) -> String {
        self.decls.push_str("enum Pair { Zero, Two(int32, int32) }\n");
        let mut body = String::new();
        let mut sc: Vec<CV> = Vec::new();
        // a shared cell and a plain value every closure may capture
        body.push_str("let base = 7; let cell0 = ref(1); ");
        sc.push(CV { name: "base".into(), ty: CT::I });
        sc.push(CV { name: "cell0".into(), ty: CT::R });
        let nest = self.cfg.nest;
        let n = 3 + self.rng.below(4);
        self.stmts(&mut sc, nest, n, &mut body, true);
        if self.on(flow::TUPLE_RETURN) && self.rng.chance(1, 2) {
            self.feat("flow:tuple-of-closures-returned");
            let mk = self.fresh("mkpair");
            writeln!(
                self.before,
                "fn {}(start: int32) -> (() -> int32, (int32) -> unit) {{ let c = ref(start); let next = || {{ let v = ref_get(c) + 1; let _ = ref_set(c, v); v }}; let put = |v: int32| {{ let _ = ref_set(c, v); () }}; (next, put) }}",
                mk
            )
            .unwrap();
            let (nx, pt) = (self.fresh("next"), self.fresh("put"));
            let e = self.int_expr(&sc, 1);
            write!(body, "let ({}, {}) = {}({}); ", nx, pt, mk, e).unwrap();
            self.print(&format!("{}()", nx), &mut body);
            write!(body, "let _ = {}(40); ", pt).unwrap();
            self.print(&format!("{}()", nx), &mut body);
            sc.push(CV { name: nx, ty: CT::F(0) });
        }
        for (f, name) in flow::OTHER {
            if self.on(f) {
                *self.feats.entry(match name {
                    "argument" => "flow:argument",
                    "branch-if" => "flow:branch-if",
                    "branch-match" => "flow:branch-match",
                    "array" => "flow:array",
                    "return-later" => "flow:return-later",
                    "struct-shared" => "flow:struct-shared",
                    "curried" => "flow:curried",
                    "refcell" => "flow:refcell",
                    "closure-param" => "flow:closure-param",
                    "mixed-top" => "flow:mixed-top",
                    "return-branch" => "flow:return-branch",
                    _ => "flow:go",
                })
                .or_default() += 1;
                self.other_flow(f, &mut sc, nest, &mut body);
            }
        }
        let k = 1 + self.rng.below(3);
        self.stmts(&mut sc, nest, k, &mut body, true);
        // every function value still in scope is called once more at the end
        let fs: Vec<CV> = Self::fvars(&sc).into_iter().cloned().collect();
        for f in fs {
            let CT::F(n) = f.ty else { continue };
            let c = self.call_of(&f.name, n, &sc);
            self.print(&c, &mut body);
        }
        format!("{}{}fn main() {{ {}() }}\n{}", self.decls, self.before, body, self.after)
    }
}

pub fn gen_closure_program(rng: &mut Rng, cfg: CloCfg) -> (String, BTreeMap<&'static str, usize>) {
    let mut g = CloGen { rng, cfg, uid: 0, before: String::new(), after: String::new(), decls: String::new(), feats: BTreeMap::new() };
    let src = g.program();
    (src, g.feats)
}

// ------------------------------------------------------------------------------------------
// C08: capture sites.  `collect_captured` must walk every sub-expression of every node kind: one
// program per (syntactic context, kind of outer variable, closure nesting depth) in which the
// innermost closure mentions the outer variable NOWHERE but in that context, so a traversal that
// skips the context loses the capture (and with it the sharing of a Ref cell).

pub const SITE_CTXS: [&str; 33] = [
    "plain", "go-lit", "go-named", "while-cond", "while-body", "if-cond", "if-then", "if-else", "match-scrut", "match-arm",
    "match-default", "enum-arm", "enum-default", "str-match-default", "let-value", "let-body", "call-arg", "builtin-arg",
    "ctor-arg", "struct-lit", "tuple-item", "array-item", "field", "proj", "unary", "bin-lhs", "bin-rhs", "and-rhs", "or-rhs",
    "to-dyn", "dyn-recv", "dyn-arg", "inner-closure",
];
pub const SITE_KINDS: [&str; 7] = ["val", "ref", "clo", "topfn", "param", "patvar", "armvar"];

/// the int-typed use of the outer variable `var` of kind `kind` (kinds of SITE_KINDS, plus the
/// Shape-typed kinds of the spelled stream, `harness/src/c08spell.rs`)
pub fn site_use(kind: &str, var: &str) -> Option<String> {
    Some(match kind {
        "val" | "param" | "patvar" | "armvar" => var.to_string(),
        "ref" => format!("ref_get({})", var),
        "clo" => format!("{}(3)", var),
        "topfn" => format!("{}(2)", var),
        "enumval" => format!("area({})", var),
        "mkfn" => format!("area({}(3))", var),
        _ => return None,
    })
}

/// the body of the innermost closure for context `ctx`: `e` is the use of the outer variable `var`;
/// returns (bindings of the defining scope the context needs besides the variable, body).
/// `None`: the combination does not exist (e.g. a `dyn` receiver that is a Ref)
pub fn site_body(ctx: &str, kind: &str, var: &str, e: &str, c1: usize) -> Option<(String, String)> {
    let mut bind = String::new();
    let mut e = e.to_string();
    let direct = matches!(kind, "val" | "param" | "patvar" | "armvar");
    // contexts whose captured variable is a container of the value
    match ctx {
        "field" => {
            let (st, fld, use_) = match kind {
                "ref" => ("BxR", "r", "ref_get(bx.r)".to_string()),
                "clo" | "topfn" => ("BxF", "f", "{ let h = bx.f; h(3) }".to_string()),
                "enumval" => ("BxS", "s", "area(bx.s)".to_string()),
                "mkfn" => ("BxM", "m", "{ let h = bx.m; area(h(3)) }".to_string()),
                _ => ("Bx", "v", "bx.v".to_string()),
            };
            write!(bind, "let bx = {} {{ {}: {} }}; ", st, fld, var).unwrap();
            e = use_;
        }
        "proj" => {
            let use_ = match kind {
                "ref" => "{ let (p, q) = tp; ref_get(p) + q }",
                "clo" | "topfn" => "{ let (p, q) = tp; p(3) + q }",
                "enumval" => "{ let (p, q) = tp; area(p) + q }",
                "mkfn" => "{ let (p, q) = tp; area(p(3)) + q }",
                _ => "{ let (p, q) = tp; p + q }",
            };
            write!(bind, "let tp = ({}, {}); ", var, c1).unwrap();
            e = use_.into();
        }
        "dyn-recv" => {
            if !direct {
                return None;
            }
            write!(bind, "let dx: dyn Show = {}; ", var).unwrap();
            e = "string_len(Show::show(dx))".into();
        }
        "go-named" => {
            write!(bind, "let w = || {{ string_println(\"spawned \" + int32_to_string({})) }}; ", e).unwrap();
        }
        _ => {}
    }
    let body = match ctx {
        "plain" | "field" | "proj" | "dyn-recv" => e.clone(),
        "go-lit" => format!("{{ go || {{ string_println(\"spawned \" + int32_to_string({})) }}; a }}", e),
        "go-named" => "{ go w; a }".to_string(),
        "while-cond" => format!("{{ let i = ref(0); while ref_get(i) < {} {{ ref_set(i, ref_get(i) + 100) }}; ref_get(i) + a }}", e),
        "while-body" => format!("{{ let i = ref(0); let acc = ref(0); while ref_get(i) < 2 {{ let _ = ref_set(acc, ref_get(acc) + {}); ref_set(i, ref_get(i) + 1) }}; ref_get(acc) + a }}", e),
        "if-cond" => format!("if {} < 5 {{ a }} else {{ a + 10 }}", e),
        "if-then" => format!("if a < 3 {{ {} }} else {{ 0 }}", e),
        "if-else" => format!("if a < 3 {{ 0 }} else {{ {} }}", e),
        "match-scrut" => format!("match {} {{ 0 => a, 3 => a + 1, _ => a + 2 }}", e),
        "match-arm" => format!("match a {{ 1 => {}, _ => 0 }}", e),
        "match-default" => format!("match a {{ 1 => 0, _ => {} }}", e),
        "enum-arm" => format!("match Pair::Two(a, {}) {{ Pair::Two(p, q) => p + q + {}, Pair::Zero => 0 }}", c1, e),
        "enum-default" => format!("match (if a < 3 {{ Pair::Zero }} else {{ Pair::Two(a, 1) }}) {{ Pair::Zero => 0, _ => {} }}", e),
        "str-match-default" => format!("match int32_to_string(a) {{ \"1\" => 0, _ => {} }}", e),
        "let-value" => format!("{{ let t = {}; t + a }}", e),
        "let-body" => format!("{{ let t = a; t + {} }}", e),
        "call-arg" => format!("idf(a) + idf({})", e),
        "builtin-arg" => format!("string_len(int32_to_string({})) + a", e),
        "ctor-arg" => format!("match Pair::Two({}, a) {{ Pair::Two(p, q) => p * 2 + q, Pair::Zero => 0 }}", e),
        "struct-lit" => format!("{{ let b = Bx {{ v: {} }}; b.v + a }}", e),
        "tuple-item" => format!("{{ let (p, q) = (a, {}); p + q }}", e),
        "array-item" => format!("array_get([a, {}], 1) + a", e),
        "unary" => format!("(-{}) + a", e),
        "bin-lhs" => format!("({} * 2) + a", e),
        "bin-rhs" => format!("a + (2 * {})", e),
        "and-rhs" => format!("if (a < 100) && ({} < 50) {{ 1 }} else {{ 0 }}", e),
        "or-rhs" => format!("if (a > 100) || ({} < 50) {{ 1 }} else {{ 0 }}", e),
        // the typer coerces only operands whose type is already concrete: a call result goes through a typed let
        "to-dyn" if !direct => format!("{{ let t0: int32 = {}; let d: dyn Show = t0; string_len(Show::show(d)) + a }}", e),
        "to-dyn" => format!("{{ let d: dyn Show = {}; string_len(Show::show(d)) + a }}", e),
        "dyn-arg" => format!("{{ let d2: dyn Sc = a; Sc::sc(d2, {}) }}", e),
        "inner-closure" => format!("{{ let g = |b: int32| b + {}; g(a) }}", e),
        _ => return None,
    };
    Some((bind, body))
}

/// nesting: f1 creates and calls f2 creates and calls f3 …; only the innermost mentions the variable
pub fn site_nest(body: &str, depth: usize) -> String {
    let mut clos = format!("|a: int32| {}", body);
    for lvl in (1..depth).rev() {
        clos = format!("|a{l}: int32| {{ let f{n} = {inner}; f{n}(a{l}) }}", l = lvl, n = lvl + 1, inner = clos);
    }
    clos
}

/// the same body evaluated IN PLACE with `a` = `arg` (bound by a match on the argument — a block is
/// not an expression a `let` accepts — through the same chain of intermediate parameters the nested
/// closures would pass it along)
pub fn site_in_place(body: &str, depth: usize, arg: &str) -> String {
    let mut inner = format!("match {} {{ a => {} }}", if depth > 1 { format!("a{}", depth - 1) } else { arg.to_string() }, body);
    for lvl in (1..depth).rev() {
        inner = format!("match {v} {{ a{l} => {inner} }}", l = lvl, v = if lvl > 1 { format!("a{}", lvl - 1) } else { arg.to_string() }, inner = inner);
    }
    inner
}

/// what the defining scope does with the closure text `clos` (or, `clos` = None, with the body
/// evaluated in place): create it once, call it twice (a Ref it shares is updated in between), print both results
pub fn site_core(bind: &str, body: &str, depth: usize, mutate: &str, in_place: bool) -> String {
    if in_place {
        format!(
            "{bind}let r1 = {c1}; let _ = string_println(int32_to_string(r1)); {mutate}let r2 = {c4}; let _ = string_println(int32_to_string(r2)); r1 + r2",
            bind = bind,
            c1 = site_in_place(body, depth, "1"),
            c4 = site_in_place(body, depth, "4"),
            mutate = mutate
        )
    } else {
        format!(
            "{bind}let f1 = {clos}; let r1 = f1(1); let _ = string_println(int32_to_string(r1)); {mutate}let r2 = f1(4); let _ = string_println(int32_to_string(r2)); r1 + r2",
            bind = bind,
            clos = site_nest(body, depth),
            mutate = mutate
        )
    }
}

pub const SITE_PRELUDE: &str = "enum Pair { Zero, Two(int32, int32) }\nstruct Bx { v: int32 }\nstruct BxR { r: Ref[int32] }\nstruct BxF { f: (int32) -> int32 }\ntrait Show { fn show(Self) -> string; }\nimpl Show for int32 { fn show(self: int32) -> string { \"i\" + int32_to_string(self) } }\ntrait Sc { fn sc(Self, int32) -> int32; }\nimpl Sc for int32 { fn sc(self: int32, k: int32) -> int32 { self * 10 + k } }\nfn idf(v: int32) -> int32 { v }\nfn topf(z: int32) -> int32 { z * 3 + 1 }\n";

/// `None`: the combination does not exist (e.g. a `dyn` receiver that is a Ref)
pub fn capture_site_program(ctx: &str, kind: &str, depth: usize, rng: &mut Rng) -> Option<String> {
    let k = 2 + rng.below(7);
    let c1 = 1 + rng.below(3);
    // the outer binding and the int-typed use of it
    let var = if kind == "param" { "px" } else { "x" };
    let mut bind: String = match kind {
        "val" => format!("let x = {}; ", k),
        "ref" => format!("let x = ref({}); ", k),
        "clo" => format!("let x = |z: int32| z + {}; ", k),
        "topfn" => "let x = topf; ".into(),
        "param" => String::new(),
        "patvar" => format!("let (x, y0) = ({}, 1); ", k),
        "armvar" => String::new(),
        _ => return None,
    };
    let e = site_use(kind, var)?;
    let (more, body) = site_body(ctx, kind, var, &e, c1)?;
    bind.push_str(&more);
    let mutate = if kind == "ref" { "let _ = ref_set(x, ref_get(x) + 5); " } else { "" };
    let core = site_core(&bind, &body, depth, mutate, false);
    let host_body = if kind == "armvar" {
        format!("match Pair::Two({}, {}) {{ Pair::Two(x, q0) => {{ {} }}, Pair::Zero => 0 }}", k, c1, core)
    } else {
        core
    };
    Some(format!("{}fn host(px: int32) -> int32 {{ {} }}\nfn main() {{ let _ = string_println(int32_to_string(host({}))); () }}\n", SITE_PRELUDE, host_body, 1 + rng.below(4)))
}
